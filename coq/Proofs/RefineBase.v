(* Refinement of the reference semantics by the interpreter model: common ground.
   - values read through live counter cells ([deref]) against every operation of Value/Mods;
   - the context invariant [Inv] under which the abstraction [abs] of FlatProofs is faithful;
   - how reference signals show in the interpreter ([sig_rel]) and the domain of the statement
     ([sig_dom]);
   - an induction principle for the nested inductive [ast]. *)
From DT Require Import Model.Bytes Proofs.BytesFacts Model.Value Model.Tree Model.Mods Model.Interp
  Model.EscURL Model.EscJSON Model.EscHTML Spec.Ast Spec.RefEval Spec.Compile Proofs.InterpFacts
  Proofs.FlatProofs.
Local Open Scope Z_scope.

Ltac done := first [assumption | reflexivity | exact I].

(* ------------------------------------------------------------------ deref against Value.v *)

Lemma is_nil_deref lc v : is_nil (deref lc v) = is_nil v.
Proof. destruct v; reflexivity. Qed.

Lemma leaf_cmp_deref st lc v o lit fl : leaf_cmp st [] (deref lc v) o lit fl = leaf_cmp st lc v o lit fl.
Proof. destruct v; reflexivity. Qed.

Lemma leaf_len_deref lc v : leaf_len (deref lc v) = leaf_len v.
Proof. destruct v; cbn [deref leaf_len]; rewrite ?map_length; reflexivity. Qed.

Lemma get_len_deref lc v : get_len (deref lc v) = get_len v.
Proof. destruct v; reflexivity. Qed.

Lemma conv_int_deref lc v : conv_int [] (deref lc v) = conv_int lc v.
Proof. destruct v; reflexivity. Qed.

Lemma if2int_deref lc v : if2int [] (deref lc v) = if2int lc v.
Proof. destruct v; reflexivity. Qed.

Lemma empty_check_deref lc v : empty_check [] (deref lc v) = empty_check lc v.
Proof. destruct v; reflexivity. Qed.

Lemma conv_bool_deref lc v : conv_bool (deref lc v) = conv_bool v.
Proof. destruct v; reflexivity. Qed.

Lemma conv_bytes_deref lc v : conv_bytes (deref lc v) = conv_bytes v.
Proof. destruct v; reflexivity. Qed.

Lemma elem_static_deref lc v : elem_static (deref lc v) = elem_static v.
Proof. destruct v; reflexivity. Qed.

Lemma text_or_empty_deref lc v : text_or_empty [] (deref lc v) = text_or_empty lc v.
Proof. unfold text_or_empty. rewrite text_of_deref. reflexivity. Qed.

Lemma deref_bytes lc s : deref lc (VBytes s) = VBytes s.
Proof. reflexivity. Qed.

Lemma ins_loop_deref lc v :
  ins_loop (deref lc v) = option_map (map (deref_kv lc)) (ins_loop v).
Proof.
  destruct v; try reflexivity.
  cbn [deref ins_loop option_map]. rewrite map_length. f_equal.
  generalize (seq 0 (length l)) as ks. induction l as [|x l IH]; intros [|k ks]; try reflexivity.
  cbn [map combine deref_kv]. rewrite IH. reflexivity.
Qed.

(* ------------------------------------------------------------------ deref against Mods.v *)

Definition deref_arg (lc : list Z) (a : argval) : argval :=
  match a with AVal v => AVal (deref lc v) | AKV k v => AKV k (deref lc v) end.

Definition map_pm (f : value -> value) (r : pmres) : pmres :=
  match r with POk v => POk (f v) | r => r end.

Lemma arg_value_deref lc a : arg_value (deref_arg lc a) = deref lc (arg_value a).
Proof. destruct a; reflexivity. Qed.

Lemma print_iterations_deref lc args : print_iterations (map (deref_arg lc) args) = print_iterations args.
Proof.
  destruct args as [|a r]; [reflexivity|]. destruct a as [v|k v]; [|reflexivity].
  destruct v; reflexivity.
Qed.

Lemma quote_pass_bytes bl s : quote_pass bl (VBytes s) = VBytes (json_quote s).
Proof. reflexivity. Qed.

Lemma quote_iter_bytes lc : forall n s,
  repeat_app (quote_pass []) n (VBytes s) = repeat_app (quote_pass lc) n (VBytes s) /\
  deref lc (repeat_app (quote_pass lc) n (VBytes s)) = repeat_app (quote_pass lc) n (VBytes s).
Proof.
  induction n as [|n IH]; intros s; [split; reflexivity|].
  cbn [repeat_app]. rewrite !quote_pass_bytes. apply IH.
Qed.

Lemma quote_iter_deref lc n v :
  repeat_app (quote_pass []) n (deref lc v) = deref lc (repeat_app (quote_pass lc) n v).
Proof.
  destruct n as [|n]; [reflexivity|]. cbn [repeat_app].
  assert (E : quote_pass [] (deref lc v) = quote_pass lc v).
  { unfold quote_pass. rewrite text_of_deref. reflexivity. }
  rewrite E.
  assert (S : exists s, quote_pass lc v = VBytes s).
  { unfold quote_pass. destruct (text_of lc v); eexists; reflexivity. }
  destruct S as [s Hs]. rewrite Hs.
  destruct (quote_iter_bytes lc n s) as [H1 H2]. rewrite H1, H2. reflexivity.
Qed.

Lemma flat_map_text_deref lc args :
  flat_map (fun a => match a with
                     | AVal x => text_or_empty [] x
                     | AKV k x => k ++ ["="%byte] ++ text_or_empty [] x
                     end) (map (deref_arg lc) args) =
  flat_map (fun a => match a with
                     | AVal x => text_or_empty lc x
                     | AKV k x => k ++ ["="%byte] ++ text_or_empty lc x
                     end) args.
Proof.
  induction args as [|a r IH]; [reflexivity|].
  cbn [map flat_map]. rewrite IH. destruct a; cbn [deref_arg]; rewrite text_or_empty_deref; reflexivity.
Qed.

(* every pure modifier commutes with reading cells through *)
Lemma pure_mod_deref lc id v args :
  pure_mod [] id (deref lc v) (map (deref_arg lc) args) = map_pm (deref lc) (pure_mod lc id v args).
Proof.
  unfold pure_mod.
  destruct (name_is id n_default).
  { destruct args as [|a r]; [reflexivity|]. cbn [map map_pm]. rewrite empty_check_deref, arg_value_deref.
    destruct (empty_check lc v); reflexivity. }
  destruct (name_is id n_ifthen).
  { destruct args as [|a r]; [reflexivity|]. cbn [map map_pm]. rewrite conv_bool_deref, arg_value_deref.
    destruct (conv_bool v) as [[|]|]; reflexivity. }
  destruct (name_is id n_ifthenelse).
  { destruct args as [|a [|b r]]; try reflexivity. cbn [map map_pm]. rewrite conv_bool_deref, !arg_value_deref.
    destruct (conv_bool v) as [[|]|]; reflexivity. }
  assert (EB : forall f, esc_bytes f [] (deref lc v) (map (deref_arg lc) args) = map_pm (deref lc) (esc_bytes f lc v args)).
  { intros f. unfold esc_bytes. rewrite text_of_deref, print_iterations_deref.
    destruct (text_of lc v) as [[|b0 b]|]; reflexivity. }
  assert (ER : forall f, esc_runes f [] (deref lc v) (map (deref_arg lc) args) = map_pm (deref lc) (esc_runes f lc v args)).
  { intros f. unfold esc_runes. rewrite text_of_deref, print_iterations_deref.
    destruct (text_of lc v) as [b|]; reflexivity. }
  destruct (name_is id n_jsonescape); [apply EB|].
  destruct (name_is id n_jsonquote).
  { cbn [map_pm]. rewrite print_iterations_deref, quote_iter_deref. reflexivity. }
  destruct (name_is id n_htmlescape); [apply EB|].
  destruct (name_is id n_linkescape); [apply EB|].
  destruct (name_is id n_urlencode); [apply EB|].
  destruct (name_is id n_attrescape); [apply ER|].
  destruct (name_is id n_cssescape); [apply ER|].
  destruct (name_is id n_jsescape); [apply ER|].
  destruct (name_is id n_vup).
  { rewrite text_of_deref. destruct (text_of lc v); reflexivity. }
  destruct (name_is id n_vcat).
  { cbn [map_pm deref]. rewrite text_or_empty_deref, flat_map_text_deref. reflexivity. }
  reflexivity.
Qed.

(* ------------------------------------------------------------------ the context invariant *)

(* a value without live cells reads the same whatever the counters hold *)
Definition cell_free (v : value) : Prop := forall lc, deref lc v = v.

(* values the engine stores: cell-free, or one of the cells allocated so far *)
Definition val_ok (n : nat) (v : value) : Prop :=
  cell_free v \/ exists i, v = VCell i /\ (i < n)%nat.

(* a slot whose live representation is the byte buffer or the counter was written by
   SetBytes / SetCounter, which make it static *)
Definition slot_ok (n : nat) (s : slot) : Prop :=
  (is_nil (s_val s) && (nonempty (s_buf s) || s_cntrF s) = true -> s_static s = true) /\
  val_ok n (s_val s).

(* [L]: the counter cells of the counter loops being executed, with the loop variable's name:
   a live cell is referred to by its own loop variable only *)
Definition live_ok (c : ctx) (p : nat * bytes) : Prop :=
  (fst p < length (bufLC c))%nat /\
  forall s, In s (vars c) -> s_val s = VCell (fst p) -> s_key s = snd p.

Definition Inv (L : list (nat * bytes)) (c : ctx) : Prop :=
  Forall (slot_ok (length (bufLC c))) (vars c) /\
  NoDup (map s_key (vars c)) /\
  Forall (live_ok c) L /\
  0 <= brkD c.

(* equality of everything [abs] and [Inv] look at *)
Definition ceq (c1 c : ctx) : Prop :=
  vars c1 = vars c /\ bufLC c1 = bufLC c /\ chQB c1 = chQB c /\ chJQ c1 = chJQ c /\
  chHE c1 = chHE c /\ chUE c1 = chUE c /\ brkD c1 = brkD c.

Lemma ceq_refl c : ceq c c.
Proof. repeat split. Qed.
Lemma ceq_trans a b c : ceq a b -> ceq b c -> ceq a c.
Proof. unfold ceq. intros (A1&A2&A3&A4&A5&A6&A7) (B1&B2&B3&B4&B5&B6&B7). repeat split; congruence. Qed.
Lemma ceq_cerr e c : ceq (set_cerr e c) c.
Proof. repeat split. Qed.
Lemma ceq_bufB b c : ceq (set_bufB b c) c.
Proof. repeat split. Qed.

Lemma ceq_abs c1 c : ceq c1 c -> abs c1 = abs c.
Proof. unfold ceq, abs. intros (A1&A2&A3&A4&A5&A6&A7). rewrite A1, A2, A3, A4, A5, A6, A7. reflexivity. Qed.

Lemma ceq_Inv L c1 c : ceq c1 c -> Inv L c -> Inv L c1.
Proof.
  unfold ceq, Inv, live_ok. intros (A1&A2&A3&A4&A5&A6&A7) H. rewrite A1, A2, A7. exact H.
Qed.

Lemma cell_free_ins_get v path : cell_free v -> cell_free (ins_get v path).
Proof. intros H lc. rewrite <- ins_get_deref, H. reflexivity. Qed.

Lemma cell_free_bytes s : cell_free (VBytes s). Proof. intros lc. reflexivity. Qed.
Lemma cell_free_int z : cell_free (VInt z). Proof. intros lc. reflexivity. Qed.
Lemma cell_free_bool b : cell_free (VBool b). Proof. intros lc. reflexivity. Qed.
Lemma cell_free_nil : cell_free VNil. Proof. intros lc. reflexivity. Qed.

Lemma val_ok_mono n m v : (n <= m)%nat -> val_ok n v -> val_ok m v.
Proof. intros Hnm [H|(i&E&Hi)]; [left; exact H|right; exists i; split; [exact E|lia]]. Qed.

Lemma slot_ok_mono n m s : (n <= m)%nat -> slot_ok n s -> slot_ok m s.
Proof. intros Hnm [H1 H2]. split; [exact H1|eapply val_ok_mono; eassumption]. Qed.

(* reading through a longer / updated counter buffer *)
Lemma deref_app lc x v : val_ok (length lc) v -> deref (lc ++ [x]) v = deref lc v.
Proof.
  intros [H|(i&E&Hi)].
  - rewrite !H. reflexivity.
  - subst v. cbn [deref]. rewrite app_nth1 by exact Hi. reflexivity.
Qed.

Lemma nth_set_nth_other {A} (d : A) i j x : forall l, i <> j -> nth i (set_nth j x l) d = nth i l d.
Proof.
  intros l. revert i j. induction l as [|y l IH]; intros i j Hij; [destruct i, j; reflexivity|].
  destruct j as [|j]; destruct i as [|i]; cbn [set_nth nth]; try reflexivity; try congruence.
  apply IH. congruence.
Qed.

Lemma nth_set_nth_same {A} (d : A) j x : forall l, (j < length l)%nat -> nth j (set_nth j x l) d = x.
Proof.
  intros l. revert j. induction l as [|y l IH]; intros j Hj; [cbn in Hj; lia|].
  destruct j as [|j]; cbn [set_nth nth]; [reflexivity|]. apply IH. cbn in Hj. lia.
Qed.

Lemma set_nth_length {A} j (x : A) : forall l, length (set_nth j x l) = length l.
Proof.
  intros l. revert j. induction l as [|y l IH]; intros j; [destruct j; reflexivity|].
  destruct j; cbn [set_nth length]; [reflexivity|]. rewrite IH. reflexivity.
Qed.

Lemma deref_set_nth lc j x n v : val_ok n v -> v <> VCell j -> deref (set_nth j x lc) v = deref lc v.
Proof.
  intros [H|(i&E&Hi)] Hne.
  - rewrite !H. reflexivity.
  - subst v. cbn [deref]. rewrite nth_set_nth_other; [reflexivity|]. congruence.
Qed.

(* ------------------------------------------------------------------ setters under abs *)

Lemma env_upd_abs lc k f x : forall l,
  (forall s, s_key (f s) = s_key s) -> (forall s, abs_entry lc (f s) = x) ->
  env_upd k x (map (abs_slot lc) l) = option_map (map (abs_slot lc)) (upd_slot k f l).
Proof.
  intros l Hk Hx. induction l as [|s l IH]; [reflexivity|].
  cbn [map abs_slot env_upd upd_slot]. destruct (bytes_eqb (s_key s) k).
  - cbn [option_map map]. unfold abs_slot at 2. rewrite Hk, Hx. reflexivity.
  - rewrite IH. destruct (upd_slot k f l); reflexivity.
Qed.

Lemma abs_put_slot k f fresh c x :
  (forall s, s_key (f s) = s_key s) -> s_key fresh = k ->
  (forall s, abs_entry (bufLC c) (f s) = x) -> abs_entry (bufLC c) fresh = x ->
  abs (put_slot k f fresh c) = env_set k (en_val x) (en_static x) (abs c).
Proof.
  intros Hk Hf Hx Hfx. unfold put_slot, env_set. cbn [ev abs].
  replace (mkEntry (en_val x) (en_static x)) with x by (destruct x; reflexivity).
  rewrite (env_upd_abs (bufLC c) k f x (vars c) Hk Hx).
  destruct (upd_slot k f (vars c)) as [l'|]; cbn [option_map]; unfold abs, set_ev; cbn.
  - reflexivity.
  - rewrite map_app. cbn [map]. unfold abs_slot at 2. rewrite Hf, Hfx. reflexivity.
Qed.

Lemma abs_ctx_set k v st c : abs (ctx_set k v st c) = env_set k (deref (bufLC c) v) st (abs c).
Proof.
  unfold ctx_set.
  assert (E : forall key cn, abs_entry (bufLC c) (mkSlot key v [] false cn st) = mkEntry (deref (bufLC c) v) st).
  { intros key cn. unfold abs_entry. cbn [s_val s_buf s_cntrF s_static nonempty]. rewrite !andb_false_r. reflexivity. }
  rewrite (abs_put_slot k _ _ c (mkEntry (deref (bufLC c) v) st)); try reflexivity.
  - intros s. apply E.
  - apply E.
Qed.

Lemma abs_ctx_set_bytes k b c : b <> [] -> abs (ctx_set_bytes k b c) = env_set k (VBytes b) true (abs c).
Proof.
  intros Hb. unfold ctx_set_bytes.
  assert (E : forall key cn, abs_entry (bufLC c) (mkSlot key VNil b false cn true) = mkEntry (VBytes b) true).
  { intros key cn. unfold abs_entry. cbn [s_val s_buf s_cntrF s_static is_nil]. destruct b; [congruence|reflexivity]. }
  rewrite (abs_put_slot k _ _ c (mkEntry (VBytes b) true)); try reflexivity.
  - intros s. apply E.
  - apply E.
Qed.

Lemma abs_ctx_set_counter k n c : abs (ctx_set_counter k n c) = env_set k (VInt n) true (abs c).
Proof.
  unfold ctx_set_counter.
  rewrite (abs_put_slot k _ _ c (mkEntry (VInt n) true)); reflexivity.
Qed.

(* ------------------------------------------------------------------ setters keep the invariant *)

Lemma upd_slot_spec k f : forall l l',
  upd_slot k f l = Some l' ->
  (forall s, s_key (f s) = s_key s) ->
  map s_key l' = map s_key l /\
  (forall s', In s' l' -> In s' l \/ exists s, In s l /\ s_key s = k /\ s' = f s).
Proof.
  induction l as [|s l IH]; intros l' E Hk; [discriminate|].
  cbn [upd_slot] in E. destruct (bytes_eqb (s_key s) k) eqn:K.
  - inversion E; subst l'. cbn [map]. rewrite Hk. split; [reflexivity|].
    intros s' [<-|H]; [right; exists s; split; [left; reflexivity|split; [apply bytes_eqb_eq, K|reflexivity]]|left; right; exact H].
  - destruct (upd_slot k f l) as [r'|] eqn:U; [|discriminate]. inversion E; subst l'.
    destruct (IH r' eq_refl Hk) as [M I]. cbn [map]. rewrite M. split; [reflexivity|].
    intros s' [<-|H]; [left; left; reflexivity|].
    destruct (I s' H) as [H'|(s0&H1&H2&H3)]; [left; right; exact H'|right; exists s0; split; [right; exact H1|split; assumption]].
Qed.

Lemma upd_slot_none k f : forall l, upd_slot k f l = None -> ~ In k (map s_key l).
Proof.
  induction l as [|s l IH]; intros E; [intros []|].
  cbn [upd_slot] in E. destruct (bytes_eqb (s_key s) k) eqn:K; [discriminate|].
  destruct (upd_slot k f l); [discriminate|]. cbn [map]. intros [H|H].
  - apply bytes_eqb_eq in H. congruence.
  - exact (IH eq_refl H).
Qed.

(* a setter that stores a value which is no live cell of a foreign loop *)
Lemma Inv_put_slot L k f fresh c :
  (forall s, s_key (f s) = s_key s) -> s_key fresh = k ->
  (forall s, slot_ok (length (bufLC c)) (f s)) -> slot_ok (length (bufLC c)) fresh ->
  (forall s, s_val (f s) = s_val fresh) ->
  (forall p, In p L -> s_val fresh = VCell (fst p) -> snd p = k) ->
  Inv L c -> Inv L (put_slot k f fresh c).
Proof.
  intros Hk Hf Hok Hfok Hv Hlive (I1 & I2 & I3 & I4). unfold put_slot.
  destruct (upd_slot k f (vars c)) as [l'|] eqn:U.
  - destruct (upd_slot_spec k f _ _ U Hk) as [M In']. unfold Inv. cbn [vars set_vars bufLC].
    split; [|split; [|split; [|exact I4]]].
    + apply Forall_forall. intros s' Hs'. destruct (In' s' Hs') as [H|(s0&_&_&->)]; [|apply Hok].
      rewrite Forall_forall in I1. apply I1, H.
    + rewrite M. exact I2.
    + rewrite Forall_forall in *. intros p Hp. destruct (I3 p Hp) as [P1 P2]. split; [exact P1|].
      cbn [vars set_vars]. intros s' Hs' Hc. destruct (In' s' Hs') as [H|(s0&H0&K0&->)]; [apply P2; assumption|].
      rewrite Hk, K0. symmetry. apply Hlive; [exact Hp|]. rewrite <- Hv with (s := s0). exact Hc.
  - unfold Inv. cbn [vars set_vars bufLC]. split; [|split; [|split; [|exact I4]]].
    + apply Forall_app. split; [exact I1|constructor; [exact Hfok|constructor]].
    + rewrite map_app. cbn [map]. rewrite Hf.
      pose proof (upd_slot_none k f _ U) as N.
      assert (G : forall l, NoDup l -> ~ In k l -> NoDup (l ++ [k])).
      { induction l as [|y l IH]; intros D NI; [constructor; [intros []|constructor]|].
        inversion D; subst. cbn [app]. constructor.
        - rewrite in_app_iff. intros [H|[H|[]]]; [contradiction|]. apply NI. left. congruence.
        - apply IH; [assumption|]. intros H. apply NI. right. exact H. }
      apply G; assumption.
    + rewrite Forall_forall in *. intros p Hp. destruct (I3 p Hp) as [P1 P2]. split; [exact P1|].
      cbn [vars set_vars]. intros s' Hs' Hc. apply in_app_iff in Hs'. destruct Hs' as [H|[<-|[]]]; [apply P2; assumption|].
      rewrite Hf. symmetry. apply Hlive; assumption.
Qed.

Definition not_live (L : list (nat * bytes)) (k : bytes) (v : value) : Prop :=
  forall p, In p L -> v = VCell (fst p) -> snd p = k.

Lemma not_live_cell_free L k v : cell_free v -> not_live L k v.
Proof. intros H p _ E. subst v. specialize (H [1]). destruct (fst p) as [|[|n]]; cbn in H; discriminate. Qed.

Lemma Inv_ctx_set L k v st c :
  val_ok (length (bufLC c)) v -> not_live L k v -> Inv L c -> Inv L (ctx_set k v st c).
Proof.
  intros Hv Hl HI. unfold ctx_set. apply Inv_put_slot; try reflexivity; try assumption.
  - intros s. split; [|exact Hv]. cbn [s_val s_buf s_cntrF s_static nonempty]. rewrite andb_false_r. discriminate.
  - split; [|exact Hv]. cbn [s_val s_buf s_cntrF s_static nonempty]. rewrite andb_false_r. discriminate.
Qed.

Lemma Inv_ctx_set_bytes L k b c : Inv L c -> Inv L (ctx_set_bytes k b c).
Proof.
  intros HI. unfold ctx_set_bytes. apply Inv_put_slot; try reflexivity; try assumption.
  - intros s. split; [reflexivity|]. left. apply cell_free_nil.
  - split; [reflexivity|]. left. apply cell_free_nil.
  - intros p _ E. discriminate E.
Qed.

Lemma Inv_ctx_set_counter L k n c : Inv L c -> Inv L (ctx_set_counter k n c).
Proof.
  intros HI. unfold ctx_set_counter. apply Inv_put_slot; try reflexivity; try assumption.
  - intros s. split; [reflexivity|]. left. apply cell_free_nil.
  - split; [reflexivity|]. left. apply cell_free_nil.
  - intros p _ E. discriminate E.
Qed.

(* ------------------------------------------------------------------ slots under abs *)

Definition slots_ok (c : ctx) : Prop := Forall (slot_ok (length (bufLC c))) (vars c).

Lemma Inv_slots L c : Inv L c -> slots_ok c.
Proof. intros (H&_&_&_). exact H. Qed.

Lemma ceq_slots c1 c : ceq c1 c -> slots_ok c -> slots_ok c1.
Proof. unfold ceq, slots_ok. intros (A1&A2&_) H. rewrite A1, A2. exact H. Qed.

Lemma find_var_In k : forall l s, find_var k l = Some s -> In s l.
Proof.
  induction l as [|x l IH]; intros s E; [discriminate|].
  cbn [find_var] in E. destruct (bytes_eqb (s_key x) k); [inversion E; left; reflexivity|right; apply IH, E].
Qed.

Lemma find_var_key k : forall l s, find_var k l = Some s -> s_key s = k.
Proof.
  induction l as [|x l IH]; intros s E; [discriminate|].
  cbn [find_var] in E. destruct (bytes_eqb (s_key x) k) eqn:K; [inversion E; subst; apply bytes_eqb_eq, K|apply IH, E].
Qed.

Lemma slots_ok_find c k s : slots_ok c -> find_var k (vars c) = Some s -> slot_ok (length (bufLC c)) s.
Proof. intros H E. unfold slots_ok in H. rewrite Forall_forall in H. apply H. eapply find_var_In, E. Qed.

Lemma abs_entry_static n lc s : slot_ok n s -> en_static (abs_entry lc s) = s_static s.
Proof.
  intros [H _]. unfold abs_entry.
  destruct (is_nil (s_val s)); cbn [andb] in *; [|reflexivity].
  destruct (nonempty (s_buf s)); cbn [orb] in *; [symmetry; apply H; reflexivity|].
  destruct (s_cntrF s); [symmetry; apply H; reflexivity|reflexivity].
Qed.

(* the value a found variable hands out is one the invariant covers *)
Lemma var_value_ok n s rest : slot_ok n s -> val_ok n (var_value s rest).
Proof.
  intros [_ H]. unfold var_value.
  destruct (is_nil (s_val s) && nonempty (s_buf s)); [left; apply cell_free_bytes|].
  destruct (is_nil (s_val s) && s_cntrF s); [left; apply cell_free_int|].
  destruct (s_static s); [exact H|].
  destruct H as [H|(i&E&Hi)]; [left; apply cell_free_ins_get, H|].
  rewrite E. destruct rest; [right; exists i; split; [reflexivity|exact Hi]|left; apply cell_free_nil].
Qed.

(* ------------------------------------------------------------------ signals *)

Definition is_ctl (x : err) : bool :=
  match x with EBreak | ELBreak | ECont | EInterrupt => true | _ => false end.

(* how a reference signal shows in the interpreter's error result *)
Definition sig_rel (s : sig) (eo : option err) : Prop :=
  match s with
  | SNone => eo = None
  | SBrk => eo = Some EBreak
  | SLazy => eo = Some ELBreak
  | SCont => eo = Some ECont
  | SExit => eo = Some EInterrupt
  | SErr x => eo = Some x
  | SNA => False
  end.

(* the domain of the refinement statement: the reference semantics is defined, and it does not
   report a control instruction as an error.  (The reference semantics itself no longer does
   that -- a control instruction in a for-else branch is handed on to the enclosing loops as the
   signal it is --, so the second clause now only concerns what an include renderer may claim.) *)
Definition sig_dom (s : sig) : Prop :=
  match s with SNA => False | SErr x => is_ctl x = false | _ => True end.

(* what is claimed about the final context: its abstraction is the reference store, and the
   invariant holds again *)
Definition post (L : list (nat * bytes)) (s : sig) (c' : ctx) (e' : env) : Prop :=
  abs c' = e' /\ Inv L c'.

Lemma post_intro L s c' e' : abs c' = e' -> Inv L c' -> post L s c' e'.
Proof. intros A I'. split; assumption. Qed.

Ltac splits := repeat match goal with
                      | |- _ /\ _ => split
                      | |- post _ _ _ _ => first [assumption | progress unfold post]
                      end.

(* ------------------------------------------------------------------ induction over ast *)

Section AstInd.
  Variable P : ast -> Prop.
  Hypothesis HText : forall t, P (AText t).
  Hypothesis HComment : forall t, P (AComment t).
  Hypothesis HPrint : forall l p m pf sf r, P (APrint l p m pf sf r).
  Hypothesis HTernary : forall c p1 p2, P (ATernary c p1 p2).
  Hypothesis HIf : forall c th el he, Forall P th -> Forall P el -> P (AIf c th el he).
  Hypothesis HIfOK : forall v okv arg al ng th el he, Forall P th -> Forall P el -> P (AIfOK v okv arg al ng th el he).
  Hypothesis HSwitch : forall arg cases dflt hd, Forall P cases -> Forall P dflt -> P (ASwitch arg cases dflt hd).
  Hypothesis HCase : forall c body, Forall P body -> P (ACase c body).
  Hypothesis HCLoop : forall var init lim il ll cop step sep body els he,
    Forall P body -> Forall P els -> P (ACLoop var init lim il ll cop step sep body els he).
  Hypothesis HRLoop : forall key val src sep body els he,
    Forall P body -> Forall P els -> P (ARLoop key val src sep body els he).
  Hypothesis HBreak : forall lz n hc c, P (ABreak lz n hc c).
  Hypothesis HContinue : forall hc c, P (AContinue hc c).
  Hypothesis HCtx : forall var src ok lit mods, P (ACtx var src ok lit mods).
  Hypothesis HCounter : forall var ii cop arg, P (ACounter var ii cop arg).
  Hypothesis HInclude : forall names, P (AInclude names).
  Hypothesis HExit : P AExit.
  Hypothesis HRegion : forall f body, Forall P body -> P (ARegion f body).

  Fixpoint ast_ind' (a : ast) : P a :=
    let fix go (l : list ast) : Forall P l :=
      match l with [] => Forall_nil P | x :: r => Forall_cons x (ast_ind' x) (go r) end in
    match a with
    | AText t => HText t
    | AComment t => HComment t
    | APrint l p m pf sf r => HPrint l p m pf sf r
    | ATernary c p1 p2 => HTernary c p1 p2
    | AIf c th el he => HIf c th el he (go th) (go el)
    | AIfOK v okv arg al ng th el he => HIfOK v okv arg al ng th el he (go th) (go el)
    | ASwitch arg cases dflt hd => HSwitch arg cases dflt hd (go cases) (go dflt)
    | ACase c body => HCase c body (go body)
    | ACLoop var init lim il ll cop step sep body els he => HCLoop var init lim il ll cop step sep body els he (go body) (go els)
    | ARLoop key val src sep body els he => HRLoop key val src sep body els he (go body) (go els)
    | ABreak lz n hc c => HBreak lz n hc c
    | AContinue hc c => HContinue hc c
    | ACtx var src ok lit mods => HCtx var src ok lit mods
    | ACounter var ii cop arg => HCounter var ii cop arg
    | AInclude names => HInclude names
    | AExit => HExit
    | ARegion f body => HRegion f body (go body)
    end.
End AstInd.
