From DT Require Import Model.Bytes Proofs.BytesFacts Model.ParserSkel Spec.Balanced.
Local Open Scope byte_scope.

(* ================================================================== *)
(* Part 1: the scan                                                    *)
(* ================================================================== *)

Lemma beqb_refl b : beqb b b = true.
Proof. apply byte_eqb_eq. reflexivity. Qed.

Lemma beqb_eq a b : beqb a b = true -> a = b.
Proof. apply byte_eqb_eq. Qed.

(* ---- find2 is bytes.Index for a two-byte separator ---- *)

Lemma find2_some a b : forall s p q,
  find2 a b s = Some (p, q) -> s = p ++ q /\ exists r, q = a :: b :: r.
Proof.
  induction s as [|c rest IH]; intros p q H; cbn [find2] in H; [discriminate|].
  destruct rest as [|d rest'].
  - cbn [find2] in H. discriminate.
  - destruct (beqb c a && beqb d b) eqn:Hc.
    + inversion H; subst p q. apply andb_true_iff in Hc. destruct Hc as [Hca Hdb].
      apply beqb_eq in Hca. apply beqb_eq in Hdb. subst c d.
      split; [reflexivity|]. exists rest'. reflexivity.
    + destruct (find2 a b (d :: rest')) as [[p' q']|] eqn:Hf; [|discriminate].
      inversion H; subst p q.
      destruct (IH p' q' eq_refl) as [Hs Hq].
      split; [cbn [app]; rewrite <- Hs; reflexivity | exact Hq].
Qed.

Lemma find2_cons2 a b c d rest :
  find2 a b (c :: d :: rest) =
  if beqb c a && beqb d b then Some ([], c :: d :: rest)
  else match find2 a b (d :: rest) with
       | Some (p, q) => Some (c :: p, q)
       | None => None
       end.
Proof. reflexivity. Qed.

Lemma find2_occurs a b s p q : find2 a b s = Some (p, q) -> occurs2 a b s.
Proof.
  intros H. apply find2_some in H. destruct H as [Hs [r Hq]]. subst q.
  exists p, r. exact Hs.
Qed.

Lemma find2_finds a b : forall p r, find2 a b (p ++ a :: b :: r) <> None.
Proof.
  induction p as [|c p IH]; intros r.
  - cbn [app]. rewrite find2_cons2, !beqb_refl. discriminate.
  - cbn [app]. specialize (IH r).
    destruct (p ++ a :: b :: r) as [|d l] eqn:Hp.
    + destruct p; discriminate.
    + rewrite find2_cons2. destruct (beqb c a && beqb d b); [discriminate|].
      destruct (find2 a b (d :: l)) as [[p' q']|]; [discriminate|exact IH].
Qed.

Lemma find2_none_not_occurs a b s : find2 a b s = None -> ~ occurs2 a b s.
Proof. intros H [p [r Hs]]. subst s. exact (find2_finds a b p r H). Qed.

Lemma find2_none_of_not_occurs a b s : ~ occurs2 a b s -> find2 a b s = None.
Proof.
  intros H. destruct (find2 a b s) as [[p q]|] eqn:Hf; [|reflexivity].
  exfalso. apply H. eapply find2_occurs. exact Hf.
Qed.

(* the split is at the FIRST occurrence: none starts inside the prefix *)
Lemma find2_first a b : forall s p q,
  find2 a b s = Some (p, q) -> ~ occurs2 a b (p ++ [a]).
Proof.
  induction s as [|c rest IH]; intros p q H; cbn [find2] in H; [discriminate|].
  destruct rest as [|d rest'].
  - cbn [find2] in H. discriminate.
  - destruct (beqb c a && beqb d b) eqn:Hc.
    + inversion H; subst p q. intros [x [r Hx]]. cbn [app] in Hx.
      destruct x as [|x0 [|x1 x]]; cbn [app] in Hx; inversion Hx.
    + destruct (find2 a b (d :: rest')) as [[p' q']|] eqn:Hf; [|discriminate].
      inversion H; subst p q.
      intros [x [r Hx]]. destruct x as [|x0 x]; cbn [app] in Hx.
      * (* an occurrence at the head would have been taken *)
        inversion Hx as [[Hca Hp']]. subst c.
        destruct (find2_some _ _ _ _ _ Hf) as [Hs [r' Hq']]. subst q'.
        assert (Hd : d = b).
        { destruct p' as [|y p'']; cbn [app] in Hs, Hp'.
          - inversion Hs. inversion Hp'. congruence.
          - inversion Hs. inversion Hp'. congruence. }
        subst d. rewrite !beqb_refl in Hc. discriminate.
      * inversion Hx as [[Hc0 Hp']]. apply (IH p' q' eq_refl). exists x, r. exact Hp'.
Qed.

Lemma find2_app_some a b x : forall s p q,
  find2 a b s = Some (p, q) -> find2 a b (s ++ x) = Some (p, q ++ x).
Proof.
  induction s as [|c rest IH]; intros p q H; cbn [find2] in H; [discriminate|].
  destruct rest as [|d rest'].
  - cbn [find2] in H. discriminate.
  - cbn [app]. cbn [app] in IH. rewrite find2_cons2.
    destruct (beqb c a && beqb d b) eqn:Hc.
    + inversion H; subst p q. reflexivity.
    + destruct (find2 a b (d :: rest')) as [[p' q']|] eqn:Hf; [|discriminate].
      inversion H; subst p q.
      rewrite (IH p' q' eq_refl). reflexivity.
Qed.

Lemma find2_none_app a b r : beqb a b = false -> forall s,
  find2 a b s = None -> find2 a b (s ++ a :: b :: r) = Some (s, a :: b :: r).
Proof.
  intros Hab. induction s as [|c rest IH]; intros H.
  - cbn [app find2]. rewrite !beqb_refl. reflexivity.
  - cbn [find2] in H. destruct rest as [|d rest'].
    + cbn [app find2]. rewrite Hab, andb_false_r, !beqb_refl. reflexivity.
    + cbn [app]. cbn [app] in IH. rewrite find2_cons2.
      destruct (beqb c a && beqb d b) eqn:Hc; [discriminate|].
      destruct (find2 a b (d :: rest')) as [[p' q']|] eqn:Hf; [discriminate|].
      rewrite (IH eq_refl). reflexivity.
Qed.

(* ---- one step ---- *)

Lemma scan_step_tag s raw t rest :
  scan_step s = StTag raw t rest ->
  s = raw ++ tok_text t ++ rest /\ (length rest + 3 <= length s)%nat
  /\ ~ occurs2 "{" "%" (raw ++ ["{"]).
Proof.
  unfold scan_step. intros H.
  destruct (find2 "{" "%" s) as [[raw' suf]|] eqn:Ho; [|discriminate].
  pose proof (find2_first _ _ _ _ _ Ho) as Hfirst.
  apply find2_some in Ho. destruct Ho as [Hs [r Hsuf]].
  destruct (find2 "%" "}" suf) as [[hd cl]|] eqn:Hc; [|discriminate].
  apply find2_some in Hc. destruct Hc as [Hs2 [r2 Hcl]].
  rewrite Hcl in H. cbn [skipn] in H. rewrite Hsuf, Hcl in Hs2.
  destruct hd as [|h0 [|h1 inner]]; cbn [app] in Hs2.
  - inversion Hs2.
  - injection H as <- <- <-. injection Hs2 as _ Hr.
    rewrite Hs, Hsuf, Hr.
    split; [reflexivity|]. split; [|exact Hfirst].
    rewrite app_length. cbn [length]. lia.
  - injection H as <- <- <-. injection Hs2 as _ _ Hr.
    rewrite Hs, Hsuf, Hr.
    split.
    + cbn [tok_text ctl_open ctl_close app]. rewrite <- app_assoc. reflexivity.
    + split; [|exact Hfirst].
      rewrite !app_length. cbn [length]. rewrite app_length. cbn [length]. lia.
Qed.

Lemma scan_step_end s raw : scan_step s = StEnd raw -> raw = s /\ ~ occurs2 "{" "%" s.
Proof.
  unfold scan_step. intros H.
  destruct (find2 "{" "%" s) as [[raw' suf]|] eqn:Ho.
  - destruct (find2 "%" "}" suf) as [[hd cl]|]; [|discriminate].
    destruct hd as [|h0 [|h1 inner]]; discriminate.
  - injection H as <-. split; [reflexivity|]. apply find2_none_not_occurs. exact Ho.
Qed.

Lemma scan_step_app s raw t rest x :
  scan_step s = StTag raw t rest -> scan_step (s ++ x) = StTag raw t (rest ++ x).
Proof.
  unfold scan_step. intros H.
  destruct (find2 "{" "%" s) as [[raw' suf]|] eqn:Ho; [|discriminate].
  rewrite (find2_app_some _ _ x _ _ _ Ho).
  destruct (find2 "%" "}" suf) as [[hd cl]|] eqn:Hc; [|discriminate].
  rewrite (find2_app_some _ _ x _ _ _ Hc).
  apply find2_some in Hc. destruct Hc as [_ [r2 Hcl]]. subst cl.
  cbn [skipn app] in *.
  destruct hd as [|h0 [|h1 inner]]; inversion H; reflexivity.
Qed.

Lemma scan_step_unterminated s raw rest :
  scan_step s = StEnd raw -> ~ occurs2 "%" "}" ("%" :: rest) ->
  scan_step (s ++ "{" :: "%" :: rest) = StEOF.
Proof.
  unfold scan_step. intros H Hno.
  destruct (find2 "{" "%" s) as [[raw' suf]|] eqn:Ho.
  - destruct (find2 "%" "}" suf) as [[hd cl]|]; [|discriminate].
    destruct hd as [|h0 [|h1 inner]]; discriminate.
  - rewrite (find2_none_app "{" "%" rest eq_refl s Ho).
    cbn [find2].
    replace (beqb "{" "%") with false by reflexivity. cbn [andb].
    pose proof (find2_none_of_not_occurs _ _ _ Hno) as Hn.
    cbn [find2] in Hn. rewrite Hn. reflexivity.
Qed.

(* ---- the fuelled scanner ---- *)

Lemma raw_tok_text raw : concat (map tok_text (raw_tok raw)) = raw.
Proof. destruct raw; cbn; [reflexivity|]. rewrite app_nil_r. reflexivity. Qed.

Theorem scan_partition : forall f s l,
  scan f s = ScanOk l -> concat (map tok_text l) = s.
Proof.
  induction f as [|f IH]; intros s l H; cbn [scan] in H; [discriminate|].
  destruct (scan_step s) as [raw| |raw t rest] eqn:Hst.
  - inversion H; subst l. apply scan_step_end in Hst. destruct Hst as [Hr _]. subst raw.
    apply raw_tok_text.
  - discriminate.
  - destruct (scan f rest) as [l'| |] eqn:Hr; try discriminate.
    inversion H; subst l.
    apply scan_step_tag in Hst. destruct Hst as [Hs _].
    rewrite map_app, concat_app, raw_tok_text. cbn [map concat].
    rewrite (IH rest l' Hr). symmetry. exact Hs.
Qed.

Theorem tokens_partition : forall src toks,
  tokens src = Some toks -> concat (map tok_text toks) = src.
Proof.
  unfold tokens. intros src toks H.
  destruct (scan (S (length src)) src) as [l| |] eqn:Hs; try discriminate.
  inversion H; subst l. eapply scan_partition. exact Hs.
Qed.

Theorem scan_fuel : forall f s, (length s < f)%nat -> scan f s <> ScanFuel.
Proof.
  induction f as [|f IH]; intros s Hlen; [lia|]. cbn [scan].
  destruct (scan_step s) as [raw| |raw t rest] eqn:Hst; try discriminate.
  apply scan_step_tag in Hst. destruct Hst as [_ [Hl _]].
  pose proof (IH rest ltac:(lia)) as Hr.
  destruct (scan f rest); try discriminate. exact Hr.
Qed.

(* more fuel than needed changes nothing *)
Theorem scan_fuel_irrelevant : forall f1 f2 s,
  (length s < f1)%nat -> (length s < f2)%nat -> scan f1 s = scan f2 s.
Proof.
  induction f1 as [|f1 IH]; intros f2 s H1 H2; [lia|].
  destruct f2 as [|f2]; [lia|]. cbn [scan].
  destruct (scan_step s) as [raw| |raw t rest] eqn:Hst; try reflexivity.
  apply scan_step_tag in Hst. destruct Hst as [_ [Hl _]].
  rewrite (IH f2 rest); [reflexivity|lia|lia].
Qed.

Theorem tokens_total : forall src,
  scan (S (length src)) src <> ScanFuel /\
  (tokens src = None <-> scan (S (length src)) src = ScanEOF).
Proof.
  intros src. pose proof (scan_fuel (S (length src)) src ltac:(lia)) as Hf.
  split; [exact Hf|]. unfold tokens.
  destruct (scan (S (length src)) src); split; intros H; try reflexivity; try discriminate.
  congruence.
Qed.

Lemma scan_unterminated rest :
  ~ occurs2 "%" "}" ("%" :: rest) ->
  forall f pre toks, scan f pre = ScanOk toks ->
  forall f', (length (pre ++ "{" :: "%" :: rest) < f')%nat ->
  scan f' (pre ++ "{" :: "%" :: rest) = ScanEOF.
Proof.
  intros Hno. induction f as [|f IH]; intros pre toks H f' Hlen; cbn [scan] in H; [discriminate|].
  destruct f' as [|f']; [lia|]. cbn [scan].
  destruct (scan_step pre) as [raw| |raw t r] eqn:Hst.
  - rewrite (scan_step_unterminated _ _ _ Hst Hno). reflexivity.
  - discriminate.
  - destruct (scan f r) as [l| |] eqn:Hr; try discriminate.
    rewrite (scan_step_app _ _ _ _ _ Hst).
    apply scan_step_tag in Hst. destruct Hst as [_ [Hl _]].
    rewrite (IH r l Hr f'); [reflexivity|].
    rewrite app_length in *. lia.
Qed.

Theorem tokens_unterminated : forall pre toks rest,
  tokens pre = Some toks ->
  ~ occurs2 "%" "}" ("%" :: rest) ->
  tokens (pre ++ "{" :: "%" :: rest) = None.
Proof.
  intros pre toks rest Hp Hno. unfold tokens in *.
  destruct (scan (S (length pre)) pre) as [l| |] eqn:Hs; try discriminate.
  rewrite (scan_unterminated rest Hno _ _ _ Hs); [reflexivity|lia].
Qed.

Lemma occurs2_app_l a b s x : occurs2 a b s -> occurs2 a b (s ++ x).
Proof. intros [p [r H]]. subst s. exists p, (r ++ x). rewrite <- app_assoc. reflexivity. Qed.

Lemma raw_tok_wf raw : ~ occurs2 "{" "%" raw -> Forall tok_wf (raw_tok raw).
Proof.
  intros H. destruct raw as [|c raw]; cbn [raw_tok]; constructor; [|constructor].
  split; [discriminate|exact H].
Qed.

Lemma scan_step_tag_wf s raw t rest : scan_step s = StTag raw t rest -> tok_wf t.
Proof.
  unfold scan_step. intros H.
  destruct (find2 "{" "%" s) as [[raw' suf]|] eqn:Ho; [|discriminate].
  apply find2_some in Ho. destruct Ho as [Hs [r Hsuf]].
  destruct (find2 "%" "}" suf) as [[hd cl]|] eqn:Hc; [|discriminate].
  pose proof (find2_first _ _ _ _ _ Hc) as Hfirst.
  apply find2_some in Hc. destruct Hc as [Hs2 [r2 Hcl]].
  subst cl. rewrite Hsuf in Hs2.
  destruct hd as [|h0 [|h1 inner]]; cbn [app] in Hs2.
  - inversion Hs2.
  - inversion H; subst. exact I.
  - inversion Hs2; subst. inversion H; subst. cbn [tok_wf]. exact Hfirst.
Qed.

Theorem scan_wf : forall f s l, scan f s = ScanOk l -> Forall tok_wf l.
Proof.
  induction f as [|f IH]; intros s l H; cbn [scan] in H; [discriminate|].
  destruct (scan_step s) as [raw| |raw t rest] eqn:Hst.
  - inversion H; subst l. apply scan_step_end in Hst. destruct Hst as [Hr Hno]. subst raw.
    apply raw_tok_wf. exact Hno.
  - discriminate.
  - destruct (scan f rest) as [l'| |] eqn:Hr; try discriminate.
    inversion H; subst l.
    pose proof (scan_step_tag_wf _ _ _ _ Hst) as Hwf.
    apply scan_step_tag in Hst. destruct Hst as [_ [_ Hno]].
    apply Forall_app. split.
    + apply raw_tok_wf. intros Hocc. apply Hno. apply occurs2_app_l. exact Hocc.
    + constructor; [exact Hwf|]. eapply IH. exact Hr.
Qed.

Theorem tokens_wf : forall src toks, tokens src = Some toks -> Forall tok_wf toks.
Proof.
  unfold tokens. intros src toks H.
  destruct (scan (S (length src)) src) as [l| |] eqn:Hs; try discriminate.
  inversion H; subst l. eapply scan_wf. exact Hs.
Qed.

(* ================================================================== *)
(* Part 2: nesting                                                     *)
(* ================================================================== *)

Definition bump (k : bracket) (p : target) : target :=
  match k with BIf => inc_cc p | BFor => inc_cl p | BSwitch => inc_cs p end.

Ltac zb :=
  repeat match goal with
  | |- context [(?x =? ?y)%Z] => destruct (Z.eqb_spec x y)
  end; cbn [andb negb orb]; try reflexivity; try lia.

Ltac unf :=
  unfold reached, bump, dec_cc, inc_cc, dec_cl, inc_cl, dec_cs, inc_cs; cbn [cc cl cs].

Lemma reached_refl t : reached t t = true.
Proof. unfold reached. rewrite !Z.eqb_refl. reflexivity. Qed.

Lemma reached_bump k t : reached t (bump k t) = false.
Proof. destruct t as [a b c]; destruct k; unf; zb. Qed.

Lemma target_eq a b c a' b' c' : a = a' -> b = b' -> c = c' -> mkT a b c = mkT a' b' c'.
Proof. intros; subst; reflexivity. Qed.

Lemma dec_cc_bump k t : reached t (dec_cc (bump k t)) = match k with BIf => true | _ => false end
                        /\ dec_cc (bump BIf t) = t.
Proof.
  split.
  - destruct t as [a b c]; destruct k; unf; zb.
  - destruct t as [a b c]; unf. apply target_eq; lia.
Qed.

Lemma dec_cl_bump k t : reached t (dec_cl (bump k t)) = match k with BFor => true | _ => false end
                        /\ dec_cl (bump BFor t) = t.
Proof.
  split.
  - destruct t as [a b c]; destruct k; unf; zb.
  - destruct t as [a b c]; unf. apply target_eq; lia.
Qed.

Lemma dec_cs_bump k t : reached t (dec_cs (bump k t)) = match k with BSwitch => true | _ => false end
                        /\ dec_cs (bump BSwitch t) = t.
Proof.
  split.
  - destruct t as [a b c]; destruct k; unf; zb.
  - destruct t as [a b c]; unf. apply target_eq; lia.
Qed.

(* ---- totality: the fuel suffices from any state ---- *)

Theorem parse_tpl_total : forall f t p inp, (length inp < f)%nat ->
  exists err p' rest, parse_tpl f t p inp = Some (err, p', rest)
                      /\ (length rest <= length inp)%nat.
Proof.
  induction f as [|f IH]; intros t p inp Hlen; [lia|].
  cbn [parse_tpl]. unfold finish.
  destruct (negb (reached t p) || eq_zero t).
  2:{ eexists _, _, _. split; [reflexivity|lia]. }
  destruct inp as [|tg rest0].
  { eexists _, _, _. split; [reflexivity|lia]. }
  cbn [length] in Hlen.
  assert (Hleaf : forall (p' : target) (up err : bool),
    exists err' p'' rest',
      (if err then Some (true || negb (reached t p'), p', rest0)
       else if up then Some (false || negb (reached t p'), p', rest0)
       else parse_tpl f t p' rest0) = Some (err', p'', rest')
      /\ (length rest' <= length (tg :: rest0))%nat).
  { intros p' up err. destruct err; [eexists _, _, _; split; [reflexivity|cbn [length]; lia]|].
    destruct up; [eexists _, _, _; split; [reflexivity|cbn [length]; lia]|].
    destruct (IH t p' rest0 ltac:(lia)) as [e [q [r [Hr Hl]]]].
    exists e, q, r. split; [exact Hr|cbn [length]; lia]. }
  assert (Hopen : forall p1,
    exists err' p'' rest',
      match
        match parse_tpl f p p1 rest0 with
        | Some (err, p2, rest') => Some (p2, rest', false, err)
        | None => None
        end
      with
      | None => None
      | Some (p', rest', up, err) =>
        if err then Some (true || negb (reached t p'), p', rest')
        else if up then Some (false || negb (reached t p'), p', rest')
        else parse_tpl f t p' rest'
      end = Some (err', p'', rest')
      /\ (length rest' <= length (tg :: rest0))%nat).
  { intros p1.
    destruct (IH p p1 rest0 ltac:(lia)) as [e [q [r [Hr Hl]]]]. rewrite Hr.
    destruct e; [eexists _, _, _; split; [reflexivity|cbn [length]; lia]|].
    destruct (IH t q r ltac:(lia)) as [e2 [q2 [r2 [Hr2 Hl2]]]].
    exists e2, q2, r2. split; [exact Hr2|cbn [length]; lia]. }
  destruct tg; cbn [process_ctl];
    first [ apply Hopen | apply (Hleaf _ false false) | apply (Hleaf _ true false)
          | apply (Hleaf _ false true) ].
Qed.

Theorem parse_tpl_fuel : forall f t p inp, (length inp < f)%nat -> parse_tpl f t p inp <> None.
Proof.
  intros f t p inp H. destruct (parse_tpl_total f t p inp H) as [e [q [r [Hr _]]]].
  rewrite Hr. discriminate.
Qed.

(* ---- the invariant: inside a block of kind k opened at snapshot t the live
        counters are exactly t with counter k one higher ---- *)

Lemma nested_ok : forall f k t inp, (length inp < f)%nat ->
  exists err p' rest, parse_tpl f t (bump k t) inp = Some (err, p', rest)
    /\ (length rest <= length inp)%nat
    /\ (err = false -> p' = t)
    /\ forall st, bal (k :: st) inp = if err then false else bal st rest.
Proof.
  induction f as [|f IH]; intros k t inp Hlen; [lia|].
  cbn [parse_tpl]. rewrite reached_bump. cbn [negb orb]. unfold finish.
  destruct inp as [|tg rest0].
  { rewrite reached_bump. exists true, (bump k t), []. cbn [orb negb].
    split; [reflexivity|]. split; [lia|]. split; [discriminate|]. intros st. reflexivity. }
  cbn [length] in Hlen.
  (* a tag that leaves the counters alone: next iteration *)
  assert (Hneutral : forall st0 : unit,
    exists err p' rest,
      parse_tpl f t (bump k t) rest0 = Some (err, p', rest)
      /\ (length rest <= length (tg :: rest0))%nat
      /\ (err = false -> p' = t)
      /\ forall st, bal (k :: st) rest0 = if err then false else bal st rest).
  { intros _. destruct (IH k t rest0 ltac:(lia)) as [e [q [r [Hr [Hl [Hq Hb]]]]]].
    exists e, q, r. split; [exact Hr|]. split; [cbn [length]; lia|]. split; assumption. }
  (* an opener of kind j *)
  assert (Hopen : forall j,
    exists err p' rest,
      match
        match parse_tpl f (bump k t) (bump j (bump k t)) rest0 with
        | Some (err, p2, rest') => Some (p2, rest', false, err)
        | None => None
        end
      with
      | None => None
      | Some (p', rest', up, err) =>
        if err then Some (true || negb (reached t p'), p', rest')
        else if up then Some (false || negb (reached t p'), p', rest')
        else parse_tpl f t p' rest'
      end = Some (err, p', rest)
      /\ (length rest <= length (tg :: rest0))%nat
      /\ (err = false -> p' = t)
      /\ forall st, bal (j :: k :: st) rest0 = if err then false else bal st rest).
  { intros j.
    destruct (IH j (bump k t) rest0 ltac:(lia)) as [e [q [r [Hr [Hl [Hq Hb]]]]]].
    rewrite Hr. destruct e.
    - exists true, q, r. split; [reflexivity|]. split; [cbn [length]; lia|].
      split; [discriminate|]. intros st. apply Hb.
    - rewrite (Hq eq_refl).
      destruct (IH k t r ltac:(lia)) as [e2 [q2 [r2 [Hr2 [Hl2 [Hq2 Hb2]]]]]].
      exists e2, q2, r2. split; [exact Hr2|]. split; [cbn [length]; lia|].
      split; [exact Hq2|]. intros st. rewrite Hb. apply Hb2. }
  destruct tg; cbn [process_ctl bal].
  - (* OpenIf *) exact (Hopen BIf).
  - (* ElseT *) exact (Hneutral tt).
  - (* EndIf *)
    destruct (dec_cc_bump k t) as [Hreach Hback]. rewrite Hreach.
    destruct k; cbn [orb negb].
    + rewrite Hback. exists false, t, rest0. split; [reflexivity|]. split; [cbn [length]; lia|].
      split; [reflexivity|]. intros st; reflexivity.
    + eexists true, _, rest0. split; [reflexivity|]. split; [cbn [length]; lia|].
      split; [discriminate|]. intros st; reflexivity.
    + eexists true, _, rest0. split; [reflexivity|]. split; [cbn [length]; lia|].
      split; [discriminate|]. intros st; reflexivity.
  - (* OpenFor *) exact (Hopen BFor).
  - (* EndFor *)
    destruct (dec_cl_bump k t) as [Hreach Hback]. rewrite Hreach.
    destruct k; cbn [orb negb].
    + eexists true, _, rest0. split; [reflexivity|]. split; [cbn [length]; lia|].
      split; [discriminate|]. intros st; reflexivity.
    + rewrite Hback. exists false, t, rest0. split; [reflexivity|]. split; [cbn [length]; lia|].
      split; [reflexivity|]. intros st; reflexivity.
    + eexists true, _, rest0. split; [reflexivity|]. split; [cbn [length]; lia|].
      split; [discriminate|]. intros st; reflexivity.
  - (* OpenSwitch *) exact (Hopen BSwitch).
  - (* CaseT *) exact (Hneutral tt).
  - (* DefaultT *) exact (Hneutral tt).
  - (* EndSwitch *)
    destruct (dec_cs_bump k t) as [Hreach Hback]. rewrite Hreach.
    destruct k; cbn [orb negb].
    + eexists true, _, rest0. split; [reflexivity|]. split; [cbn [length]; lia|].
      split; [discriminate|]. intros st; reflexivity.
    + eexists true, _, rest0. split; [reflexivity|]. split; [cbn [length]; lia|].
      split; [discriminate|]. intros st; reflexivity.
    + rewrite Hback. exists false, t, rest0. split; [reflexivity|]. split; [cbn [length]; lia|].
      split; [reflexivity|]. intros st; reflexivity.
  - (* Leaf *) exact (Hneutral tt).
  - (* Bad *)
    eexists true, _, rest0. split; [reflexivity|]. split; [cbn [length]; lia|].
    split; [discriminate|]. intros st; reflexivity.
Qed.

(* ---- top level: snapshot and counters all zero ---- *)

Lemma top_ok : forall f inp, (length inp < f)%nat ->
  exists p' rest, parse_tpl f zero_target zero_target inp = Some (negb (bal [] inp), p', rest).
Proof.
  induction f as [|f IH]; intros inp Hlen; [lia|].
  cbn [parse_tpl]. rewrite reached_refl.
  replace (eq_zero zero_target) with true by reflexivity. cbn [negb orb]. unfold finish.
  destruct inp as [|tg rest0].
  { rewrite reached_refl. eexists _, _. reflexivity. }
  cbn [length] in Hlen.
  assert (Hopen : forall j,
    exists p' rest,
      match
        match parse_tpl f zero_target (bump j zero_target) rest0 with
        | Some (err, p2, rest') => Some (p2, rest', false, err)
        | None => None
        end
      with
      | None => None
      | Some (p', rest', up, err) =>
        if err then Some (true || negb (reached zero_target p'), p', rest')
        else if up then Some (false || negb (reached zero_target p'), p', rest')
        else parse_tpl f zero_target p' rest'
      end = Some (negb (bal [j] rest0), p', rest)).
  { intros j.
    destruct (nested_ok f j zero_target rest0 ltac:(lia)) as [e [q [r [Hr [Hl [Hq Hb]]]]]].
    rewrite Hr. rewrite (Hb []). destruct e.
    - eexists _, _. reflexivity.
    - rewrite (Hq eq_refl). apply IH. lia. }
  destruct tg; cbn [process_ctl bal];
    try (apply IH; lia);
    try (eexists _, _; reflexivity).
  - exact (Hopen BIf).
  - exact (Hopen BFor).
  - exact (Hopen BSwitch).
Qed.

Theorem nesting : forall sk, parse_skel sk = true <-> balanced sk = true.
Proof.
  intros sk. unfold parse_skel, balanced.
  destruct (top_ok (S (length sk)) sk ltac:(lia)) as [p' [rest H]]. rewrite H.
  rewrite negb_involutive. reflexivity.
Qed.

Theorem parse_skel_fuel : forall sk,
  parse_tpl (S (length sk)) zero_target zero_target sk <> None.
Proof. intros sk. apply parse_tpl_fuel. lia. Qed.

(* ---- the stack checker and the grammar define the same language ---- *)

Definition closer (k : bracket) : tag :=
  match k with BIf => EndIf | BFor => EndFor | BSwitch => EndSwitch end.

Lemma bal_Balanced_app : forall b, Balanced b -> forall st w, bal st (b ++ w) = bal st w.
Proof.
  induction 1 as [|n b Hn Hb IH|b w' Hb IHb Hw IHw|b w' Hb IHb Hw IHw|b w' Hb IHb Hw IHw];
    intros st w.
  - reflexivity.
  - cbn [app]. destruct n; try discriminate; cbn [bal]; apply IH.
  - cbn [app bal]. rewrite <- app_assoc. rewrite IHb. cbn [app bal]. apply IHw.
  - cbn [app bal]. rewrite <- app_assoc. rewrite IHb. cbn [app bal]. apply IHw.
  - cbn [app bal]. rewrite <- app_assoc. rewrite IHb. cbn [app bal]. apply IHw.
Qed.

Lemma Balanced_app : forall a, Balanced a -> forall b, Balanced b -> Balanced (a ++ b).
Proof.
  induction 1 as [|n a Hn Ha IH|a w Ha IHa Hw IHw|a w Ha IHa Hw IHw|a w Ha IHa Hw IHw]; intros b Hb.
  - exact Hb.
  - cbn [app]. constructor; [exact Hn|]. apply IH. exact Hb.
  - cbn [app]. rewrite <- app_assoc. cbn [app]. apply BalIf; [exact Ha|]. apply IHw. exact Hb.
  - cbn [app]. rewrite <- app_assoc. cbn [app]. apply BalFor; [exact Ha|]. apply IHw. exact Hb.
  - cbn [app]. rewrite <- app_assoc. cbn [app]. apply BalSwitch; [exact Ha|]. apply IHw. exact Hb.
Qed.

(* what a successful run with a non-empty stack looks like *)
Definition unwinds (st : list bracket) (w : list tag) : Prop :=
  match st with
  | [] => Balanced w
  | k :: st' => exists b w', w = b ++ closer k :: w' /\ Balanced b /\ bal st' w' = true
                             /\ (length w' < length w)%nat
  end.

Lemma bal_unwinds : forall n w st, (length w <= n)%nat -> bal st w = true -> unwinds st w.
Proof.
  induction n as [|n IH]; intros w st Hlen H.
  { destruct w; [|cbn [length] in Hlen; lia]. destruct st; [constructor|discriminate]. }
  destruct w as [|tg w].
  { destruct st; [constructor|discriminate]. }
  cbn [length] in Hlen.
  assert (Hneutral : neutral tg = true -> bal st w = true -> unwinds st (tg :: w)).
  { intros Hn Hb. pose proof (IH w st ltac:(lia) Hb) as Hu. destruct st as [|k st'].
    - cbn [unwinds] in *. constructor; assumption.
    - cbn [unwinds] in *. destruct Hu as [b [w' [Hw [Hbb [Hb' Hl]]]]].
      exists (tg :: b), w'. subst w. split; [reflexivity|]. split; [constructor; assumption|].
      split; [exact Hb'|cbn [length]; lia]. }
  assert (Hopen : forall j, bal (j :: st) w = true ->
            (forall b w', Balanced b -> Balanced w' -> Balanced (tg :: b ++ closer j :: w')) ->
            unwinds st (tg :: w)).
  { intros j Hb Hcons.
    pose proof (IH w (j :: st) ltac:(lia) Hb) as Hu. cbn [unwinds] in Hu.
    destruct Hu as [b [w' [Hw [Hbb [Hb' Hl]]]]].
    pose proof (IH w' st ltac:(lia) Hb') as Hu'. destruct st as [|k st'].
    - cbn [unwinds] in *. subst w. apply Hcons; assumption.
    - cbn [unwinds] in *. destruct Hu' as [b2 [w2 [Hw2 [Hbb2 [Hb2 Hl2]]]]].
      exists (tg :: b ++ closer j :: b2), w2. subst w w'.
      split; [cbn [app]; rewrite <- app_assoc; reflexivity|].
      split; [apply Hcons; assumption|]. split; [exact Hb2|].
      cbn [length]. rewrite !app_length. cbn [length]. rewrite app_length. cbn [length]. lia. }
  assert (Hclose : forall k st', st = k :: st' -> tg = closer k -> bal st' w = true ->
            unwinds st (tg :: w)).
  { intros k st' Hst Htg Hb. subst st tg. cbn [unwinds].
    exists [], w. split; [reflexivity|]. split; [constructor|]. split; [exact Hb|cbn [length]; lia]. }
  destruct tg; cbn [bal] in H.
  - apply (Hopen BIf H). intros; apply BalIf; assumption.
  - apply Hneutral; [reflexivity|exact H].
  - destruct st as [|[| |] st']; try discriminate. eapply (Hclose BIf); [reflexivity|reflexivity|exact H].
  - apply (Hopen BFor H). intros; apply BalFor; assumption.
  - destruct st as [|[| |] st']; try discriminate. eapply (Hclose BFor); [reflexivity|reflexivity|exact H].
  - apply (Hopen BSwitch H). intros; apply BalSwitch; assumption.
  - apply Hneutral; [reflexivity|exact H].
  - apply Hneutral; [reflexivity|exact H].
  - destruct st as [|[| |] st']; try discriminate. eapply (Hclose BSwitch); [reflexivity|reflexivity|exact H].
  - apply Hneutral; [reflexivity|exact H].
  - discriminate.
Qed.

Theorem balanced_iff_grammar : forall w, balanced w = true <-> Balanced w.
Proof.
  intros w. unfold balanced. split.
  - intros H. exact (bal_unwinds (length w) w [] (le_n _) H).
  - intros H. rewrite <- (app_nil_r w). rewrite (bal_Balanced_app w H). reflexivity.
Qed.

(* ================================================================== *)
(* Both layers                                                         *)
(* ================================================================== *)

Theorem parse_ok_spec : forall classify src,
  parse_ok classify src = true <->
  exists toks, tokens src = Some toks
               /\ concat (map tok_text toks) = src
               /\ balanced (ctl_tags classify toks) = true.
Proof.
  intros classify src. unfold parse_ok. split.
  - destruct (tokens src) as [toks|] eqn:Ht; [|discriminate].
    intros H. exists toks. split; [reflexivity|]. split; [apply tokens_partition; exact Ht|].
    apply nesting. exact H.
  - intros [toks [Ht [_ Hb]]]. rewrite Ht. apply nesting. exact Hb.
Qed.

(* ---- brute-force cross-check kept in the build: all 16 105 words of length <= 4
        over the full alphabet (the development was checked up to length 6 and, over
        the 7-letter alphabet without neutral duplicates and Bad, up to length 7) ---- *)
Definition all_tags : list tag :=
  [OpenIf; ElseT; EndIf; OpenFor; EndFor; OpenSwitch; CaseT; DefaultT; EndSwitch; Leaf; Bad].

Fixpoint words (n : nat) : list (list tag) :=
  match n with
  | O => [[]]
  | S m => flat_map (fun w => map (fun a => a :: w) all_tags) (words m)
  end.

Lemma brute_force_4 :
  forallb (fun n => forallb (fun w => Bool.eqb (parse_skel w) (balanced w)) (words n))
          [0; 1; 2; 3; 4]%nat = true.
Proof. vm_compute. reflexivity. Qed.
