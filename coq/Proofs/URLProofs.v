From DT Require Import Model.Bytes Proofs.BytesFacts Model.EscURL Spec.DecURL.
Local Open Scope byte_scope.

(* ---- closed per-byte sweeps ---- *)
Lemma sweep_unreserved_plain :
  forall b, (if url_unreserved b then negb (beqb b "%") && negb (beqb b "+") else true) = true.
Proof. apply byte_forall. vm_compute. reflexivity. Qed.

Lemma sweep_hex_roundtrip :
  forall b,
    match hex_val (hex_up_digit (N.shiftr (b2n b) 4)), hex_val (hex_up_digit (N.land (b2n b) 15)) with
    | Some x, Some y => beqb (n2b (16 * x + y)) b
    | _, _ => false
    end = true.
Proof. apply byte_forall. vm_compute. reflexivity. Qed.

Lemma sweep_hex_is_up :
  forall b, is_up_hex (hex_up_digit (N.shiftr (b2n b) 4)) && is_up_hex (hex_up_digit (N.land (b2n b) 15)) = true.
Proof. apply byte_forall. vm_compute. reflexivity. Qed.

Lemma sweep_unreserved_safe :
  forall b, (if url_unreserved b then url_safe_char b && negb (beqb b "%") else true) = true.
Proof. apply byte_forall. vm_compute. reflexivity. Qed.

Lemma sweep_space : forall b, (if beqb b " " then url_unreserved b else false) = false.
Proof. intros b. pose proof (byte_forall (fun b => negb (if beqb b " " then url_unreserved b else false)) eq_refl b) as H.
  apply negb_true_iff in H. exact H. Qed.

Lemma beqb_true a b : beqb a b = true -> a = b.
Proof. apply byte_eqb_eq. Qed.

(* ---- token lemmas (by token shape, the tail stays symbolic) ---- *)
Lemma unescape_tok b rest :
  query_unescape (url_tok b ++ rest) = option_map (cons b) (query_unescape rest).
Proof.
  unfold url_tok.
  destruct (url_unreserved b) eqn:Hu.
  - pose proof (sweep_unreserved_plain b) as H. rewrite Hu in H.
    apply andb_true_iff in H. destruct H as [H1 H2].
    apply negb_true_iff in H1. apply negb_true_iff in H2.
    cbn [app query_unescape]. rewrite H1, H2. reflexivity.
  - destruct (beqb b " ") eqn:Hs.
    + apply beqb_true in Hs. subst b. reflexivity.
    + pose proof (sweep_hex_roundtrip b) as H.
      cbn [app query_unescape].
      replace (beqb "%" "%") with true by reflexivity.
      destruct (hex_val (hex_up_digit (N.shiftr (b2n b) 4))) as [x|]; [|discriminate].
      destruct (hex_val (hex_up_digit (N.land (b2n b) 15))) as [y|]; [|discriminate].
      apply beqb_true in H. rewrite H. reflexivity.
Qed.

Theorem url_roundtrip : forall s, query_unescape (url_encode s) = Some s.
Proof.
  induction s as [|b s IH]; [reflexivity|].
  unfold url_encode in *. cbn [flat_map]. rewrite unescape_tok, IH. reflexivity.
Qed.

Lemma alphabet_tok b rest :
  url_alphabet (url_tok b ++ rest) = url_alphabet rest.
Proof.
  unfold url_tok.
  destruct (url_unreserved b) eqn:Hu.
  - pose proof (sweep_unreserved_safe b) as H. rewrite Hu in H.
    apply andb_true_iff in H. destruct H as [H1 H2]. apply negb_true_iff in H2.
    cbn [app url_alphabet]. rewrite H2, H1. reflexivity.
  - destruct (beqb b " ") eqn:Hs.
    + reflexivity.
    + pose proof (sweep_hex_is_up b) as H. apply andb_true_iff in H. destruct H as [H1 H2].
      cbn [app url_alphabet]. replace (beqb "%" "%") with true by reflexivity.
      rewrite H1, H2. reflexivity.
Qed.

Theorem url_alphabet_ok : forall s, url_alphabet (url_encode s) = true.
Proof.
  induction s as [|b s IH]; [reflexivity|].
  unfold url_encode in *. cbn [flat_map]. rewrite alphabet_tok. exact IH.
Qed.

(* iteration: n letters = n-fold application; every stage satisfies both theorems *)
Lemma repeat_app_S {A} (f : A -> A) n x : repeat_app f (S n) x = f (repeat_app f n x).
Proof. revert x; induction n as [|n IH]; intros x; [reflexivity|]. cbn [repeat_app] in *. rewrite <- IH. reflexivity. Qed.

Lemma repeat_app_iter {A} (f : A -> A) n x : repeat_app f n x = Nat.iter n f x.
Proof. induction n as [|n IH]; [reflexivity|]. rewrite repeat_app_S, IH. reflexivity. Qed.

Fixpoint unescape_n (n : nat) (s : bytes) : option bytes :=
  match n with
  | O => Some s
  | S k => match query_unescape s with Some s' => unescape_n k s' | None => None end
  end.

Theorem url_iter_roundtrip : forall n s, unescape_n n (repeat_app url_encode n s) = Some s.
Proof.
  induction n as [|n IH]; intros s; [reflexivity|].
  rewrite repeat_app_S. cbn [unescape_n]. rewrite url_roundtrip. apply IH.
Qed.

Theorem url_iter_alphabet : forall n s, url_alphabet (repeat_app url_encode (S n) s) = true.
Proof. intros. rewrite repeat_app_S. apply url_alphabet_ok. Qed.

Lemma url_encode_nil_inv s : url_encode s = [] -> s = [].
Proof.
  destruct s as [|b s]; [reflexivity|]. unfold url_encode; cbn [flat_map]. unfold url_tok.
  destruct (url_unreserved b); [discriminate|]. destruct (beqb b " "); discriminate.
Qed.

(* the modifier as rendered: *)
Theorem mod_url_roundtrip : forall itr s, (0 <= itr)%Z ->
  unescape_n (Z.to_nat itr) (mod_url_encode itr s) = Some s.
Proof.
  intros itr s _. unfold mod_url_encode, esc_iter. destruct s as [|b s].
  - generalize (Z.to_nat itr) as n. induction n as [|n IH]; [reflexivity|]. cbn. exact IH.
  - apply url_iter_roundtrip.
Qed.

(* agreement with the RFC 3986 unreserved set except at '~' *)
Theorem url_unreserved_vs_rfc :
  forall b, url_unreserved b = rfc3986_unreserved b && negb (beqb b "~").
Proof.
  intros b.
  pose proof (byte_forall (fun b => Bool.eqb (url_unreserved b) (rfc3986_unreserved b && negb (beqb b "~"))) eq_refl b) as H.
  apply Bool.eqb_prop in H. exact H.
Qed.

(* link escape *)
Lemma link_tok_safe b pb rest :
  link_safe pb (link_tok b ++ rest) =
  link_safe (if beqb b """" then false else if beqb b " " then false else beqb b "\") rest.
Proof.
  unfold link_tok. destruct (beqb b """") eqn:Hq.
  - cbn. reflexivity.
  - destruct (beqb b " ") eqn:Hs.
    + cbn. reflexivity.
    + cbn [app link_safe]. rewrite Hs, Hq. cbn. reflexivity.
Qed.

Theorem link_escape_safe : forall s pb, link_safe pb (link_escape s) = true.
Proof.
  induction s as [|b s IH]; intros pb; [reflexivity|].
  unfold link_escape in *. cbn [flat_map]. rewrite link_tok_safe. apply IH.
Qed.
