(* Fuel is only a termination device: the loop budget, the include depth (and the fuel of the
   comment scanner, PreprocProofs) never change a result, they can only turn "out of fuel" into
   a result.
   Part 1: the interpreter is monotone in (budget, include renderer).
   Part 2: only counter loops and includes can run out of fuel.
   Part 3: a fuel bound for counter loops.
   Part 4: the reference semantics is monotone in the same sense; refinement at any larger budget. *)
From DT Require Import Model.Bytes Proofs.BytesFacts Model.Value Model.Tree Model.Mods Model.Interp
  Spec.Ast Spec.RefEval Spec.Compile Proofs.InterpFacts Proofs.FlatProofs Proofs.FaultProofs
  Proofs.RefineBase Proofs.RefineList Proofs.RefineNodes Proofs.RefineMain Proofs.RefineRender.
Local Open Scope Z_scope.

(* ================================================================== Part 1 *)

(* a result that is there stays; "out of fuel" / "unsupported" may become anything *)
Definition le_out (o1 o2 : outcome) : Prop :=
  match o1 with Out c w e => o2 = Out c w e | _ => True end.
Definition le_it (r1 r2 : iterres) : Prop :=
  match r1 with ItNext _ _ | ItStop _ _ | ItAbort _ _ _ => r2 = r1 | _ => True end.
Definition inc_le (inc inc' : tree -> ctx -> option (ctx * bytes * option err)) : Prop :=
  forall t c r, inc t c = Some r -> inc' t c = Some r.

Lemma le_out_refl o : le_out o o.
Proof. destruct o; reflexivity. Qed.
Lemma le_it_refl r : le_it r r.
Proof. destruct r; reflexivity. Qed.

(* both sides branch alike on the same scrutinee *)
Ltac same_brk :=
  repeat match goal with
         | |- le_out (match ?x with _ => _ end) (match ?x with _ => _ end) => destruct x
         | |- le_out (if ?x then _ else _) (if ?x then _ else _) => destruct x
         | |- le_out (let (_, _) := ?x in _) (let (_, _) := ?x in _) => destruct x
         end.

Section WalkLe.
  Variables f g : node -> ctx -> wr -> outcome.
  Definition NodeLe (n : node) : Prop := forall c w, le_out (f n c w) (g n c w).

  Lemma walk_le l : Forall NodeLe l -> forall c w lz, le_out (walk_with f l c w lz) (walk_with g l c w lz).
  Proof.
    induction 1 as [|ch r Hch Hr IH]; intros c w lz; cbn [walk_with]; [reflexivity|].
    specialize (Hch c w). destruct (f ch c w) as [c1 w1 e| |]; cbn [le_out] in Hch; [rewrite Hch|exact I|exact I].
    destruct e as [[]|]; try reflexivity; apply IH.
  Qed.

  Lemma body_le l : Forall NodeLe l -> forall c w lz, le_it (body_with f l c w lz) (body_with g l c w lz).
  Proof.
    induction 1 as [|ch r Hch Hr IH]; intros c w lz; cbn [body_with]; [apply le_it_refl|].
    specialize (Hch c w). destruct (f ch c w) as [c1 w1 e| |]; cbn [le_out] in Hch; [rewrite Hch|exact I|exact I].
    destruct e as [[]|]; try reflexivity; try apply IH. destruct lz; reflexivity.
  Qed.

  Lemma else_le l : Forall NodeLe l -> forall c w, le_out (else_with f l c w) (else_with g l c w).
  Proof.
    induction 1 as [|ch r Hch Hr IH]; intros c w; cbn [else_with]; [reflexivity|].
    specialize (Hch c w). destruct (f ch c w) as [c1 w1 e| |]; cbn [le_out] in Hch; [rewrite Hch|exact I|exact I].
    destruct e; [reflexivity|apply IH].
  Qed.

  Lemma default_le l : Forall NodeLe l -> forall c w, le_out (default_with f l c w) (default_with g l c w).
  Proof.
    induction 1 as [|ch r Hch Hr IH]; intros c w; cbn [default_with]; [reflexivity|].
    destruct ch; try apply IH. destruct k; try apply IH. apply Hch.
  Qed.

  Lemma cases_le hit chk all l : Forall NodeLe all -> Forall NodeLe l ->
    forall c w, le_out (cases_with f hit chk all l c w) (cases_with g hit chk all l c w).
  Proof.
    intros Hall. induction 1 as [|ch r Hch Hr IH]; intros c w; cbn [cases_with]; [apply default_le, Hall|].
    destruct ch; try apply IH. destruct k; try apply IH.
    destruct (hit ci c) as [[c1 h] e]. destruct e; [reflexivity|].
    destruct (if chk then cerr c1 else None); [reflexivity|]. destruct h; [apply Hch|apply IH].
  Qed.
End WalkLe.

Section LoopsLe.
  Variables bodyf bodyg : ctx -> wr -> iterres.
  Variables elsef elseg : ctx -> wr -> outcome.
  Hypothesis Hbody : forall c w, le_it (bodyf c w) (bodyg c w).
  Hypothesis Helse : forall c w, le_out (elsef c w) (elseg c w).

  Lemma cloop_finish_le he cnt idx saved c w trips :
    le_out (cloop_finish elsef he cnt idx saved c w trips) (cloop_finish elseg he cnt idx saved c w trips).
  Proof.
    unfold cloop_finish. destruct trips; [destruct he|]; try reflexivity.
    match goal with |- context [elsef ?c0 w] => pose proof (Helse c0 w) as E; destruct (elsef c0 w) end;
      cbn [le_out] in *; [rewrite E; reflexivity|exact I|exact I].
  Qed.

  (* more fuel for the loop itself, too *)
  Lemma cloop_iter_le he cnt sep condOp cntOp limv idx saved : forall fuel fuel' c w trips cur,
    (fuel <= fuel')%nat ->
    le_out (cloop_iter bodyf elsef he cnt sep condOp cntOp limv idx saved fuel c w trips cur)
           (cloop_iter bodyg elseg he cnt sep condOp cntOp limv idx saved fuel' c w trips cur).
  Proof.
    induction fuel as [|fuel IH]; intros fuel' c w trips cur Hle.
    - cbn [cloop_iter]. destruct (cloop_allows condOp cur limv) as [allow|] eqn:A.
      + destruct (allow && (brkD c =? 0)) eqn:B; [exact I|].
        destruct fuel'; cbn [cloop_iter]; rewrite A, B; apply cloop_finish_le.
      + destruct fuel'; cbn [cloop_iter]; rewrite A; apply cloop_finish_le.
    - destruct fuel' as [|fuel']; [lia|]. cbn [cloop_iter].
      destruct (cloop_allows condOp cur limv) as [allow|]; [|apply cloop_finish_le].
      destruct (allow && (brkD c =? 0)); [|apply cloop_finish_le].
      set (ca := ctx_set_static cnt (VCell idx) c).
      destruct (match trips, sep with
                | O, _ | _, [] => (w, None)
                | _, _ => let (w', ok) := wr_write w (region_text ca sep) in (w', if ok then None else Some EWriter)
                end) as [w1 sepe].
      destruct sepe; [reflexivity|].
      pose proof (Hbody (set_chQB true ca) w1) as B.
      destruct (bodyf (set_chQB true ca) w1) as [c' w'|c' w'|c' w' e| |]; cbn [le_it] in B; try exact I; rewrite B.
      + destruct (cloop_step cntOp idx _ cur) as [[c'' nxt]|]; [apply IH; lia|reflexivity].
      + destruct (cloop_step cntOp idx _ cur) as [[c'' nxt]|]; apply cloop_finish_le.
      + reflexivity.
  Qed.

  Lemma rloop_finish_le he saved c w calls :
    le_out (rloop_finish elsef he saved c w calls) (rloop_finish elseg he saved c w calls).
  Proof.
    unfold rloop_finish. destruct calls; [destruct he|]; try reflexivity.
    match goal with |- context [elsef ?c0 w] => pose proof (Helse c0 w) as E; destruct (elsef c0 w) end;
      cbn [le_out] in *; [rewrite E; reflexivity|exact I|exact I].
  Qed.

  Lemma rloop_each_le he key val sep saved els : forall c w calls trips,
    le_out (rloop_each bodyf elsef he key val sep saved els c w calls trips)
           (rloop_each bodyg elseg he key val sep saved els c w calls trips).
  Proof.
    induction els as [|[kb ev] r IH]; intros c w calls trips; cbn [rloop_each]; [apply rloop_finish_le|].
    match goal with |- context [0 <? brkD ?c0] => set (cc := c0) end.
    destruct (0 <? brkD cc); [apply rloop_finish_le|].
    destruct (match trips, sep with
              | O, _ | _, [] => (w, None)
              | _, _ => let (w', ok) := wr_write w (region_text cc sep) in (w', if ok then None else Some EWriter)
              end) as [w1 sepe].
    destruct sepe; [reflexivity|].
    pose proof (Hbody cc w1) as B. destruct (bodyf cc w1) as [c' w'|c' w'|c' w' e| |]; cbn [le_it] in B; try exact I; rewrite B.
    - apply IH.
    - apply rloop_finish_le.
    - reflexivity.
  Qed.
End LoopsLe.

Section NodeLeSec.
  Variable flits : list (bytes * Z).
  Variable lookup : list bytes -> option tree.
  Variables b b' : nat.
  Variables inc inc' : tree -> ctx -> option (ctx * bytes * option err).
  Hypothesis Hb : (b <= b')%nat.
  Hypothesis Hinc : inc_le inc inc'.
  Notation wn := (write_node flits lookup b inc).
  Notation wn' := (write_node flits lookup b' inc').

  Lemma node_le : forall n, NodeLe wn wn' n.
  Proof.
    apply node_deep_ind. intros n IH c w.
    destruct n; cbn [children] in IH; cbn [write_node]; try apply le_out_refl.
    - (* NCond *)
      pose proof (Deep_Forall _ _ IH) as IH'.
      destruct child as [|ch1 [|ch2 rest]];
        repeat match goal with H : Forall _ (_ :: _) |- _ => inversion H; clear H; subst end;
        same_brk; try reflexivity;
        match goal with H : NodeLe _ _ ?ch |- le_out (wn ?ch _ _) _ => apply H end.
    - (* NCondOK *)
      pose proof (Deep_Forall _ _ IH) as IH'.
      destruct child as [|ch1 [|ch2 rest]];
        repeat match goal with H : Forall _ (_ :: _) |- _ => inversion H; clear H; subst end;
        same_brk; try reflexivity;
        match goal with H : NodeLe _ _ ?ch |- le_out (wn ?ch _ _) _ => apply H end.
    - (* NBlock *) apply walk_le, Deep_Forall, IH.
    - (* NLoopRange *)
      pose proof (deep_loop_body _ _ IH) as Hbd. pose proof (deep_loop_else _ _ IH) as Hel.
      destruct (split_dot src) as [|k rest]; [reflexivity|].
      destruct (find_var k _) as [s|].
      + destruct (if s_static s then _ else _) as [els|]; [|exact I].
        apply rloop_each_le; [intros; apply body_le; assumption|intros; apply else_le; assumption].
      + destruct (loop_has_else child); [|reflexivity].
        match goal with |- context [else_with wn ?l ?c0 w] =>
          pose proof (else_le wn wn' l Hel c0 w) as E; destruct (else_with wn l c0 w) end;
          cbn [le_out] in *; [rewrite E; reflexivity|exact I|exact I].
    - (* NLoopCount *)
      pose proof (deep_loop_body _ _ IH) as Hbd. pose proof (deep_loop_else _ _ IH) as Hel.
      same_brk; try reflexivity.
      apply cloop_iter_le; [intros; apply body_le; assumption|intros; apply else_le; assumption|exact Hb].
    - (* NSwitch *)
      pose proof (Deep_Forall _ _ IH) as IH'. destruct arg; apply cases_le; assumption.
    - (* NInclude *)
      destruct (lookup tpls) as [t|]; [|reflexivity].
      destruct (inc t (set_cerr None c)) as [r|] eqn:EI; [|exact I].
      rewrite (Hinc _ _ _ EI). apply le_out_refl.
  Qed.

  Lemma run_nodes_le : forall l c w,
    le_out (run_nodes flits lookup b inc l c w) (run_nodes flits lookup b' inc' l c w).
  Proof.
    induction l as [|n r IH]; intros c w; cbn [run_nodes]; [reflexivity|].
    pose proof (node_le n c w) as H. destruct (wn n c w) as [c1 w1 e| |]; cbn [le_out] in H; [rewrite H|exact I|exact I].
    destruct e; [reflexivity|apply IH].
  Qed.

  Lemma write_tpl_le t c w :
    le_out (write_tpl flits lookup b inc t c w) (write_tpl flits lookup b' inc' t c w).
  Proof.
    unfold write_tpl.
    match goal with |- context [run_nodes flits lookup b inc t ?c0 w] =>
      pose proof (run_nodes_le t c0 w) as H; destruct (run_nodes flits lookup b inc t c0 w) as [c1 w1 e| |] end;
      cbn [le_out] in H; [rewrite H; apply le_out_refl|exact I|exact I].
  Qed.
End NodeLeSec.

(* an Out result is stable under more budget and a larger include renderer *)
Theorem budget_monotone_node flits lookup b b' inc inc' n c w c' w' e :
  (b <= b')%nat -> inc_le inc inc' ->
  write_node flits lookup b inc n c w = Out c' w' e -> write_node flits lookup b' inc' n c w = Out c' w' e.
Proof. intros Hb Hi E. pose proof (node_le flits lookup b b' inc inc' Hb Hi n c w) as H. rewrite E in H. exact H. Qed.

Theorem budget_monotone_nodes flits lookup b b' inc inc' l c w c' w' e :
  (b <= b')%nat -> inc_le inc inc' ->
  run_nodes flits lookup b inc l c w = Out c' w' e -> run_nodes flits lookup b' inc' l c w = Out c' w' e.
Proof. intros Hb Hi E. pose proof (run_nodes_le flits lookup b b' inc inc' Hb Hi l c w) as H. rewrite E in H. exact H. Qed.

Theorem budget_monotone_tpl flits lookup b b' inc inc' t c w c' w' e :
  (b <= b')%nat -> inc_le inc inc' ->
  write_tpl flits lookup b inc t c w = Out c' w' e -> write_tpl flits lookup b' inc' t c w = Out c' w' e.
Proof. intros Hb Hi E. pose proof (write_tpl_le flits lookup b b' inc inc' Hb Hi t c w) as H. rewrite E in H. exact H. Qed.

Lemma inc_le_refl inc : inc_le inc inc.
Proof. intros t c r H. exact H. Qed.

(* the model's own include renderer: monotone in budget and depth *)
Lemma render_inc_le flits lookup : forall d d' b b', (b <= b')%nat -> (d <= d')%nat ->
  inc_le (render_inc flits lookup b d) (render_inc flits lookup b' d').
Proof.
  induction d as [|d IH]; intros d' b b' Hb Hd t c r E; [discriminate E|].
  destruct d' as [|d']; [lia|]. cbn [render_inc] in *.
  pose proof (write_tpl_le flits lookup b b' _ _ Hb (IH d' b b' Hb ltac:(lia)) t c (wr_new None 0)) as H.
  destruct (write_tpl flits lookup b (render_inc flits lookup b d) t c (wr_new None 0)) as [c1 w1 e1| |]; try discriminate E.
  cbn [le_out] in H. rewrite H. exact E.
Qed.

Theorem render_monotone flits lookup b b' d d' t c w c' w' e :
  (b <= b')%nat -> (d <= d')%nat ->
  render flits lookup b d t c w = Out c' w' e -> render flits lookup b' d' t c w = Out c' w' e.
Proof. intros Hb Hd. unfold render. apply budget_monotone_tpl; [exact Hb|apply render_inc_le; assumption]. Qed.

Corollary render_budget_monotone flits lookup b b' d t c w c' w' e :
  (b <= b')%nat ->
  render flits lookup b d t c w = Out c' w' e -> render flits lookup b' d t c w = Out c' w' e.
Proof. intros Hb. apply render_monotone; [exact Hb|apply le_n]. Qed.

(* ================================================================== Part 2 *)

(* no counter loop and no include anywhere in the tree *)
Fixpoint fuel_free (n : node) : bool :=
  match n with
  | NLoopCount _ _ _ _ _ _ _ _ _ | NInclude _ => false
  | NCond _ ch | NCondOK _ _ ch | NBlock _ _ ch | NLoopRange _ _ _ _ ch | NSwitch _ ch => forallb fuel_free ch
  | _ => true
  end.

Definition NF (o : outcome) : Prop := o <> OutOfFuel.
Definition NFi (r : iterres) : Prop := r <> ItFuel.

Section WalkNF.
  Variable f : node -> ctx -> wr -> outcome.
  Definition NodeNF (n : node) : Prop := forall c w, NF (f n c w).

  Lemma walk_NF l : Forall NodeNF l -> forall c w lz, NF (walk_with f l c w lz).
  Proof.
    induction 1 as [|ch r Hch Hr IH]; intros c w lz; cbn [walk_with]; [discriminate|].
    specialize (Hch c w). destruct (f ch c w) as [c1 w1 e| |]; [|discriminate|exact Hch].
    destruct e as [[]|]; try discriminate; apply IH.
  Qed.

  Lemma body_NF l : Forall NodeNF l -> forall c w lz, NFi (body_with f l c w lz).
  Proof.
    induction 1 as [|ch r Hch Hr IH]; intros c w lz; cbn [body_with]; [destruct lz; discriminate|].
    specialize (Hch c w). destruct (f ch c w) as [c1 w1 e| |]; [|discriminate|exfalso; apply Hch; reflexivity].
    destruct e as [[]|]; try discriminate; try apply IH. destruct lz; discriminate.
  Qed.

  Lemma else_NF l : Forall NodeNF l -> forall c w, NF (else_with f l c w).
  Proof.
    induction 1 as [|ch r Hch Hr IH]; intros c w; cbn [else_with]; [discriminate|].
    specialize (Hch c w). destruct (f ch c w) as [c1 w1 e| |]; [|discriminate|exact Hch].
    destruct e; [discriminate|apply IH].
  Qed.

  Lemma default_NF l : Forall NodeNF l -> forall c w, NF (default_with f l c w).
  Proof.
    induction 1 as [|ch r Hch Hr IH]; intros c w; cbn [default_with]; [discriminate|].
    destruct ch; try apply IH. destruct k; try apply IH. apply Hch.
  Qed.

  Lemma cases_NF hit chk all l : Forall NodeNF all -> Forall NodeNF l ->
    forall c w, NF (cases_with f hit chk all l c w).
  Proof.
    intros Hall. induction 1 as [|ch r Hch Hr IH]; intros c w; cbn [cases_with]; [apply default_NF, Hall|].
    destruct ch; try apply IH. destruct k; try apply IH.
    destruct (hit ci c) as [[c1 h] e]. destruct e; [discriminate|].
    destruct (if chk then cerr c1 else None); [discriminate|]. destruct h; [apply Hch|apply IH].
  Qed.
End WalkNF.

Section LoopsNF.
  Variable bodyf : ctx -> wr -> iterres.
  Variable elsef : ctx -> wr -> outcome.
  Hypothesis Hbody : forall c w, NFi (bodyf c w).
  Hypothesis Helse : forall c w, NF (elsef c w).

  Lemma rloop_finish_NF he saved c w calls : NF (rloop_finish elsef he saved c w calls).
  Proof.
    unfold rloop_finish. destruct calls; [destruct he|]; try discriminate.
    match goal with |- context [elsef ?c0 w] => pose proof (Helse c0 w) as E; destruct (elsef c0 w) end;
      [discriminate|discriminate|exact E].
  Qed.

  Lemma rloop_each_NF he key val sep saved els : forall c w calls trips,
    NF (rloop_each bodyf elsef he key val sep saved els c w calls trips).
  Proof.
    induction els as [|[kb ev] r IH]; intros c w calls trips; cbn [rloop_each]; [apply rloop_finish_NF|].
    match goal with |- context [0 <? brkD ?c0] => set (cc := c0) end.
    destruct (0 <? brkD cc); [apply rloop_finish_NF|].
    destruct (match trips, sep with
              | O, _ | _, [] => (w, None)
              | _, _ => let (w', ok) := wr_write w (region_text cc sep) in (w', if ok then None else Some EWriter)
              end) as [w1 sepe].
    destruct sepe; [discriminate|].
    pose proof (Hbody cc w1) as B. destruct (bodyf cc w1) as [c' w'|c' w'|c' w' e| |];
      [apply IH|apply rloop_finish_NF|discriminate|discriminate|exfalso; apply B; reflexivity].
  Qed.

  Lemma cloop_finish_NF he cnt idx saved c w trips : NF (cloop_finish elsef he cnt idx saved c w trips).
  Proof.
    unfold cloop_finish. destruct trips; [destruct he|]; try discriminate.
    match goal with |- context [elsef ?c0 w] => pose proof (Helse c0 w) as E; destruct (elsef c0 w) end;
      [discriminate|discriminate|exact E].
  Qed.
End LoopsNF.

Lemma fuel_free_loop_body child : forallb fuel_free child = true -> forallb fuel_free (loop_body child) = true.
Proof.
  intros H. unfold loop_body. destruct child as [|n r]; [reflexivity|].
  destruct n; try exact H. destruct k; try exact H.
  cbn [forallb fuel_free] in H. apply andb_true_iff in H. exact (proj1 H).
Qed.

Lemma fuel_free_loop_else child : forallb fuel_free child = true -> forallb fuel_free (loop_else_nodes child) = true.
Proof.
  intros H. unfold loop_else_nodes. destruct child as [|a [|n r]]; try exact H.
  destruct n; try exact H. destruct k; try exact H.
  cbn [forallb fuel_free] in H. apply andb_true_iff in H. destruct H as [_ H]. apply andb_true_iff in H. exact (proj1 H).
Qed.

Lemma Forall_imp_forallb {A} (P : A -> Prop) (f : A -> bool) l :
  Forall (fun x => f x = true -> P x) l -> forallb f l = true -> Forall P l.
Proof.
  induction 1 as [|x l Hx _ IH]; intros H; [constructor|]. cbn [forallb] in H. apply andb_true_iff in H.
  constructor; [apply Hx, (proj1 H)|apply IH, (proj2 H)].
Qed.

Section NodeNFSec.
  Variable flits : list (bytes * Z).
  Variable lookup : list bytes -> option tree.
  Variable budget : nat.
  Variable inc : tree -> ctx -> option (ctx * bytes * option err).
  Notation wn := (write_node flits lookup budget inc).

  Lemma write_value_NF c w t pfx sfx noesc : NF (write_value c w t pfx sfx noesc).
  Proof.
    unfold write_value.
    destruct (match pfx with [] => (w, None) | _ :: _ => write_raw c w pfx end) as [w1 [e1|]]; [discriminate|].
    destruct (if noesc then let (w', ok) := wr_write w1 t in (w', if ok then None else Some EWriter) else write_raw c w1 t)
      as [w2 [e2|]]; [discriminate|].
    destruct sfx; [discriminate|]. destruct (write_raw c w2 (b :: sfx)). discriminate.
  Qed.

  Ltac brkN := match goal with
               | |- NF (match ?x with _ => _ end) => destruct x
               | |- NF (if ?x then _ else _) => destruct x
               | |- NF (let (_, _) := ?x in _) => destruct x
               end.

  Lemma node_NF : forall n, fuel_free n = true -> NodeNF wn n.
  Proof.
    apply (node_deep_ind (fun n => fuel_free n = true -> NodeNF wn n)). intros n IH FF c w.
    assert (CH : forall ch, children n = ch -> forallb fuel_free ch = true -> Forall (NodeNF wn) ch).
    { intros ch <- H. eapply Forall_imp_forallb; [|exact H]. eapply Forall_impl; [|exact IH].
      intros x Dx. exact (Deep_here _ _ Dx). }
    assert (GC : forall l, Forall (fun n => fuel_free n = true -> NodeNF wn n) l -> forallb fuel_free l = true -> Forall (NodeNF wn) l)
      by (intros l; apply Forall_imp_forallb).
    destruct n; cbn [children fuel_free] in *; try discriminate FF; cbn [write_node].
    - repeat brkN; discriminate.
    - repeat brkN; try discriminate; apply write_value_NF.
    - (* NCond *)
      pose proof (CH _ eq_refl FF) as K.
      destruct child as [|ch1 [|ch2 rest]];
        repeat match goal with H : Forall _ (_ :: _) |- _ => inversion H; clear H; subst end;
        repeat brkN; try discriminate;
        match goal with H : NodeNF _ ?ch |- NF (wn ?ch _ _) => apply H end.
    - (* NCondOK *)
      pose proof (CH _ eq_refl FF) as K.
      destruct child as [|ch1 [|ch2 rest]];
        repeat match goal with H : Forall _ (_ :: _) |- _ => inversion H; clear H; subst end;
        repeat brkN; try discriminate;
        match goal with H : NodeNF _ ?ch |- NF (wn ?ch _ _) => apply H end.
    - (* NBlock *) apply walk_NF, (CH _ eq_refl FF).
    - (* NLoopRange *)
      pose proof (GC _ (deep_loop_body _ _ IH) (fuel_free_loop_body _ FF)) as Hb.
      pose proof (GC _ (deep_loop_else _ _ IH) (fuel_free_loop_else _ FF)) as He.
      destruct (split_dot src) as [|k rest]; [discriminate|].
      destruct (find_var k _) as [s|].
      + destruct (if s_static s then _ else _) as [els|]; [|discriminate].
        apply rloop_each_NF; [intros; apply body_NF; assumption|intros; apply else_NF; assumption].
      + destruct (loop_has_else child); [|discriminate].
        match goal with |- context [else_with wn ?l ?c0 w] =>
          pose proof (else_NF wn l He c0 w) as E; destruct (else_with wn l c0 w) end;
          [discriminate|discriminate|exact E].
    - discriminate.
    - discriminate.
    - discriminate.
    - repeat brkN; discriminate.
    - repeat brkN; discriminate.
    - (* NSwitch *)
      pose proof (CH _ eq_refl FF) as K. destruct arg; apply cases_NF; assumption.
    - discriminate.
    - discriminate.
    - discriminate.
  Qed.

  Lemma run_nodes_NF : forall l, forallb fuel_free l = true -> forall c w, NF (run_nodes flits lookup budget inc l c w).
  Proof.
    induction l as [|n r IH]; intros H c w; cbn [run_nodes]; [discriminate|].
    cbn [forallb] in H. apply andb_true_iff in H. destruct H as [H1 H2].
    pose proof (node_NF n H1 c w) as N. destruct (wn n c w) as [c1 w1 e| |]; [|discriminate|exact N].
    destruct e; [discriminate|apply IH, H2].
  Qed.
End NodeNFSec.

(* only counter loops and includes can run out of fuel: a tree without them never does, whatever
   the budget (even 0) and whatever the include renderer *)
Theorem out_of_fuel_only_from_loops flits lookup budget inc n c w :
  write_node flits lookup budget inc n c w = OutOfFuel -> fuel_free n = false.
Proof.
  intros E. destruct (fuel_free n) eqn:F; [|reflexivity].
  exfalso. exact (node_NF flits lookup budget inc n F c w E).
Qed.

Theorem out_of_fuel_only_from_loops_nodes flits lookup budget inc l c w :
  run_nodes flits lookup budget inc l c w = OutOfFuel -> forallb fuel_free l = false.
Proof.
  intros E. destruct (forallb fuel_free l) eqn:F; [|reflexivity].
  exfalso. exact (run_nodes_NF flits lookup budget inc l F c w E).
Qed.

(* ================================================================== Part 3 *)

(* the number of trips a counter loop can still make: the bound comparison is an order and the
   step goes in its direction *)
Definition trips_left (condOp cntOp : op) (cur limv : Z) : option Z :=
  match condOp, cntOp with
  | OpLt, OpInc => Some (limv - cur)
  | OpLtq, OpInc => Some (limv - cur + 1)
  | OpGt, OpDec => Some (cur - limv)
  | OpGtq, OpDec => Some (cur - limv + 1)
  | _, _ => None
  end.

Section TripBound.
  Variable bodyf : ctx -> wr -> iterres.
  Variable elsef : ctx -> wr -> outcome.
  Hypothesis Hbody : forall c w, NFi (bodyf c w).
  Hypothesis Helse : forall c w, NF (elsef c w).

  Lemma trips_left_step condOp cntOp cur limv d c :
    trips_left condOp cntOp cur limv = Some d -> cloop_allows condOp cur limv = Some true ->
    1 <= d /\ exists c' nxt, cloop_step cntOp 0 c cur = Some (c', nxt) /\ trips_left condOp cntOp nxt limv = Some (d - 1) /\
             forall idx c0, exists c1, cloop_step cntOp idx c0 cur = Some (c1, nxt).
  Proof.
    unfold trips_left, cloop_allows, cloop_step.
    destruct condOp; try discriminate; destruct cntOp; try discriminate; intros E A; inversion E; subst; inversion A as [A'];
      [apply Z.ltb_lt in A'|apply Z.leb_le in A'|apply Z.ltb_lt in A'|apply Z.leb_le in A'];
      (split; [lia|]); eexists _, _; (split; [reflexivity|]); (split; [f_equal; lia|]); intros; eexists; reflexivity.
  Qed.

  Lemma trips_left_allows condOp cntOp cur limv d :
    trips_left condOp cntOp cur limv = Some d -> exists a, cloop_allows condOp cur limv = Some a.
  Proof. unfold trips_left, cloop_allows. destruct condOp; try discriminate; destruct cntOp; try discriminate; eexists; reflexivity. Qed.

  (* with more fuel than trips left, the loop itself never runs out of fuel *)
  Lemma cloop_iter_bound he cnt sep condOp cntOp limv idx saved : forall fuel c w trips cur d,
    trips_left condOp cntOp cur limv = Some d -> (Z.to_nat d < fuel)%nat ->
    NF (cloop_iter bodyf elsef he cnt sep condOp cntOp limv idx saved fuel c w trips cur).
  Proof.
    induction fuel as [|fuel IH]; intros c w trips cur d T Hd; [lia|].
    cbn [cloop_iter]. destruct (trips_left_allows _ _ _ _ _ T) as [a A]. rewrite A.
    destruct (a && (brkD c =? 0)) eqn:AB; [|apply cloop_finish_NF, Helse].
    apply andb_true_iff in AB. destruct AB as [Ha _]. subst a.
    set (ca := ctx_set_static cnt (VCell idx) c).
    destruct (trips_left_step _ _ _ _ _ ca T A) as (D1 & _ & nxt & _ & Tn & ST).
    destruct (match trips, sep with
              | O, _ | _, [] => (w, None)
              | _, _ => let (w', ok) := wr_write w (region_text ca sep) in (w', if ok then None else Some EWriter)
              end) as [w1 sepe].
    destruct sepe; [discriminate|].
    pose proof (Hbody (set_chQB true ca) w1) as B.
    destruct (bodyf (set_chQB true ca) w1) as [c' w'|c' w'|c' w' e| |]; try discriminate; [| |exfalso; apply B; reflexivity].
    - destruct (ST idx (set_chQB (chQB ca) (set_cerr None c'))) as [c1 E1]. rewrite E1.
      apply (IH _ _ _ _ (d - 1) Tn). lia.
    - destruct (ST idx (set_chQB (chQB ca) (set_cerr None c'))) as [c1 E1]. rewrite E1. apply cloop_finish_NF, Helse.
  Qed.

  (* when fuel 0 is hit: exactly when another trip is due *)
  Lemma cloop_iter_no_fuel he cnt sep condOp cntOp limv idx saved c w trips cur :
    cloop_iter bodyf elsef he cnt sep condOp cntOp limv idx saved 0 c w trips cur = OutOfFuel <->
    exists a, cloop_allows condOp cur limv = Some a /\ a && (brkD c =? 0) = true.
  Proof.
    cbn [cloop_iter]. split.
    - destruct (cloop_allows condOp cur limv) as [a|]; [|intros E; exfalso; exact (cloop_finish_NF elsef Helse _ _ _ _ _ _ _ E)].
      destruct (a && (brkD c =? 0)) eqn:AB; [intros _; exists a; split; [reflexivity|exact AB]|].
      intros E; exfalso; exact (cloop_finish_NF elsef Helse _ _ _ _ _ _ _ E).
    - intros (a & A & AB). rewrite A, AB. reflexivity.
  Qed.
End TripBound.

(* at the node: the bounds are evaluated first; with a fuel-free body and else branch and more
   budget than trips (the harness uses trips + 3), the loop node never runs out of fuel *)
Theorem loop_trip_bound flits lookup budget inc cnt init lim sep (initS limS : bool) condOp cntOp child c w :
  forallb fuel_free child = true ->
  (let cz := set_brkD 0 (set_cerr None c) in
   let '(c1, v0) := cloop_range cz initS init in
   let '(c2, limv) := cloop_range c1 limS lim in
   match trips_left condOp cntOp v0 limv with Some d => (Z.to_nat d < budget)%nat | None => False end) ->
  write_node flits lookup budget inc (NLoopCount cnt init lim sep initS limS condOp cntOp child) c w <> OutOfFuel.
Proof.
  intros FF H. cbn [write_node]. cbv zeta in H.
  change (brkD (set_cerr None c)) with (brkD c).
  destruct (cloop_range (set_brkD 0 (set_cerr None c)) initS init) as [c1 v0].
  destruct (cerr c1); [discriminate|].
  destruct (cloop_range c1 limS lim) as [c2 limv]. destruct (cerr c2); [discriminate|].
  destruct (trips_left condOp cntOp v0 limv) as [d|] eqn:T; [|contradiction].
  assert (Hb : Forall (NodeNF (write_node flits lookup budget inc)) (loop_body child)).
  { apply Forall_forall. intros n Hn. apply node_NF. pose proof (fuel_free_loop_body child FF) as G.
    rewrite forallb_forall in G. apply G, Hn. }
  assert (He : Forall (NodeNF (write_node flits lookup budget inc)) (loop_else_nodes child)).
  { apply Forall_forall. intros n Hn. apply node_NF. pose proof (fuel_free_loop_else child FF) as G.
    rewrite forallb_forall in G. apply G, Hn. }
  eapply cloop_iter_bound; [intros; apply body_NF; assumption|intros; apply else_NF; assumption|exact T|exact H].
Qed.

(* ================================================================== Part 4 *)

(* a reference result inside the specified domain stays *)
Definition le_res (r1 r2 : res) : Prop := snd r1 <> SNA -> r2 = r1.
Definition rinc_le (rinc rinc' : list ast -> env -> option res) : Prop :=
  forall t e o e1 s, rinc t e = Some (o, e1, s) -> s <> SNA -> rinc' t e = Some (o, e1, s).

Lemma le_res_refl r : le_res r r.
Proof. intros _. reflexivity. Qed.
Lemma le_res_na o e r : le_res (o, e, SNA) r.
Proof. intros H. exfalso. apply H. reflexivity. Qed.

Section SeqLe.
  Variables f g : ast -> env -> res.
  Definition ItemLe (a : ast) : Prop := forall e, le_res (f a e) (g a e).

  Lemma seq_le l : Forall ItemLe l -> forall e acc lz, le_res (seq_with f l e acc lz) (seq_with g l e acc lz).
  Proof.
    induction 1 as [|a r Ha Hr IH]; intros e acc lz; cbn [seq_with]; [apply le_res_refl|].
    specialize (Ha e). destruct (f a e) as [[o e1] s].
    destruct s; try (rewrite (Ha ltac:(discriminate)); first [apply IH|apply le_res_refl]).
    apply le_res_na.
  Qed.

  Lemma top_le l : Forall ItemLe l -> forall e acc, le_res (top_with f l e acc) (top_with g l e acc).
  Proof.
    induction 1 as [|a r Ha Hr IH]; intros e acc; cbn [top_with]; [apply le_res_refl|].
    specialize (Ha e). destruct (f a e) as [[o e1] s].
    destruct s; try (rewrite (Ha ltac:(discriminate)); first [apply IH|apply le_res_refl]).
    apply le_res_na.
  Qed.

  Lemma cases_ref_le test dflt hd l :
    Forall ItemLe dflt ->
    Forall (fun a => match a with ACase _ body => Forall ItemLe body | _ => True end) l ->
    forall e, le_res (cases_ref f test dflt hd l e) (cases_ref g test dflt hd l e).
  Proof.
    intros Hd. induction 1 as [|a r Ha Hr IH]; intros e; cbn [cases_ref].
    - destruct hd; [apply seq_le, Hd|apply le_res_refl].
    - destruct a; try apply IH. destruct (test c e) as [[|]| |]; [apply seq_le, Ha|apply IH|apply le_res_refl|apply le_res_refl].
  Qed.
End SeqLe.

Section LoopsRefLe.
  Variables bodyf bodyg elsef elseg : env -> res.
  Hypothesis Hbody : forall e, le_res (bodyf e) (bodyg e).
  Hypothesis Helse : forall e, le_res (elsef e) (elseg e).

  Lemma run_else_le he saved e acc trips :
    le_res (run_else elsef he saved e acc trips) (run_else elseg he saved e acc trips).
  Proof.
    unfold run_else. destruct trips; [|apply le_res_refl]. destruct he; [|apply le_res_refl].
    specialize (Helse e). destruct (elsef e) as [[o e1] s].
    destruct s; try (rewrite (Helse ltac:(discriminate)); apply le_res_refl). apply le_res_na.
  Qed.

  Lemma wrap_le (r1 r2 : res) saved :
    le_res r1 r2 ->
    le_res (let '(o, e3, s) := r1 in (o, set_ebrk (Z.max (e_brk e3) saved) e3, s))
           (let '(o, e3, s) := r2 in (o, set_ebrk (Z.max (e_brk e3) saved) e3, s)).
  Proof.
    intros H. destruct r1 as [[o e3] s]. destruct s; try (rewrite (H ltac:(discriminate)); apply le_res_refl). apply le_res_na.
  Qed.

  Lemma cloop_ref_le he saved sep var cop step limv : forall fuel fuel' e acc trips cur,
    (fuel <= fuel')%nat ->
    le_res (cloop_ref bodyf elsef he saved sep var cop step limv fuel e acc trips cur)
           (cloop_ref bodyg elseg he saved sep var cop step limv fuel' e acc trips cur).
  Proof.
    induction fuel as [|fuel IH]; intros fuel' e acc trips cur Hle.
    - cbn [cloop_ref]. destruct (cloop_allows cop cur limv) as [allow|] eqn:A; [|apply le_res_na].
      destruct (allow && (e_brk e =? 0)) eqn:B; [apply le_res_na|].
      destruct fuel'; cbn [cloop_ref]; rewrite A, B; apply wrap_le, run_else_le.
    - destruct fuel' as [|fuel']; [lia|]. cbn [cloop_ref].
      destruct (cloop_allows cop cur limv) as [allow|]; [|apply le_res_refl].
      destruct (allow && (e_brk e =? 0)); [|apply wrap_le, run_else_le].
      match goal with |- context [bodyf ?e0] => pose proof (Hbody e0) as B; destruct (bodyf e0) as [[o e1] s] end.
      destruct s; try (rewrite (B ltac:(discriminate));
                       destruct (match step with OpInc => Some (cur + 1) | OpDec => Some (cur - 1) | _ => None end);
                       first [apply IH; lia|apply le_res_refl]).
      destruct (match step with OpInc => Some (cur + 1) | OpDec => Some (cur - 1) | _ => None end); apply le_res_na.
  Qed.

  Lemma rloop_ref_le he saved sep key val : forall els e acc calls trips,
    le_res (rloop_ref bodyf elsef he saved sep key val els e acc calls trips)
           (rloop_ref bodyg elseg he saved sep key val els e acc calls trips).
  Proof.
    induction els as [|[kb x] r IH]; intros e acc calls trips; cbn [rloop_ref]; [apply wrap_le, run_else_le|].
    match goal with |- context [if ?b then _ else _] => destruct b end; [apply le_res_refl|].
    match goal with |- context [bodyf ?e0] => pose proof (Hbody e0) as B; destruct (bodyf e0) as [[o e1] s] end.
    destruct s; try (rewrite (B ltac:(discriminate)); first [apply IH|apply le_res_refl]). apply le_res_na.
  Qed.
End LoopsRefLe.

Section RefLe.
  Variable flits : list (bytes * Z).
  Variable rlookup : list bytes -> option (list ast).
  Variables b b' : nat.
  Variables rinc rinc' : list ast -> env -> option res.
  Hypothesis Hb : (b <= b')%nat.
  Hypothesis Hinc : rinc_le rinc rinc'.
  Notation re := (ref_eval flits rlookup b rinc).
  Notation re' := (ref_eval flits rlookup b' rinc').

  Definition ref_P (a : ast) : Prop :=
    ItemLe re re' a /\ (forall c body, a = ACase c body -> Forall (ItemLe re re') body).

  Lemma ref_items_P l : Forall ref_P l -> Forall (ItemLe re re') l.
  Proof. apply Forall_impl. intros a H. exact (proj1 H). Qed.

  Lemma ref_eval_le : forall a, ref_P a.
  Proof.
    apply (ast_ind' ref_P); intros; (split; [intros e|intros c0 body0 E0; try discriminate E0]); cbn [ref_eval];
      try apply le_res_refl.
    - (* AIf *)
      destruct (ref_cond flits e c) as [[|]| |]; try apply le_res_refl.
      + apply seq_le, ref_items_P; assumption.
      + destruct he; [apply seq_le, ref_items_P; assumption|apply le_res_refl].
    - (* AIfOK *)
      destruct (if al then Some (VBytes arg) else env_get e arg) as [x|]; [|apply le_res_refl].
      destruct (text_of [] x) as [[|b0 t0]|]; cbv beta iota;
        (destruct (xorb ng _); [apply seq_le, ref_items_P; assumption|]);
        (destruct he; [apply seq_le, ref_items_P; assumption|apply le_res_refl]).
    - (* ASwitch *)
      assert (CS : Forall (fun a => match a with ACase _ body => Forall (ItemLe re re') body | _ => True end) cases).
      { clear - H. induction H as [|a l Ha _ IH]; [constructor|]. constructor; [|exact IH].
        destruct a; try exact I. eapply (proj2 Ha). reflexivity. }
      destruct arg; apply cases_ref_le; try assumption; apply ref_items_P; assumption.
    - (* ACase, second part *)
      inversion E0; subst. apply ref_items_P; assumption.
    - (* ACLoop *)
      destruct (bound_of _ il init) as [[v0|]|x]; try apply le_res_refl;
        destruct (bound_of _ ll lim) as [[lv|]|y]; try apply le_res_refl.
      apply cloop_ref_le; [intros; apply seq_le, ref_items_P; assumption|intros; apply top_le, ref_items_P; assumption|exact Hb].
    - (* ARLoop *)
      destruct (split_dot src); [apply le_res_refl|].
      destruct (env_find _ _).
      + match goal with |- context [match ?x with Some _ => _ | None => _ end] => destruct x end; [|apply le_res_refl].
        apply rloop_ref_le; [intros; apply seq_le, ref_items_P; assumption|intros; apply top_le, ref_items_P; assumption].
      + apply rloop_ref_le; [intros; apply seq_le, ref_items_P; assumption|intros; apply top_le, ref_items_P; assumption].
    - (* AInclude *)
      destruct (rlookup names) as [t|]; [|apply le_res_refl].
      destruct (rinc t e) as [[[o e1] s]|] eqn:EI; [|apply le_res_na].
      destruct s; try (rewrite (Hinc _ _ _ _ _ EI ltac:(discriminate)); apply le_res_refl). apply le_res_na.
    - (* ARegion *)
      pose proof (seq_le re re' body (ref_items_P _ H) (set_eflag f true e) [] false) as S.
      destruct (seq_with re body (set_eflag f true e) [] false) as [[o e1] s].
      destruct s; try (rewrite (S ltac:(discriminate)); apply le_res_refl). apply le_res_na.
  Qed.

  Lemma ref_items_le l e :
    le_res (ref_items flits rlookup b rinc l e) (ref_items flits rlookup b' rinc' l e).
  Proof. unfold ref_items. apply top_le. apply Forall_forall. intros a _. exact (proj1 (ref_eval_le a)). Qed.
End RefLe.

Theorem ref_eval_monotone flits rlookup b b' rinc rinc' a e o e1 s :
  (b <= b')%nat -> rinc_le rinc rinc' ->
  ref_eval flits rlookup b rinc a e = (o, e1, s) -> s <> SNA -> ref_eval flits rlookup b' rinc' a e = (o, e1, s).
Proof.
  intros Hb Hi E N. pose proof (proj1 (ref_eval_le flits rlookup b b' rinc rinc' Hb Hi a) e) as H.
  rewrite E in H. exact (H N).
Qed.

Theorem ref_items_monotone flits rlookup b b' rinc rinc' l e o e1 s :
  (b <= b')%nat -> rinc_le rinc rinc' ->
  ref_items flits rlookup b rinc l e = (o, e1, s) -> s <> SNA -> ref_items flits rlookup b' rinc' l e = (o, e1, s).
Proof.
  intros Hb Hi E N. pose proof (ref_items_le flits rlookup b b' rinc rinc' Hb Hi l e) as H.
  rewrite E in H. exact (H N).
Qed.

Lemma rinc_le_refl rinc : rinc_le rinc rinc.
Proof. intros t e o e1 s H _. exact H. Qed.

Lemma ref_inc_le flits rlookup : forall d d' b b', (b <= b')%nat -> (d <= d')%nat ->
  rinc_le (ref_inc flits rlookup b d) (ref_inc flits rlookup b' d').
Proof.
  induction d as [|d IH]; intros d' b b' Hb Hd t e o e1 s E N; [discriminate E|].
  destruct d' as [|d']; [lia|]. cbn [ref_inc] in *. inversion E as [E']. f_equal. rewrite E'.
  apply (ref_items_monotone flits rlookup b b' _ _ t e o e1 s Hb (IH d' b b' Hb ltac:(lia)) E' N).
Qed.

Theorem ref_render_monotone flits rlookup b b' d d' t e o e1 eo :
  (b <= b')%nat -> (d <= d')%nat ->
  ref_render flits rlookup b d t e = (o, e1, eo, true) -> ref_render flits rlookup b' d' t e = (o, e1, eo, true).
Proof.
  intros Hb Hd. unfold ref_render.
  pose proof (ref_items_le flits rlookup b b' _ _ Hb (ref_inc_le flits rlookup d d' b b' Hb Hd) t e) as H.
  destruct (ref_items flits rlookup b (ref_inc flits rlookup b d) t e) as [[o0 e0] s0].
  destruct s0; try (rewrite (H ltac:(discriminate)); exact (fun x => x)). discriminate.
Qed.

(* ------------------------------------------------------------------ refinement at any larger budget *)

(* if the reference semantics answers (inside its domain) at budget b, the model answers Out at
   every budget b' >= b, and the two agree *)
Theorem refines_any_larger_budget flits lookup inc rlookup rinc :
  lookup_ok lookup rlookup -> (forall L, inc_ok inc rlookup rinc L) ->
  forall b b' items L, (b <= b')%nat -> forallb (wf_supported true) items = true ->
  forall c w, Inv L c -> w_fail w = None ->
  forall o e' s, ref_items flits rlookup b rinc items (abs c) = (o, e', s) -> sig_dom s ->
  exists c' w' eo, run_nodes flits lookup b' inc (compile_tpl items) c w = Out c' w' eo /\
                   wr_bytes w' = wr_bytes w ++ o /\ w_fail w' = None /\ post L s c' e' /\ sig_rel s eo.
Proof.
  intros Hl Hi b b' items L Hb W c w HI Hw o e' s E D.
  assert (N : s <> SNA) by (intros ->; exact D).
  pose proof (ref_items_monotone flits rlookup b b' rinc rinc items (abs c) o e' s Hb (rinc_le_refl rinc) E N) as E'.
  exact (tpl_refines_ref flits lookup b' inc rlookup rinc Hl Hi items L W c w HI Hw o e' s E' D).
Qed.

(* ... in the form: whatever Out the model gives at a larger budget is the one the reference
   semantics prescribes *)
Corollary refines_agree_at_larger_budget flits lookup inc rlookup rinc :
  lookup_ok lookup rlookup -> (forall L, inc_ok inc rlookup rinc L) ->
  forall b b' items L, (b <= b')%nat -> forallb (wf_supported true) items = true ->
  forall c w, Inv L c -> w_fail w = None ->
  forall o e' s, ref_items flits rlookup b rinc items (abs c) = (o, e', s) -> sig_dom s ->
  forall c' w' eo, run_nodes flits lookup b' inc (compile_tpl items) c w = Out c' w' eo ->
  wr_bytes w' = wr_bytes w ++ o /\ w_fail w' = None /\ post L s c' e' /\ sig_rel s eo.
Proof.
  intros Hl Hi b b' items L Hb W c w HI Hw o e' s E D c' w' eo R.
  destruct (refines_any_larger_budget flits lookup inc rlookup rinc Hl Hi b b' items L Hb W c w HI Hw o e' s E D)
    as (c2 & w2 & eo2 & R2 & H). rewrite R in R2. inversion R2; subst. exact H.
Qed.

(* whole renders: budget and include depth *)
Theorem render_refines_any_larger_fuel flits lookup rlookup :
  lookup_ok lookup rlookup ->
  (forall names t, rlookup names = Some t -> forallb (wf_supported true) t = true) ->
  forall b b' d d' items c w, (b <= b')%nat -> (d <= d')%nat ->
  forallb (wf_supported true) items = true -> Inv [] c -> w_fail w = None ->
  forall o e1 s, ref_items flits rlookup b (ref_inc flits rlookup b d) items (abs c) = (o, e1, s) -> sig_dom s ->
  exists c' w', render flits lookup b' d' (compile_tpl items) c w = Out c' w' (ref_err s) /\
                wr_bytes w' = wr_bytes w ++ o /\ w_fail w' = None /\ post [] s c' e1.
Proof.
  intros Hl Hr b b' d d' items c w Hb Hd W HI Hw o e1 s E D.
  assert (N : s <> SNA) by (intros ->; exact D).
  pose proof (ref_items_monotone flits rlookup b b' _ _ items (abs c) o e1 s Hb (ref_inc_le flits rlookup d d' b b' Hb Hd) E N) as E'.
  exact (render_refines flits lookup b' rlookup Hl Hr d' items c w W HI Hw o e1 s E' D).
Qed.

(* ------------------------------------------------------------------ example *)

(* five trips: out of fuel with budget 4, the same result with budget 6 and 60; a tree without
   loops and includes needs no budget at all *)
Definition t_five : tree :=
  [NLoopCount ["i"%byte] ["0"%byte] ["5"%byte] [","%byte] true true OpLt OpInc [NTpl ["i"%byte] [] [] false []]].
Example budget_example :
  run_nodes [] (fun _ => None) 4 (fun _ _ => None) t_five ctx_new (wr_new None 0) = OutOfFuel /\
  (match run_nodes [] (fun _ => None) 6 (fun _ _ => None) t_five ctx_new (wr_new None 0) with
   | Out _ w None => wr_bytes w = ["0";",";"1";",";"2";",";"3";",";"4"]%byte
   | _ => False
   end) /\
  run_nodes [] (fun _ => None) 60 (fun _ _ => None) t_five ctx_new (wr_new None 0) =
  run_nodes [] (fun _ => None) 6 (fun _ _ => None) t_five ctx_new (wr_new None 0) /\
  forallb fuel_free t_five = false /\
  forallb fuel_free [NRaw ["a"%byte]; NCond (mkCond ["x"%byte] ["1"%byte] false true OpEq [] [] LcNone) [NBlock BTrue no_case [NExit]]] = true.
Proof. vm_compute. repeat split. Qed.
