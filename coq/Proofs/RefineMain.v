(* The central refinement theorem: on the supported sub-language the interpreter model, run on
   the compiled tree, produces exactly what the reference semantics says. *)
From DT Require Import Model.Bytes Proofs.BytesFacts Model.Value Model.Tree Model.Mods Model.Interp
  Spec.Ast Spec.RefEval Spec.Compile Proofs.InterpFacts Proofs.FlatProofs Proofs.RefineBase
  Proofs.RefineCond Proofs.RefineList Proofs.RefineMods Proofs.RefineNodes Proofs.RefineLoops
  Proofs.RefineSafe.
Local Open Scope Z_scope.

(* [top]: the item sits in a template / for-else list (walked by run_nodes / else_with) rather
   than in a block.
   Excluded (each with a counterexample in RefineFindings):
   - a both-literal comparison with an else branch (if-else, ternary);
   - len()/cap() as the test of a case in a condition-less switch;
   - a stray case;
   - in a condition-less switch without default: a last case with an empty body whose test is an
     error (both literals / unknown helper): the parser drops the block, the test never runs;
   - an if-ok block with the negated form (!ok) whose flag variable is not a plain name (it is
     looked up again as a path);
   - {% ctx x = "" %};
   - a lazybreak directly inside a bound tag at template / for-else level. *)
(* items that compile to no node *)
Definition empty_item (a : ast) : bool :=
  match a with AText [] | AComment _ | ACase _ _ => true | _ => false end.
Definition body_empty (body : list ast) : bool := forallb empty_item body.
Definition is_case (a : ast) : bool := match a with ACase _ _ => true | _ => false end.

(* a condition whose evaluation cannot be an error *)
Definition quiet_cond (cnd : acond) : bool :=
  negb (senseless cnd) && match ac_helper cnd with [] => true | h => is_lc h || cond_known h end.

(* the parser leaves no node for the last case of a switch without default when its body is
   empty, so the test of that case is never evaluated: it must not be one that is an error *)
Fixpoint last_quiet_b (l : list ast) : bool :=
  match l with
  | [] => true
  | ACase cnd body :: r =>
    (negb (forallb (fun a => negb (is_case a)) r && body_empty body) || quiet_cond cnd) && last_quiet_b r
  | _ :: r => last_quiet_b r
  end.

Fixpoint wf_supported (top : bool) (a : ast) : bool :=
  match a with
  | AText _ | AComment _ | APrint _ _ _ _ _ _ => true
  | ATernary c _ _ => negb (senseless c)
  | AIf c th el he =>
    negb (he && senseless c) && forallb (wf_supported false) th && forallb (wf_supported false) el
  | AIfOK _ okv _ _ neg th el _ =>
    (negb neg || simple_name okv) && forallb (wf_supported false) th && forallb (wf_supported false) el
  | ASwitch arg cases dflt hd =>
    forallb (fun a => match a with
                      | ACase cnd body =>
                        (nonempty arg || negb (is_lc (ac_helper cnd))) && forallb (wf_supported false) body
                      | _ => true
                      end) cases
    && forallb (wf_supported false) dflt
    && (hd || nonempty arg || last_quiet_b cases)
  | ACase _ _ => false
  | ACLoop _ _ _ _ _ _ _ _ body els he =>
    forallb (wf_supported false) body && (negb he || forallb (wf_supported true) els)
  | ARLoop _ _ _ _ body els he =>
    forallb (wf_supported false) body && (negb he || forallb (wf_supported true) els)
  | ABreak _ _ _ _ | AContinue _ _ => true
  | ACtx _ src _ lit _ => if lit then nonempty src else true
  | ACounter _ _ _ _ => true
  | AInclude _ => true
  | AExit => true
  | ARegion _ body => forallb (wf_supported top) body && (negb top || forallb lazy_free body)
  end.

Section Main.
  Variable flits : list (bytes * Z).
  Variable lookup : list bytes -> option tree.
  Variable budget : nat.
  Variable inc : tree -> ctx -> option (ctx * bytes * option err).
  Variable rlookup : list bytes -> option (list ast).
  Variable rinc : list ast -> env -> option res.
  Notation wn := (write_node flits lookup budget inc).
  Notation rn := (run_nodes flits lookup budget inc).
  Notation re := (ref_eval flits rlookup budget rinc).
  Notation node_ref := (node_ref flits lookup budget inc rlookup rinc).
  Notation items_ok := (items_ok flits lookup budget inc rlookup rinc).

  (* the two worlds are connected: same registry, and includes render alike *)
  Hypothesis Hlookup : lookup_ok lookup rlookup.
  Hypothesis Hinc : forall L, inc_ok inc rlookup rinc L.

  Definition item_P (a : ast) : Prop :=
    (forall top L, wf_supported top a = true -> items_ok top L [a]) /\
    (forall cnd body, a = ACase cnd body ->
       forall L, forallb (wf_supported false) body = true -> items_ok false L body).

  Lemma all_items top L l :
    Forall item_P l -> forallb (wf_supported top) l = true -> items_ok top L l.
  Proof.
    intros H W. apply items_ok_all. rewrite forallb_forall in W. rewrite Forall_forall in *.
    intros a Hin. apply (proj1 (H a Hin)), W, Hin.
  Qed.

  (* ---- the dropped last block of a switch ---- *)

  Lemma compile_nil a : compile a = [] -> empty_item a = true.
  Proof.
    destruct a; try discriminate; try reflexivity.
    - destruct t; [reflexivity|discriminate].
    - cbn [compile]. destruct has_cond, lazy; discriminate.
    - cbn [compile]. destruct has_cond; discriminate.
  Qed.

  Lemma c_list_nil : forall body, c_list compile body = [] -> body_empty body = true.
  Proof.
    induction body as [|a body IH]; intros H; [reflexivity|]. cbn [c_list] in H.
    apply app_eq_nil in H. destruct H as [H1 H2]. cbn [body_empty forallb]. rewrite (compile_nil a H1). apply IH, H2.
  Qed.

  Lemma c_cases_nil cl : forall r, c_cases compile cl r = [] -> forallb (fun a => negb (is_case a)) r = true.
  Proof. induction r as [|a r IH]; intros H; [reflexivity|]. destruct a; try (apply IH, H). discriminate H. Qed.

  Lemma region_of_nil e : region_of e [] = [].
  Proof. unfold region_of. destruct (e_jq e), (e_he e), (e_ue e); reflexivity. Qed.

  Lemma empty_body_ref : forall body, forallb (wf_supported false) body = true -> body_empty body = true ->
    forall e, seq_with re body e [] false = ([], e, SNone).
  Proof.
    induction body as [|a body IH]; intros W B e; [reflexivity|].
    cbn [forallb body_empty] in W, B. apply andb_true_iff in W. apply andb_true_iff in B.
    destruct W as [W1 W2], B as [B1 B2]. cbn [seq_with].
    destruct a; try discriminate B1; try discriminate W1.
    - destruct t; [|discriminate B1]. cbn [ref_eval]. rewrite region_of_nil. cbn [app]. apply IH; assumption.
    - cbn [ref_eval app]. apply IH; assumption.
  Qed.

  Lemma quiet_cond_no_err cnd : quiet_cond cnd = true -> forall e x, ref_cond flits e cnd <> CErr x.
  Proof.
    unfold quiet_cond. intros Q e x E. apply andb_true_iff in Q. destruct Q as [Q1 Q2].
    destruct (ac_helper cnd) as [|h0 h] eqn:H.
    - destruct (ref_cond_err_cases _ _ _ _ E) as [[_ S]|[X S]]; [rewrite S in Q1; discriminate Q1|].
      rewrite ref_cond_plain in E by exact H. unfold plain_ref in E.
      unfold senseless in S. rewrite H in S. rewrite S in E.
      destruct (ac_rlit cnd); [exact (cmp_path_not_err _ _ _ _ _ _ E)|].
      destruct (ac_llit cnd); [exact (cmp_path_not_err _ _ _ _ _ _ E)|].
      destruct (env_get _ _); [|discriminate E]. destruct (text_of _ _); [|discriminate E].
      exact (cmp_path_not_err _ _ _ _ _ _ E).
    - assert (NE : ac_helper cnd <> []) by (rewrite H; discriminate). rewrite <- H in Q2.
      destruct (is_lc (ac_helper cnd)) eqn:L.
      + rewrite ref_cond_lc in E by assumption. destruct (e_qb e); [discriminate E|].
        unfold lc_ref in E. destruct (split_dot _); [discriminate E|]. destruct (env_find _ _); [|discriminate E].
        destruct (leaf_len _); [discriminate E|]. destruct (en_static _); discriminate E.
      + rewrite ref_cond_helper in E by assumption. cbn [orb] in Q2. rewrite Q2 in E.
        destruct (env_get _ _); discriminate E.
  Qed.

  Lemma last_quiet_from_wf arg hd : forall cases,
    forallb (fun a => match a with
                      | ACase cnd body =>
                        (nonempty arg || negb (is_lc (ac_helper cnd))) && forallb (wf_supported false) body
                      | _ => true
                      end) cases = true ->
    (hd || nonempty arg || last_quiet_b cases) = true -> hd = false ->
    last_quiet flits budget rlookup rinc (switch_test flits arg) (match arg with [] => false | _ => true end) cases.
  Proof.
    intros cases W Q ->. cbn [orb] in Q.
    induction cases as [|a cases IH]; [exact I|].
    cbn [forallb] in W. apply andb_true_iff in W. destruct W as [Wa Wl].
    assert (Q' : (nonempty arg || last_quiet_b cases) = true).
    { destruct (nonempty arg); [reflexivity|]. cbn [orb] in *. destruct a; try exact Q.
      cbn [last_quiet_b] in Q. apply andb_true_iff in Q. exact (proj2 Q). }
    destruct a; try (exact (IH Wl Q')). cbn [last_quiet]. split; [|exact (IH Wl Q')].
    intros CC EB. apply andb_true_iff in Wa. destruct Wa as [_ Wb].
    pose proof (c_list_nil body (merge_raws_nil _ EB)) as BE.
    split; [|apply empty_body_ref; assumption].
    destruct arg as [|a0 ar]; cbn [switch_test].
    - cbn [nonempty orb last_quiet_b] in Q. apply andb_true_iff in Q. destruct Q as [Q1 _].
      rewrite (c_cases_nil _ _ CC), BE in Q1. cbn [andb negb orb] in Q1. intros e x. apply quiet_cond_no_err, Q1.
    - intros e x. apply classic_test_not_err.
  Qed.

  Theorem items_refine : forall a, item_P a.
  Proof.
    apply (ast_ind' item_P); intros; (split; [intros top L W|intros cnd0 body0 E0 L0 W0; try discriminate E0]).
    - apply item_ok_text.
    - apply item_ok_skip; reflexivity.
    - apply print_item_ok.
    - cbn [wf_supported] in W. eapply item_ok_node; [reflexivity|reflexivity|].
      apply ternary_ref. destruct (senseless c); [discriminate W|reflexivity].
    - cbn [wf_supported] in W. apply andb_true_iff in W. destruct W as [W W3].
      apply andb_true_iff in W. destruct W as [W1 W2].
      eapply item_ok_node; [reflexivity|reflexivity|].
      apply if_ref; [apply all_items; assumption|apply all_items; assumption|].
      destruct (he && senseless c); [discriminate W1|reflexivity].
    - cbn [wf_supported] in W. apply andb_true_iff in W. destruct W as [W W3].
      apply andb_true_iff in W. destruct W as [W1 W2].
      eapply item_ok_node; [reflexivity|reflexivity|].
      apply ifok_ref; [apply all_items; assumption|apply all_items; assumption|].
      intros ->. exact W1.
    - cbn [wf_supported] in W. apply andb_true_iff in W. destruct W as [W W3].
      apply andb_true_iff in W. destruct W as [W1 W2].
      eapply item_ok_node; [reflexivity|reflexivity|].
      apply switch_ref; [|apply all_items; assumption|].
      2:{ unfold switch_tail_ok. destruct hd eqn:HD.
          - intros ED e. apply empty_body_ref; [exact W2|]. apply c_list_nil, merge_raws_nil, ED.
          - apply (last_quiet_from_wf arg false cases W1 W3 eq_refl). }
      clear - H W1. induction H as [|a l Ha _ IH]; [constructor|].
      cbn [forallb] in W1. apply andb_true_iff in W1. destruct W1 as [Wa Wl].
      constructor; [|apply IH, Wl]. destruct a; try exact I.
      apply andb_true_iff in Wa. destruct Wa as [Wa1 Wa2]. split.
      + intros ->. cbn [nonempty orb] in Wa1. destruct (is_lc (ac_helper c)); [discriminate Wa1|reflexivity].
      + destruct Ha as [_ Ha]. eapply Ha; [reflexivity|exact Wa2].
    - discriminate W.
    - inversion E0; subst. apply all_items; assumption.
    - cbn [wf_supported] in W. apply andb_true_iff in W. destruct W as [W1 W2].
      eapply item_ok_node; [reflexivity|reflexivity|].
      apply cloop_node_ref.
      + intros idx. apply all_items; [assumption|exact W1].
      + intros ->. cbn [negb orb] in W2. apply all_items; assumption.
    - cbn [wf_supported] in W. apply andb_true_iff in W. destruct W as [W1 W2].
      eapply item_ok_node; [reflexivity|reflexivity|].
      apply rloop_node_ref.
      + apply all_items; assumption.
      + intros ->. cbn [negb orb] in W2. apply all_items; assumption.
    - destruct hc.
      + eapply item_ok_node; [reflexivity|reflexivity|]. apply break_if_ref.
      + eapply item_ok_node; [reflexivity|destruct lz; reflexivity|]. apply break_ref.
    - destruct hc.
      + eapply item_ok_node; [reflexivity|reflexivity|]. apply continue_if_ref.
      + eapply item_ok_node; [reflexivity|reflexivity|]. apply continue_ref.
    - cbn [wf_supported] in W. eapply item_ok_node; [reflexivity|reflexivity|].
      apply ctx_ref. intros ->. destruct src; [discriminate W|discriminate].
    - eapply item_ok_node; [reflexivity|reflexivity|]. apply counter_ref.
    - eapply item_ok_node; [reflexivity|reflexivity|]. apply include_ref; [exact Hlookup|apply Hinc].
    - eapply item_ok_node; [reflexivity|reflexivity|]. apply exit_ref.
    - cbn [wf_supported] in W. apply andb_true_iff in W. destruct W as [W1 W2].
      apply item_ok_region; [apply all_items; assumption|].
      intros ->. cbn [negb orb] in W2. intros e acc. apply lazy_free_no_lazy, W2.
  Qed.

  (* ---------------------------------------------------------------- the statements *)

  (* one item as a template of its own *)
  Definition refines (L : list (nat * bytes)) (a : ast) : Prop :=
    forall c w, Inv L c -> w_fail w = None ->
    forall o e' s, re a (abs c) = (o, e', s) -> sig_dom s ->
    exists c' w' eo, rn (compile_tpl [a]) c w = Out c' w' eo /\
                     wr_bytes w' = wr_bytes w ++ o /\ w_fail w' = None /\
                     post L s c' e' /\ sig_rel s eo.

  Theorem interp_refines_ref : forall a L, wf_supported true a = true -> refines L a.
  Proof.
    intros a L W c w HI Hw o e' s E D.
    apply (tpl_ref flits lookup budget inc rlookup rinc L [a] (proj1 (items_refine a) true L W) c w HI Hw); [|exact D].
    unfold ref_items. cbn [top_with]. rewrite E. destruct s; cbn [app]; reflexivity.
  Qed.

  (* a whole template *)
  Theorem tpl_refines_ref : forall items L,
    forallb (wf_supported true) items = true ->
    forall c w, Inv L c -> w_fail w = None ->
    forall o e' s, ref_items flits rlookup budget rinc items (abs c) = (o, e', s) -> sig_dom s ->
    exists c' w' eo, rn (compile_tpl items) c w = Out c' w' eo /\
                     wr_bytes w' = wr_bytes w ++ o /\ w_fail w' = None /\
                     post L s c' e' /\ sig_rel s eo.
  Proof.
    intros items L W. apply tpl_ref. apply all_items; [|exact W].
    apply Forall_forall. intros a _. apply items_refine.
  Qed.

  (* the node of a single-node construct *)
  Lemma gwalk_single n c w : gwalk flits lookup budget inc false [n] c w false = wn n c w.
  Proof.
    cbn [gwalk]. destruct (wn n c w) as [c1 w1 [x|]| |]; try reflexivity. destruct x; reflexivity.
  Qed.

  Lemma gseq_single a e : gseq re false [a] e [] false = re a e.
  Proof. cbn [gseq]. destruct (re a e) as [[o e1] s]. destruct s; reflexivity. Qed.

  Theorem node_refines_ref : forall a n L,
    compile a = [n] -> is_raw n = false -> wf_supported false a = true -> node_ref L n a.
  Proof.
    intros a n L Hc Hn W c w HI Hw o e' s E D.
    pose proof (proj1 (items_refine a) false L W) as H.
    pose proof (items_run flits lookup budget inc rlookup rinc false L [a] H c w false HI Hw (fun X => eq_refl) o e' s) as R.
    rewrite gseq_single in R. cbn [c_list] in R. rewrite Hc in R. cbn [app] in R.
    rewrite (merge_raws_nonraw n [] Hn) in R. cbn [merge_raws] in R. rewrite gwalk_single in R.
    exact (R E D).
  Qed.
End Main.
