From Coq Require Import List Arith Lia.
Import ListNotations.
From DT Require Import Model.Alloc.

Lemma demand_cap_mono n s : s_cap s <= s_cap (demand n s).
Proof. unfold demand. destruct (Nat.leb n (s_cap s)) eqn:E; cbn; [lia|]. apply Nat.leb_gt in E. lia. Qed.

Lemma demand_covers n s : n <= s_cap (demand n s).
Proof. unfold demand. destruct (Nat.leb n (s_cap s)) eqn:E; cbn; [apply Nat.leb_le in E; lia|lia]. Qed.

Lemma run_cap_mono d : forall s, s_cap s <= s_cap (run d s).
Proof.
  induction d as [|n d IH]; intros s; cbn; [lia|].
  unfold run in *. cbn. specialize (IH (demand n s)). pose proof (demand_cap_mono n s). lia.
Qed.

Lemma run_covers d : forall s n, In n d -> n <= s_cap (run d s).
Proof.
  induction d as [|m d IH]; intros s n H; [contradiction|].
  unfold run in *. cbn. destruct H as [->|H].
  - pose proof (run_cap_mono d (demand n s)). unfold run in *. pose proof (demand_covers n s). lia.
  - apply IH, H.
Qed.

(* with enough capacity for every demand of the list, the list causes no growth *)
Lemma run_no_growth d : forall s, (forall n, In n d -> n <= s_cap s) -> s_grows (run d s) = s_grows s /\ s_cap (run d s) = s_cap s.
Proof.
  induction d as [|m d IH]; intros s H; [split; reflexivity|].
  unfold run in *. cbn.
  assert (Hm : m <= s_cap s) by (apply H; left; reflexivity).
  assert (E : demand m s = mkStore (Nat.max (s_len s) m) (s_cap s) (s_grows s)).
  { unfold demand. apply Nat.leb_le in Hm. rewrite Hm. reflexivity. }
  rewrite E. destruct (IH (mkStore (Nat.max (s_len s) m) (s_cap s) (s_grows s))) as [G C].
  - intros n Hn. cbn. apply H. right. exact Hn.
  - cbn in *. split; assumption.
Qed.

(* the second identical run on the reset store takes no growth branch *)
Theorem second_run_no_growth d s :
  let s1 := run d s in
  s_grows (run d (reset s1)) = s_grows s1 /\ s_cap (run d (reset s1)) = s_cap s1.
Proof.
  intros s1. destruct (run_no_growth d (reset s1)) as [G C].
  - intros n Hn. cbn. apply run_covers, Hn.
  - cbn in *. split; assumption.
Qed.

(* ... and neither does any run whose demands stay below the first run's (shorter loops, fewer variables) *)
Theorem smaller_run_no_growth d d' s :
  (forall n', In n' d' -> exists n, In n d /\ n' <= n) ->
  s_grows (run d' (reset (run d s))) = s_grows (run d s).
Proof.
  intros H. destruct (run_no_growth d' (reset (run d s))) as [G _].
  - intros n' Hn'. destruct (H n' Hn') as (n & Hn & Hle). cbn. pose proof (run_covers d s n Hn). lia.
  - exact G.
Qed.
