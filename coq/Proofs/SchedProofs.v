From Coq Require Import List Arith Bool Lia.
Import ListNotations.
From DT Require Import Model.Sched.

Lemma exec_app a b g : exec (a ++ b) g = exec b (exec a g).
Proof. unfold exec. apply fold_left_app. Qed.

(* the registry after a schedule binds n to the last Set of n *)
Lemma reg_is_last_set sched : forall g n,
  assoc_nat n (reg (exec sched g)) = last_set n sched (assoc_nat n (reg g)).
Proof.
  induction sched as [|s sched IH]; intros g n; [reflexivity|].
  unfold exec in *. cbn [fold_left last_set].
  destruct s as [t m|t|t|m v]; cbn [exec1].
  - rewrite IH. reflexivity.
  - rewrite IH. reflexivity.
  - destruct (assoc_nat t (held g)); rewrite IH; reflexivity.
  - rewrite IH. cbn [reg assoc_nat]. destruct (Nat.eqb m n); reflexivity.
Qed.

(* what a renderer holds is never changed by anybody else's steps *)
Lemma held_stable sched : forall g t v,
  assoc_nat t (held g) = Some v ->
  (forall n, ~ In (Lookup t n) sched) ->
  assoc_nat t (held (exec sched g)) = Some v.
Proof.
  induction sched as [|s sched IH]; intros g t v H Hn; [exact H|].
  unfold exec in *. cbn [fold_left].
  apply IH.
  - destruct s as [t' m|t'|t'|m v']; cbn [exec1 held].
    + cbn [assoc_nat]. destruct (Nat.eqb t' t) eqn:E; [|exact H].
      apply Nat.eqb_eq in E. subst t'. exfalso. apply (Hn m). left. reflexivity.
    + exact H.
    + destruct (assoc_nat t' (held g)); exact H.
    + exact H.
  - intros n Hin. apply (Hn n). right. exact Hin.
Qed.

(* main theorem: in EVERY interleaving, a render that looked its template up after the schedule
   prefix [pre] and finished after [mid] (during which it did no second lookup) rendered exactly
   the version published by the last Set of its name in [pre] — whatever other renderers and
   writers did in between, including re-registrations of the same name during [mid]. *)
Theorem render_is_version_at_lookup pre mid t n :
  (forall m, ~ In (Lookup t m) mid) ->
  In (t, last_set n pre None) (done (exec (pre ++ Lookup t n :: mid ++ [Finish t]) g0)).
Proof.
  intros Hmid.
  rewrite exec_app. cbn [exec fold_left].
  change (fold_left exec1 (mid ++ [Finish t]) (exec1 (exec pre g0) (Lookup t n))) with (exec (mid ++ [Finish t]) (exec1 (exec pre g0) (Lookup t n))).
  rewrite exec_app. set (g1 := exec1 (exec pre g0) (Lookup t n)).
  assert (H1 : assoc_nat t (held g1) = Some (last_set n pre None)).
  { unfold g1. cbn [exec1 held assoc_nat]. rewrite Nat.eqb_refl. f_equal. rewrite reg_is_last_set. reflexivity. }
  pose proof (held_stable mid g1 t _ H1 Hmid) as H2.
  unfold exec at 1. cbn [fold_left exec1]. rewrite H2. cbn [done]. left. reflexivity.
Qed.

(* once a Set has been executed, every later lookup sees it (or a later one): never an older version *)
Theorem lookup_after_set_sees_it pre mid n v :
  (forall v', ~ In (Set_ n v') mid) ->
  last_set n (pre ++ Set_ n v :: mid) None = Some v.
Proof.
  intros H. assert (G : forall s acc, last_set n (s ++ Set_ n v :: mid) acc = Some v).
  { induction s as [|x s IH]; intros acc.
    - cbn [app last_set]. rewrite Nat.eqb_refl. clear - H. revert H. generalize (Some v) as a.
      induction mid as [|y mid IHm]; intros a H; [reflexivity|].
      destruct y as [t m|t|t|m w]; cbn [last_set]; try (apply IHm; intros v' Hin; apply (H v'); right; exact Hin).
      destruct (Nat.eqb m n) eqn:E.
      + apply Nat.eqb_eq in E. subst m. exfalso. apply (H w). left. reflexivity.
      + apply IHm. intros v' Hin. apply (H v'). right. exact Hin.
    - destruct x; cbn [app last_set]; apply IH. }
  apply G.
Qed.

(* results are only ever versions that were actually published for that name (never a mixture) *)
Theorem result_was_published sched : forall n acc v,
  last_set n sched acc = Some v -> acc = Some v \/ In (Set_ n v) sched.
Proof.
  induction sched as [|s sched IH]; intros n acc v H; [left; exact H|].
  destruct s as [t m|t|t|m w]; cbn [last_set] in H; try (destruct (IH _ _ _ H) as [G|G]; [left; exact G|right; right; exact G]).
  destruct (Nat.eqb m n) eqn:E.
  - destruct (IH _ _ _ H) as [G|G]; [|right; right; exact G].
    inversion G; subst. apply Nat.eqb_eq in E. subst m. right. left. reflexivity.
  - destruct (IH _ _ _ H) as [G|G]; [left; exact G|right; right; exact G].
Qed.
