(* Lists of items against lists of nodes.  The four list walkers of the interpreter
   (run_nodes, walk_with, body_with, else_with) are instances of one walker [gwalk], the two
   of the reference semantics (top_with, seq_with) of [gseq].  An item list refines its
   compilation *in continuation form* ([items_ok]): static text that has not been written yet
   travels as a pending raw node, which is how [merge_raws] glues adjacent text across items
   (and across the flag nodes of bound tags, which are spliced into the parent list). *)
From DT Require Import Model.Bytes Proofs.BytesFacts Model.Value Model.Tree Model.Mods Model.Interp
  Spec.Ast Spec.RefEval Spec.Compile Proofs.InterpFacts Proofs.FlatProofs Proofs.RefineBase.
Local Open Scope Z_scope.

(* ------------------------------------------------------------------ pending raw text *)

Definition is_raw (n : node) : bool := match n with NRaw _ => true | _ => false end.

Definition mr (pend : option bytes) (l : list node) : list node :=
  match pend with None => merge_raws l | Some p => merge_raws (NRaw p :: l) end.

Definition flush (pend : option bytes) : list node :=
  match pend with None => [] | Some p => [NRaw p] end.

Definition ptext (c : ctx) (pend : option bytes) : bytes :=
  match pend with None => [] | Some p => region_text c p end.

Definition pend_app (pend : option bytes) (t : bytes) : bytes :=
  match pend with None => t | Some p => p ++ t end.

Lemma merge_raws_nonraw n l : is_raw n = false -> merge_raws (n :: l) = n :: merge_raws l.
Proof. destruct n; try reflexivity. discriminate. Qed.

Lemma merge_raws_two a b l : merge_raws (NRaw a :: NRaw b :: l) = merge_raws (NRaw (a ++ b) :: l).
Proof.
  cbn [merge_raws]. destruct (merge_raws l) as [|m r']; [reflexivity|].
  destruct m; try reflexivity. rewrite app_assoc. reflexivity.
Qed.

Lemma mr_raw pend t l : mr pend (NRaw t :: l) = mr (Some (pend_app pend t)) l.
Proof. destruct pend as [p|]; [apply merge_raws_two|reflexivity]. Qed.

Lemma mr_nonraw pend n l : is_raw n = false -> mr pend (n :: l) = flush pend ++ n :: merge_raws l.
Proof.
  intros H. destruct pend as [p|]; cbn [mr flush app]; [|apply merge_raws_nonraw, H].
  destruct n; try reflexivity. discriminate.
Qed.

Lemma mr_nil pend : mr pend [] = flush pend.
Proof. destruct pend; reflexivity. Qed.

Lemma ptext_app c pend t : ptext c (Some (pend_app pend t)) = ptext c pend ++ region_text c t.
Proof. destruct pend as [p|]; cbn [ptext pend_app app]; [apply region_text_app|reflexivity]. Qed.

Lemma ptext_ceq c1 c pend : ceq c1 c -> ptext c1 pend = ptext c pend.
Proof.
  intros (_&_&_&A&B&C&_). destruct pend as [p|]; [|reflexivity]. cbn [ptext]. unfold region_text.
  rewrite A, B, C. reflexivity.
Qed.

(* ------------------------------------------------------------------ reference lists *)

Section RefLists.
  Variable f : ast -> env -> res.

  Fixpoint gseq (top : bool) (l : list ast) (e : env) (acc : bytes) (lz : bool) : res :=
    match l with
    | [] => (acc, e, if lz then SLazy else SNone)
    | a :: r =>
      let '(o, e1, s) := f a e in
      match s with
      | SNone => gseq top r e1 (acc ++ o) lz
      | SLazy => if top then (acc ++ o, e1, SLazy) else gseq top r e1 (acc ++ o) true
      | SCont => (acc ++ o, e1, if lz then SBrk else SCont)
      | x => (acc ++ o, e1, x)
      end
    end.

  Lemma seq_with_gseq : forall l e acc lz, seq_with f l e acc lz = gseq false l e acc lz.
  Proof.
    induction l as [|a l IH]; intros e acc lz; [reflexivity|].
    cbn [seq_with gseq]. destruct (f a e) as [[o e1] s]. destruct s; try reflexivity; apply IH.
  Qed.

  Lemma top_with_gseq : forall l e acc, top_with f l e acc = gseq true l e acc false.
  Proof.
    induction l as [|a l IH]; intros e acc; [reflexivity|].
    cbn [top_with gseq]. destruct (f a e) as [[o e1] s]. destruct s; try reflexivity; apply IH.
  Qed.

  Lemma gseq_acc top : forall l e acc lz,
    gseq top l e acc lz = let '(o, e1, s) := gseq top l e [] lz in (acc ++ o, e1, s).
  Proof.
    induction l as [|a l IH]; intros e acc lz.
    - cbn. rewrite app_nil_r. reflexivity.
    - cbn [gseq]. destruct (f a e) as [[o e1] s].
      destruct s; cbn [app]; try reflexivity;
        try (rewrite (IH e1 (acc ++ o)), (IH e1 o);
             destruct (gseq top l e1 [] _) as [[o2 e2] s2]; rewrite app_assoc; reflexivity).
      destruct top; [reflexivity|].
      rewrite (IH e1 (acc ++ o)), (IH e1 o).
      destruct (gseq false l e1 [] true) as [[o2 e2] s2]. rewrite app_assoc. reflexivity.
  Qed.

  (* does a walk go on after a result, and how lazily *)
  Definition goes_on (top : bool) (s : sig) : option bool :=
    match s with
    | SNone => Some false
    | SLazy => if top then None else Some true
    | _ => None
    end.

  Lemma gseq_app top : forall l1 l2 e acc lz,
    (top = true -> lz = false) ->
    gseq top (l1 ++ l2) e acc lz =
    let '(o, e1, s) := gseq top l1 e acc lz in
    match goes_on top s with
    | Some lz' => gseq top l2 e1 o lz'
    | None => (o, e1, s)
    end.
  Proof.
    induction l1 as [|a l1 IH]; intros l2 e acc lz Htop.
    - cbn [app gseq]. destruct lz; cbn [goes_on].
      + destruct top; [specialize (Htop eq_refl); discriminate|reflexivity].
      + reflexivity.
    - cbn [app gseq]. destruct (f a e) as [[o e1] s].
      destruct s; try reflexivity; try (apply IH; exact Htop).
      + destruct top; [reflexivity|]. apply IH. discriminate.
      + destruct lz; reflexivity.
  Qed.

  (* a walk that starts lazily: the same walk, with the end and a continue read accordingly *)
  Definition lz_sig (s : sig) : sig := match s with SNone => SLazy | SCont => SBrk | x => x end.

  Lemma gseq_lz : forall l e acc,
    gseq false l e acc true = let '(o, e1, s) := gseq false l e acc false in (o, e1, lz_sig s).
  Proof.
    induction l as [|a l IH]; intros e acc; [reflexivity|].
    cbn [gseq]. destruct (f a e) as [[o e1] s]. destruct s; try reflexivity; try apply IH.
    rewrite IH. destruct (gseq false l e1 (acc ++ o) false) as [[o2 e2] s2]. destruct s2; reflexivity.
  Qed.
End RefLists.

Lemma abs_set_flag f x c : abs (set_flag f x c) = set_eflag f x (abs c).
Proof. destruct f; reflexivity. Qed.

Lemma Inv_set_flag L f x c : Inv L c -> Inv L (set_flag f x c).
Proof. destruct f; exact (fun H => H). Qed.

(* ------------------------------------------------------------------ interpreter lists *)

Section Lists.
  Variable flits : list (bytes * Z).
  Variable lookup : list bytes -> option tree.
  Variable budget : nat.
  Variable inc : tree -> ctx -> option (ctx * bytes * option err).
  Variable rlookup : list bytes -> option (list ast).
  Variable rinc : list ast -> env -> option res.
  Notation wn := (write_node flits lookup budget inc).
  Notation rn := (run_nodes flits lookup budget inc).
  Notation re := (ref_eval flits rlookup budget rinc).

  Fixpoint gwalk (top : bool) (l : list node) (c : ctx) (w : wr) (lazy : bool) : outcome :=
    match l with
    | [] => Out c w (if lazy then Some ELBreak else None)
    | ch :: r =>
      match wn ch c w with
      | Out c1 w1 None => gwalk top r c1 w1 lazy
      | Out c1 w1 (Some ELBreak) => if top then Out c1 w1 (Some ELBreak) else gwalk top r c1 w1 true
      | Out c1 w1 (Some ECont) => Out c1 w1 (Some (if lazy then EBreak else ECont))
      | o => o
      end
    end.

  Lemma run_nodes_gwalk : forall l c w, rn l c w = gwalk true l c w false.
  Proof.
    induction l as [|n l IH]; intros c w; [reflexivity|].
    cbn [run_nodes gwalk]. destruct (wn n c w) as [c1 w1 [e|]| |]; try reflexivity; [|apply IH].
    destruct e; reflexivity.
  Qed.

  Lemma walk_with_gwalk : forall l c w lazy, walk_with wn l c w lazy = gwalk false l c w lazy.
  Proof.
    induction l as [|n l IH]; intros c w lazy; [reflexivity|].
    cbn [walk_with gwalk]. destruct (wn n c w) as [c1 w1 [e|]| |]; try reflexivity; [|apply IH].
    destruct e; try reflexivity. apply IH.
  Qed.

  (* writing the pending text *)
  Lemma gwalk_flush top pend c w :
    w_fail w = None ->
    exists c1 w1, ceq c1 c /\ wr_bytes w1 = wr_bytes w ++ ptext c pend /\ w_fail w1 = None /\
      forall rest lazy, gwalk top (flush pend ++ rest) c w lazy = gwalk top rest c1 w1 lazy.
  Proof.
    intros Hw. destruct pend as [p|].
    - destruct (write_raw_healthy (set_cerr None c) w p Hw) as (w1 & E1 & B1 & F1).
      exists (set_cerr None c), w1. split; [apply ceq_cerr|]. split; [exact B1|]. split; [exact F1|].
      intros rest lazy. cbn [flush app gwalk write_node]. rewrite E1. reflexivity.
    - exists c, w. split; [apply ceq_refl|]. split; [cbn [ptext]; rewrite app_nil_r; reflexivity|].
      split; [exact Hw|]. reflexivity.
  Qed.

  (* ---------------------------------------------------------------- the statements *)

  (* one node against one item *)
  Definition node_ref (L : list (nat * bytes)) (n : node) (a : ast) : Prop :=
    forall c w, Inv L c -> w_fail w = None ->
    forall o e' s, re a (abs c) = (o, e', s) -> sig_dom s ->
    exists c' w' eo, wn n c w = Out c' w' eo /\ wr_bytes w' = wr_bytes w ++ o /\ w_fail w' = None /\
                     post L s c' e' /\ sig_rel s eo.

  (* a list of items, in continuation form *)
  Definition items_ok (top : bool) (L : list (nat * bytes)) (items : list ast) : Prop :=
    forall tl pend c w lazy, Inv L c -> w_fail w = None -> (top = true -> lazy = false) ->
    forall o e' s, gseq re top items (abs c) [] lazy = (o, e', s) -> sig_dom s ->
    match (match s with SNone => Some false | SLazy => if top then None else Some true | _ => None end) with
    | Some lz' =>
      exists c' w' pend',
        gwalk top (mr pend (c_list compile items ++ tl)) c w lazy = gwalk top (mr pend' tl) c' w' lz' /\
        wr_bytes w' ++ ptext c' pend' = wr_bytes w ++ ptext c pend ++ o /\ w_fail w' = None /\
        abs c' = e' /\ Inv L c'
    | None =>
      exists c' w' eo,
        gwalk top (mr pend (c_list compile items ++ tl)) c w lazy = Out c' w' eo /\
        wr_bytes w' = wr_bytes w ++ ptext c pend ++ o /\ w_fail w' = None /\
        post L s c' e' /\ sig_rel s eo
    end.

  Lemma items_ok_nil top L : items_ok top L [].
  Proof.
    intros tl pend c w lazy HI Hw Htop o e' s E D. cbn [gseq] in E.
    destruct lazy.
    - destruct top; [specialize (Htop eq_refl); discriminate|].
      inversion E; subst. exists c, w, pend. cbn [c_list app]. rewrite app_nil_r. splits; done.
    - inversion E; subst. exists c, w, pend. cbn [c_list app]. rewrite app_nil_r. splits; done.
  Qed.

  (* composition *)
  Lemma items_ok_app top L l1 l2 : items_ok top L l1 -> items_ok top L l2 -> items_ok top L (l1 ++ l2).
  Proof.
    intros H1 H2 tl pend c w lazy HI Hw Htop o e' s E D.
    rewrite gseq_app in E by exact Htop.
    destruct (gseq re top l1 (abs c) [] lazy) as [[o1 e1] s1] eqn:E1.
    assert (CL : c_list compile (l1 ++ l2) ++ tl = c_list compile l1 ++ (c_list compile l2 ++ tl)).
    { clear. induction l1 as [|a l1 IH]; [reflexivity|]. cbn [app c_list]. rewrite <- !app_assoc. f_equal. exact IH. }
    rewrite CL.
    destruct (goes_on top s1) as [lz1|] eqn:G.
    - (* the first part runs to its end *)
      assert (D1 : sig_dom s1) by (destruct s1; try discriminate G; exact I).
      specialize (H1 (c_list compile l2 ++ tl) pend c w lazy HI Hw Htop o1 e1 s1 E1 D1).
      assert (M : (match s1 with SNone => Some false | SLazy => if top then None else Some true | _ => None end) = Some lz1)
        by exact G.
      rewrite M in H1. destruct H1 as (c1 & w1 & pend1 & W1 & B1 & F1 & A1 & I1).
      rewrite gseq_acc in E. subst e1.
      destruct (gseq re top l2 (abs c1) [] lz1) as [[o2 e2] s2] eqn:E2.
      inversion E; subst o e' s. clear E.
      assert (Htop1 : top = true -> lz1 = false).
      { intros T. subst top. destruct s1; try discriminate G. inversion G. reflexivity. }
      specialize (H2 tl pend1 c1 w1 lz1 I1 F1 Htop1 o2 e2 s2 E2 D).
      rewrite W1.
      destruct (match s2 with SNone => Some false | SLazy => if top then None else Some true | _ => None end) as [lz2|].
      + destruct H2 as (c2 & w2 & pend2 & W2 & B2 & F2 & A2 & I2).
        exists c2, w2, pend2. split; [exact W2|]. split; [|splits; done].
        rewrite B2. rewrite app_assoc, B1, <- !app_assoc. reflexivity.
      + destruct H2 as (c2 & w2 & eo & W2 & B2 & F2 & P2 & S2).
        exists c2, w2, eo. split; [exact W2|]. split; [|splits; done].
        rewrite B2. rewrite app_assoc, B1, <- !app_assoc. reflexivity.
    - (* the first part stops *)
      inversion E; subst o1 e1 s1. clear E.
      specialize (H1 (c_list compile l2 ++ tl) pend c w lazy HI Hw Htop o e' s E1 D).
      assert (M : (match s with SNone => Some false | SLazy => if top then None else Some true | _ => None end) = None)
        by exact G.
      rewrite M in H1 |- *. exact H1.
  Qed.

  Lemma items_ok_all top L items : Forall (fun a => items_ok top L [a]) items -> items_ok top L items.
  Proof.
    induction 1 as [|a items Ha _ IH]; [apply items_ok_nil|].
    change (a :: items) with ([a] ++ items). apply items_ok_app; assumption.
  Qed.

  (* ---------------------------------------------------------------- single items *)

  (* an item that compiles to nothing and does nothing *)
  Lemma item_ok_skip top L a :
    compile a = [] -> (forall e, re a e = ([], e, SNone)) -> items_ok top L [a].
  Proof.
    intros Hc Hr tl pend c w lazy HI Hw Htop o e' s E D.
    cbn [gseq] in E. rewrite Hr in E. cbn [c_list]. rewrite Hc. cbn [app].
    destruct lazy.
    - destruct top; [specialize (Htop eq_refl); discriminate|].
      inversion E; subst. exists c, w, pend. rewrite app_nil_r. splits; done.
    - inversion E; subst. exists c, w, pend. rewrite app_nil_r. splits; done.
  Qed.

  (* static text joins the pending text *)
  Lemma item_ok_text top L t : items_ok top L [AText t].
  Proof.
    destruct t as [|b t].
    { apply item_ok_skip; [reflexivity|]. intros e. cbn [ref_eval]. unfold region_of.
      destruct (e_jq e), (e_he e), (e_ue e); reflexivity. }
    intros tl pend c w lazy HI Hw Htop o e' s E D.
    cbn [gseq ref_eval] in E. cbn [c_list compile app]. rewrite mr_raw. rewrite region_of_abs in E.
    destruct lazy.
    - destruct top; [specialize (Htop eq_refl); discriminate|].
      inversion E; subst. eexists c, w, _. split; [reflexivity|]. rewrite ptext_app. cbn [app].
      splits; done.
    - inversion E; subst. eexists c, w, _. split; [reflexivity|]. rewrite ptext_app. cbn [app].
      splits; done.
  Qed.

  (* an item that compiles to one node which is not static text *)
  Lemma item_ok_node top L n a :
    compile a = [n] -> is_raw n = false -> node_ref L n a -> items_ok top L [a].
  Proof.
    intros Hc Hn Hr tl pend c w lazy HI Hw Htop o e' s E D.
    cbn [gseq] in E. cbn [c_list]. rewrite Hc. cbn [app]. rewrite (mr_nonraw pend n tl Hn).
    destruct (gwalk_flush top pend c w Hw) as (c1 & w1 & Q1 & B1 & F1 & G1). rewrite G1.
    pose proof (ceq_Inv L c1 c Q1 HI) as I1.
    destruct (re a (abs c)) as [[o1 e1] s1] eqn:R.
    rewrite <- (ceq_abs c1 c Q1) in R.
    assert (D1 : sig_dom s1).
    { destruct s1; try exact I; inversion E; subst; exact D. }
    destruct (Hr c1 w1 I1 F1 o1 e1 s1 R D1) as (c' & w' & eo & W & B & F & P & S).
    cbn [gwalk]. rewrite W.
    assert (BB : wr_bytes w' = wr_bytes w ++ ptext c pend ++ o1) by (rewrite B, B1, <- app_assoc; reflexivity).
    destruct s1; cbn [sig_rel post] in S, P; try subst eo; try destruct P as [A I'].
    - (* SNone *)
      cbn [app] in E. destruct lazy.
      + destruct top; [specialize (Htop eq_refl); discriminate|].
        inversion E; subst. exists c', w', None. cbn [mr ptext]. rewrite app_nil_r. splits; done.
      + inversion E; subst. exists c', w', None. cbn [mr ptext]. rewrite app_nil_r. splits; done.
    - (* SBrk *)
      inversion E; subst. exists c', w', (Some EBreak). splits; done.
    - (* SLazy *)
      destruct top.
      + inversion E; subst. exists c', w', (Some ELBreak). splits; done.
      + cbn [app gseq] in E. inversion E; subst. exists c', w', None. cbn [mr ptext]. rewrite app_nil_r.
        splits; done.
    - (* SCont *)
      inversion E; subst. destruct lazy.
      + exists c', w', (Some EBreak). splits; done.
      + exists c', w', (Some ECont). splits; done.
    - (* SExit *)
      inversion E; subst. exists c', w', (Some EInterrupt). splits; done.
    - (* SErr *)
      inversion E; subst. cbn [sig_dom] in D.
      exists c', w', (Some e). split; [destruct e; try reflexivity; discriminate D|]. splits; done.
    - contradiction.
  Qed.

  (* ---------------------------------------------------------------- closing a list *)

  Lemma items_run top L items :
    items_ok top L items ->
    forall c w lazy, Inv L c -> w_fail w = None -> (top = true -> lazy = false) ->
    forall o e' s, gseq re top items (abs c) [] lazy = (o, e', s) -> sig_dom s ->
    exists c' w' eo, gwalk top (merge_raws (c_list compile items)) c w lazy = Out c' w' eo /\
                     wr_bytes w' = wr_bytes w ++ o /\ w_fail w' = None /\
                     post L s c' e' /\ sig_rel s eo.
  Proof.
    intros H c w lazy HI Hw Htop o e' s E D.
    specialize (H [] None c w lazy HI Hw Htop o e' s E D). rewrite app_nil_r in H. cbn [mr ptext app] in H.
    destruct (match s with SNone => Some false | SLazy => if top then None else Some true | _ => None end) as [lz'|] eqn:M.
    - destruct H as (c1 & w1 & pend1 & W1 & B1 & F1 & A1 & I1).
      rewrite W1, mr_nil, <- (app_nil_r (flush pend1)).
      destruct (gwalk_flush top pend1 c1 w1 F1) as (c2 & w2 & Q2 & B2 & F2 & G2). rewrite G2. cbn [gwalk].
      exists c2, w2, (if lz' then Some ELBreak else None).
      split; [reflexivity|]. split; [rewrite B2, B1; reflexivity|]. split; [exact F2|].
      assert (A2 : abs c2 = e') by (rewrite (ceq_abs _ _ Q2); exact A1).
      pose proof (ceq_Inv L _ _ Q2 I1) as I2.
      destruct s; try discriminate M.
      + inversion M. splits; done.
      + destruct top; [discriminate M|]. inversion M. splits; done.
    - exact H.
  Qed.

  (* a block of items under a condition / case / default / loop body *)
  Corollary block_ref L items :
    items_ok false L items ->
    forall c w, Inv L c -> w_fail w = None ->
    forall o e' s, seq_with re items (abs c) [] false = (o, e', s) -> sig_dom s ->
    exists c' w' eo, walk_with wn (merge_raws (c_list compile items)) c w false = Out c' w' eo /\
                     wr_bytes w' = wr_bytes w ++ o /\ w_fail w' = None /\
                     post L s c' e' /\ sig_rel s eo.
  Proof.
    intros H c w HI Hw o e' s E D. rewrite walk_with_gwalk. rewrite seq_with_gseq in E.
    eapply items_run; try eassumption. discriminate.
  Qed.

  (* the items of a template *)
  Corollary tpl_ref L items :
    items_ok true L items ->
    forall c w, Inv L c -> w_fail w = None ->
    forall o e' s, ref_items flits rlookup budget rinc items (abs c) = (o, e', s) -> sig_dom s ->
    exists c' w' eo, rn (compile_tpl items) c w = Out c' w' eo /\
                     wr_bytes w' = wr_bytes w ++ o /\ w_fail w' = None /\
                     post L s c' e' /\ sig_rel s eo.
  Proof.
    intros H c w HI Hw o e' s E D. rewrite run_nodes_gwalk. unfold ref_items in E. rewrite top_with_gseq in E.
    unfold compile_tpl. eapply items_run; try eassumption. reflexivity.
  Qed.

  (* ---------------------------------------------------------------- bound tags *)

  (* the flag nodes of a bound tag are spliced into the enclosing list *)
  Lemma region_close top L f tl pend3 c3 w3 lz3 :
    w_fail w3 = None -> Inv L c3 ->
    exists c' w', gwalk top (mr pend3 (NFlag f false :: tl)) c3 w3 lz3 = gwalk top (mr None tl) c' w' lz3 /\
                  wr_bytes w' = wr_bytes w3 ++ ptext c3 pend3 /\ w_fail w' = None /\
                  abs c' = set_eflag f false (abs c3) /\ Inv L c'.
  Proof.
    intros F3 I3. rewrite (mr_nonraw pend3 (NFlag f false) tl eq_refl).
    destruct (gwalk_flush top pend3 c3 w3 F3) as (c4 & w4 & Q4 & B4 & F4 & G4). rewrite G4.
    cbn [gwalk write_node].
    assert (Q : ceq (set_cerr None c4) c3) by (eapply ceq_trans; [apply ceq_cerr|exact Q4]).
    exists (set_flag f false (set_cerr None c4)), w4. split; [reflexivity|]. split; [exact B4|]. split; [exact F4|].
    split; [rewrite abs_set_flag, (ceq_abs _ _ Q); reflexivity|].
    apply Inv_set_flag, (ceq_Inv L _ c3 Q I3).
  Qed.

  (* no item of the list hands a lazybreak to the list: walked as a template or as a block, the
     list behaves the same *)
  Definition no_lazy (body : list ast) : Prop :=
    forall e acc, gseq re false body e acc false = gseq re true body e acc false /\
                  snd (gseq re true body e acc false) <> SLazy.

  Lemma item_ok_region top L f body :
    items_ok top L body -> (top = true -> no_lazy body) -> items_ok top L [ARegion f body].
  Proof.
    intros Hb Hnl tl pend c w lazy HI Hw Htop o e' s E D.
    assert (CL : c_list compile [ARegion f body] ++ tl = NFlag f true :: (c_list compile body ++ NFlag f false :: tl)).
    { cbn [c_list compile app]. rewrite app_nil_r, <- app_assoc. reflexivity. }
    rewrite CL. rewrite (mr_nonraw pend (NFlag f true) _ eq_refl).
    destruct (gwalk_flush top pend c w Hw) as (c1 & w1 & Q1 & B1 & F1 & G1). rewrite G1.
    cbn [gwalk write_node].
    assert (Q : ceq (set_cerr None c1) c) by (eapply ceq_trans; [apply ceq_cerr|exact Q1]).
    set (c2 := set_flag f true (set_cerr None c1)).
    assert (I2 : Inv L c2) by (apply Inv_set_flag, (ceq_Inv L _ c Q HI)).
    assert (A2 : abs c2 = set_eflag f true (abs c)) by (unfold c2; rewrite abs_set_flag, (ceq_abs _ _ Q); reflexivity).
    change (merge_raws (c_list compile body ++ NFlag f false :: tl)) with (mr None (c_list compile body ++ NFlag f false :: tl)).
    cbn [gseq ref_eval] in E. rewrite seq_with_gseq in E. rewrite <- A2 in E.
    destruct (gseq re top body (abs c2) [] lazy) as [[ob eb] sb] eqn:EB.
    assert (R : exists s0, gseq re false body (abs c2) [] false = (ob, eb, s0) /\
                           sb = (if lazy then lz_sig s0 else s0) /\ (top = true -> s0 <> SLazy)).
    { destruct top.
      - rewrite (Htop eq_refl) in EB |- *. destruct (Hnl eq_refl (abs c2) []) as [N1 N2].
        rewrite N1, EB. rewrite EB in N2. exists sb. split; [reflexivity|]. split; [reflexivity|]. intros _. exact N2.
      - destruct lazy.
        + rewrite gseq_lz in EB. destruct (gseq re false body (abs c2) [] false) as [[o0 e0] s0].
          inversion EB; subst. exists s0. split; [reflexivity|]. split; [reflexivity|]. discriminate.
        + exists sb. split; [exact EB|]. split; [reflexivity|]. discriminate. }
    destruct R as (s0 & E0 & Hsb & Hnl0). rewrite E0 in E.
    assert (BB : forall (w' : wr) x, wr_bytes w' = wr_bytes w1 ++ x -> wr_bytes w' = wr_bytes w ++ ptext c pend ++ x)
      by (intros w' x Hx; rewrite Hx, B1, <- app_assoc; reflexivity).
    specialize (Hb (NFlag f false :: tl) None c2 w1 lazy I2 F1 Htop ob eb sb EB).
    cbn [ptext app] in Hb.
    destruct s0.
    - (* the body runs to its end, not lazily *)
      assert (Dsb : sig_dom sb) by (subst sb; destruct lazy; exact I).
      specialize (Hb Dsb).
      destruct lazy.
      + destruct top; [specialize (Htop eq_refl); discriminate|].
        subst sb. cbn [lz_sig] in Hb. destruct Hb as (c3 & w3 & pend3 & W3 & B3 & F3 & A3 & I3).
        destruct (region_close false L f tl pend3 c3 w3 true F3 I3) as (c' & w' & W' & B' & F' & A' & I').
        cbn [gseq app] in E. inversion E; subst o e' s.
        exists c', w', None. split; [rewrite W3; exact W'|]. cbn [ptext]. rewrite app_nil_r.
        split; [apply BB; rewrite B', B3; reflexivity|]. split; [exact F'|]. split; [rewrite A', A3; reflexivity|exact I'].
      + subst sb. cbv beta iota in Hb. destruct Hb as (c3 & w3 & pend3 & W3 & B3 & F3 & A3 & I3).
        destruct (region_close top L f tl pend3 c3 w3 false F3 I3) as (c' & w' & W' & B' & F' & A' & I').
        cbn [gseq app] in E. inversion E; subst o e' s.
        exists c', w', None. split; [rewrite W3; exact W'|]. cbn [ptext]. rewrite app_nil_r.
        split; [apply BB; rewrite B', B3; reflexivity|]. split; [exact F'|]. split; [rewrite A', A3; reflexivity|exact I'].
    - (* break *)
      assert (Es : sb = SBrk) by (subst sb; destruct lazy; reflexivity). rewrite Es in Hb.
      cbn [gseq app] in E. inversion E; subst o e' s.
      destruct (Hb I) as (c3 & w3 & eo & W3 & B3 & F3 & P3 & S3).
      exists c3, w3, eo. split; [exact W3|]. split; [apply BB, B3|]. splits; done.
    - (* lazybreak seen: the body ran to its end *)
      destruct top; [exfalso; apply (Hnl0 eq_refl); reflexivity|].
      assert (Es : sb = SLazy) by (subst sb; destruct lazy; reflexivity). rewrite Es in Hb.
      destruct (Hb I) as (c3 & w3 & pend3 & W3 & B3 & F3 & A3 & I3).
      destruct (region_close false L f tl pend3 c3 w3 true F3 I3) as (c' & w' & W' & B' & F' & A' & I').
      cbn [gseq app] in E. inversion E; subst o e' s.
      exists c', w', None. split; [rewrite W3; exact W'|]. cbn [ptext]. rewrite app_nil_r.
      split; [apply BB; rewrite B', B3; reflexivity|]. split; [exact F'|]. split; [rewrite A', A3; reflexivity|exact I'].
    - (* continue *)
      cbn [gseq app] in E. inversion E; subst o e' s. destruct lazy; subst sb; cbn [lz_sig] in Hb;
        destruct (Hb I) as (c3 & w3 & eo & W3 & B3 & F3 & P3 & S3);
        exists c3, w3, eo; (split; [exact W3|]); (split; [apply BB, B3|]); splits; done.
    - (* exit *)
      assert (Es : sb = SExit) by (subst sb; destruct lazy; reflexivity). rewrite Es in Hb.
      cbn [gseq app] in E. inversion E; subst o e' s.
      destruct (Hb I) as (c3 & w3 & eo & W3 & B3 & F3 & P3 & S3).
      exists c3, w3, eo. split; [exact W3|]. split; [apply BB, B3|]. splits; done.
    - (* error *)
      assert (Es : sb = SErr e) by (subst sb; destruct lazy; reflexivity). rewrite Es in Hb.
      cbn [gseq app] in E. inversion E; subst o e' s.
      destruct (Hb D) as (c3 & w3 & eo & W3 & B3 & F3 & P3 & S3).
      exists c3, w3, eo. split; [exact W3|]. split; [apply BB, B3|]. splits; done.
    - cbn [gseq app] in E. inversion E; subst. contradiction.
  Qed.
End Lists.
