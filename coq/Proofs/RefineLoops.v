(* Loops (C03, C14): the counter loop and the range loop against cloop_ref / rloop_ref. *)
From DT Require Import Model.Bytes Proofs.BytesFacts Model.Value Model.Tree Model.Mods Model.Interp
  Spec.Ast Spec.RefEval Spec.Compile Proofs.InterpFacts Proofs.FlatProofs Proofs.RefineBase
  Proofs.RefineCond Proofs.RefineList Proofs.RefineMods Proofs.RefineNodes.
Local Open Scope Z_scope.

(* ------------------------------------------------------------------ the children of a loop node *)

Definition is_block (n : node) : bool := match n with NBlock _ _ _ => true | _ => false end.

Lemma compile_no_block a : forallb (fun n => negb (is_block n)) (compile a) = true.
Proof.
  destruct a; try reflexivity.
  - destruct t; reflexivity.
  - cbn [compile]. destruct has_cond, lazy; reflexivity.
  - cbn [compile]. destruct has_cond; reflexivity.
  - cbn [compile forallb is_block negb andb]. rewrite forallb_app. cbn [forallb is_block negb andb].
    rewrite andb_true_r. induction body as [|x body IH]; [reflexivity|].
    cbn [c_list]. rewrite forallb_app, IH, andb_true_r.
    (* nested: the items of the body *)
    clear IH. revert x. fix IHx 1. intros x. destruct x; try reflexivity.
    + destruct t; reflexivity.
    + cbn [compile]. destruct has_cond, lazy; reflexivity.
    + cbn [compile]. destruct has_cond; reflexivity.
    + cbn [compile forallb is_block negb andb]. rewrite forallb_app. cbn [forallb is_block negb andb].
      rewrite andb_true_r. induction body0 as [|y body0 IH0]; [reflexivity|].
      cbn [c_list]. rewrite forallb_app, IH0, andb_true_r. apply IHx.
Qed.

Lemma c_list_no_block : forall items, forallb (fun n => negb (is_block n)) (c_list compile items) = true.
Proof.
  induction items as [|a items IH]; [reflexivity|].
  cbn [c_list]. rewrite forallb_app, compile_no_block, IH. reflexivity.
Qed.

Lemma merge_raws_no_block : forall l,
  forallb (fun n => negb (is_block n)) l = true -> forallb (fun n => negb (is_block n)) (merge_raws l) = true.
Proof.
  induction l as [|n l IH]; intros H; [reflexivity|].
  cbn [forallb] in H. apply andb_true_iff in H. destruct H as [Hn Hl]. specialize (IH Hl).
  destruct n; try (cbn [merge_raws forallb]; rewrite IH; cbn [is_block negb andb] in *; done).
  cbn [merge_raws]. destruct (merge_raws l) as [|m r']; [reflexivity|].
  cbn [forallb] in IH. apply andb_true_iff in IH. destruct IH as [Hm Hr].
  destruct m; cbn [forallb is_block negb andb] in *; try exact Hr; try discriminate Hm.
Qed.

Lemma loop_children_body B E (he : bool) :
  forallb (fun n => negb (is_block n)) B = true ->
  loop_body (loop_children B E he) = B /\
  loop_has_else (loop_children B E he) = he /\
  (he = true -> loop_else_nodes (loop_children B E he) = E).
Proof.
  intros H. destruct he; cbn [loop_children loop_body loop_has_else loop_else_nodes].
  - repeat split.
  - destruct B as [|n [|m r]]; cbn [forallb] in H.
    + repeat split; discriminate.
    + destruct n; cbn [is_block negb andb] in H; try discriminate H; repeat split; discriminate.
    + apply andb_true_iff in H. destruct H as [Hn H]. apply andb_true_iff in H. destruct H as [Hm _].
      destruct n; cbn [is_block negb] in Hn; try discriminate Hn;
        (destruct m; cbn [is_block negb] in Hm; try discriminate Hm; repeat split; discriminate).
Qed.

(* ------------------------------------------------------------------ the walkers of a loop *)

Definition classify (o : outcome) : iterres :=
  match o with
  | Out c w None => ItNext c w
  | Out c w (Some ELBreak) => ItStop c w
  | Out c w (Some EBreak) => ItStop c w
  | Out c w (Some ECont) => ItNext c w
  | Out c w (Some e) => ItAbort c w e
  | Unsupported => ItUnsupported
  | OutOfFuel => ItFuel
  end.

Section Walk.
  Variable f : node -> ctx -> wr -> outcome.

  Lemma body_with_classify : forall l c w lazy, body_with f l c w lazy = classify (walk_with f l c w lazy).
  Proof.
    induction l as [|n l IH]; intros c w lazy.
    - destruct lazy; reflexivity.
    - cbn [body_with walk_with]. destruct (f n c w) as [c1 w1 [e|]| |]; try reflexivity; [|apply IH].
      destruct e; try reflexivity; try apply IH. destruct lazy; reflexivity.
  Qed.
End Walk.

Section Else.
  Variable flits : list (bytes * Z).
  Variable lookup : list bytes -> option tree.
  Variable budget : nat.
  Variable inc : tree -> ctx -> option (ctx * bytes * option err).
  Notation wn := (write_node flits lookup budget inc).
  Notation rn := (run_nodes flits lookup budget inc).

  Lemma wn_cerr n x c w : wn n (set_cerr x c) w = wn n c w.
  Proof. destruct n; reflexivity. Qed.

  (* the for-else walker against the template walker: an error lands in Ctx.Err *)
  Lemma else_with_rn : forall l c w, cerr c = None ->
    match rn l c w with
    | Out c1 w1 None => exists c1', else_with wn l c w = Out c1' w1 None /\ ceq c1' c1 /\ cerr c1' = None
    | Out c1 w1 (Some e) => else_with wn l c w = Out (set_cerr (Some e) c1) w1 None
    | Unsupported => else_with wn l c w = Unsupported
    | OutOfFuel => else_with wn l c w = OutOfFuel
    end.
  Proof.
    induction l as [|n l IH]; intros c w Hc.
    - cbn. exists c. split; [reflexivity|]. split; [apply ceq_refl|exact Hc].
    - cbn [run_nodes else_with]. destruct (wn n c w) as [c1 w1 [e|]| |]; try reflexivity.
      destruct l as [|m l'].
      + cbn. exists (set_cerr None c1). split; [reflexivity|]. split; [apply ceq_cerr|reflexivity].
      + specialize (IH (set_cerr None c1) w1 eq_refl).
        assert (R : rn (m :: l') (set_cerr None c1) w1 = rn (m :: l') c1 w1)
          by (cbn [run_nodes]; rewrite wn_cerr; reflexivity).
        rewrite R in IH. exact IH.
  Qed.
End Else.

(* ------------------------------------------------------------------ stores and counter cells *)

Lemma set_ebrk_env_set b k v st e : set_ebrk b (env_set k v st e) = env_set k v st (set_ebrk b e).
Proof. unfold env_set. cbn [ev set_ebrk]. destruct (env_upd k (mkEntry v st) (ev e)); reflexivity. Qed.

Lemma set_eqb_env_set b k v st e : set_eqb b (env_set k v st e) = env_set k v st (set_eqb b e).
Proof. unfold env_set. cbn [ev set_eqb]. destruct (env_upd k (mkEntry v st) (ev e)); reflexivity. Qed.

Lemma e_brk_env_set k v st e : e_brk (env_set k v st e) = e_brk e.
Proof. unfold env_set. destruct (env_upd k (mkEntry v st) (ev e)); reflexivity. Qed.

Lemma e_qb_env_set k v st e : e_qb (env_set k v st e) = e_qb e.
Proof. unfold env_set. destruct (env_upd k (mkEntry v st) (ev e)); reflexivity. Qed.

Lemma set_ebrk_same e : set_ebrk (e_brk e) e = e.
Proof. destruct e; reflexivity. Qed.

Lemma set_brkD_same c : set_brkD (brkD c) c = c.
Proof. destruct c; reflexivity. Qed.

Lemma abs_entry_lc lc1 lc2 s : deref lc1 (s_val s) = deref lc2 (s_val s) -> abs_entry lc1 s = abs_entry lc2 s.
Proof. intros H. unfold abs_entry. rewrite H. reflexivity. Qed.

(* a new cell changes nothing that is visible *)
Lemma abs_append c x : slots_ok c -> abs (set_bufLC (bufLC c ++ [x]) c) = abs c.
Proof.
  intros Hs. unfold abs. cbn [vars bufLC chJQ chHE chUE chQB brkD set_bufLC]. f_equal.
  apply map_ext_in. intros s Hin. unfold abs_slot. f_equal. apply abs_entry_lc.
  unfold slots_ok in Hs. rewrite Forall_forall in Hs. destruct (Hs s Hin) as [_ V]. apply deref_app, V.
Qed.

Lemma Inv_append L c x : Inv L c -> Inv L (set_bufLC (bufLC c ++ [x]) c).
Proof.
  intros (I1 & I2 & I3 & I4). unfold Inv. cbn [vars bufLC brkD set_bufLC]. rewrite app_length. cbn [length].
  split; [|split; [exact I2|split; [|exact I4]]].
  - eapply Forall_impl; [|exact I1]. intros s. apply slot_ok_mono. lia.
  - eapply Forall_impl; [|exact I3]. intros p [P1 P2]. split; [|exact P2].
    cbn [bufLC set_bufLC]. rewrite app_length. cbn [length]. lia.
Qed.

(* stepping the live cell shows in the loop variable only *)
Lemma env_upd_agree (f1 f2 : slot -> bytes * entry) k x : forall l,
  (forall s, fst (f1 s) = s_key s) -> (forall s, fst (f2 s) = s_key s) ->
  (forall s, In s l -> s_key s <> k -> f1 s = f2 s) -> NoDup (map s_key l) ->
  env_upd k x (map f1 l) = env_upd k x (map f2 l) /\
  (env_upd k x (map f1 l) = None -> map f1 l = map f2 l).
Proof.
  intros l K1 K2. induction l as [|s l IH]; intros Hd ND; [split; reflexivity|].
  cbn [map env_upd]. inversion ND as [|? ? Hnot ND']; subst.
  destruct (f1 s) as [k1 y1] eqn:F1. destruct (f2 s) as [k2 y2] eqn:F2.
  assert (E1 : k1 = s_key s) by (rewrite <- (K1 s), F1; reflexivity).
  assert (E2 : k2 = s_key s) by (rewrite <- (K2 s), F2; reflexivity). subst k1 k2.
  destruct (bytes_eqb (s_key s) k) eqn:B.
  - split; [|discriminate]. f_equal. f_equal. apply map_ext_in. intros s' Hin. apply Hd; [right; exact Hin|].
    apply bytes_eqb_eq in B. intros E'. apply Hnot. rewrite B, <- E'. apply in_map, Hin.
  - assert (NE : s_key s <> k) by (intros E'; apply bytes_eqb_eq in E'; congruence).
    assert (FE : f1 s = f2 s) by (apply Hd; [left; reflexivity|exact NE]). rewrite F1, F2 in FE. inversion FE; subst y2.
    destruct (IH (fun s' Hin => Hd s' (or_intror Hin)) ND') as [IH1 IH2]. rewrite <- IH1.
    destruct (env_upd k x (map f1 l)); split; try reflexivity; try discriminate.
    intros _. f_equal. apply IH2. reflexivity.
Qed.

Lemma abs_step L idx cnt z c x st :
  Inv ((idx, cnt) :: L) c ->
  env_set cnt x st (abs (set_bufLC (set_nth idx z (bufLC c)) c)) = env_set cnt x st (abs c).
Proof.
  intros (I1 & I2 & I3 & I4). inversion I3 as [|? ? [P1 P2] _]; subst. cbn [fst snd] in *.
  unfold env_set, abs. cbn [ev vars bufLC chJQ chHE chUE chQB brkD set_bufLC].
  destruct (env_upd_agree (abs_slot (set_nth idx z (bufLC c))) (abs_slot (bufLC c)) cnt (mkEntry x st) (vars c)) as [A1 A2];
    try reflexivity; try exact I2.
  { intros s Hin Hk. unfold abs_slot. f_equal. apply abs_entry_lc.
    rewrite Forall_forall in I1. destruct (I1 s Hin) as [_ V].
    eapply deref_set_nth; [exact V|]. intros Ec. apply Hk, P2; assumption. }
  destruct (env_upd cnt (mkEntry x st) (map (abs_slot (set_nth idx z (bufLC c))) (vars c))) eqn:U.
  - rewrite <- A1. reflexivity.
  - rewrite <- A1, (A2 eq_refl). reflexivity.
Qed.

Lemma Inv_step L idx z c : Inv L c -> Inv L (set_bufLC (set_nth idx z (bufLC c)) c).
Proof.
  intros (I1 & I2 & I3 & I4). unfold Inv, live_ok. cbn [vars bufLC brkD set_bufLC]. rewrite set_nth_length.
  repeat split; assumption.
Qed.

Lemma Inv_tail p L c : Inv (p :: L) c -> Inv L c.
Proof. intros (I1 & I2 & I3 & I4). inversion I3; subst. repeat split; assumption. Qed.

Lemma Inv_brk L c : Inv L c -> 0 <= brkD c.
Proof. intros (_&_&_&N). exact N. Qed.

(* an error or a control signal of a for-else branch leaves through the loop like its normal end *)
Lemma else_err_post L saved s x c' e1 :
  0 <= saved -> abs c' = e1 -> Inv L c' ->
  post L s (set_brkD (Z.max (brkD (set_cerr (Some x) c')) saved) (set_cerr (Some x) c'))
       (set_ebrk (Z.max (e_brk e1) saved) e1).
Proof.
  intros Hs A I'. split.
  - rewrite <- A. reflexivity.
  - apply Inv_set_brkD; [pose proof (Inv_brk _ _ I'); cbn [brkD set_cerr]; lia|exact I'].
Qed.

Definition head_rel (cnt : bytes) (trips : nat) (c : ctx) (e : env) : Prop :=
  (trips = O -> abs c = e) /\ (forall x st, env_set cnt x st (abs c) = env_set cnt x st e).

Lemma head_rel_brk cnt trips c e : head_rel cnt trips c e -> e_brk e = brkD c.
Proof.
  intros [_ H]. specialize (H VNil true). apply (f_equal e_brk) in H. rewrite !e_brk_env_set in H. symmetry. exact H.
Qed.

Lemma head_rel_qb cnt trips c e : head_rel cnt trips c e -> e_qb e = chQB c.
Proof.
  intros [_ H]. specialize (H VNil true). apply (f_equal e_qb) in H. rewrite !e_qb_env_set in H. symmetry. exact H.
Qed.

(* ------------------------------------------------------------------ the counter loop *)

Section CLoop.
  Variable flits : list (bytes * Z).
  Variable lookup : list bytes -> option tree.
  Variable budget : nat.
  Variable inc : tree -> ctx -> option (ctx * bytes * option err).
  Variable rlookup : list bytes -> option (list ast).
  Variable rinc : list ast -> env -> option res.
  Notation wn := (write_node flits lookup budget inc).
  Notation rn := (run_nodes flits lookup budget inc).
  Notation re := (ref_eval flits rlookup budget rinc).

  Variable L : list (nat * bytes).
  Variables (cnt sep : bytes) (cop step : op) (limv : Z) (idx : nat) (saved : Z) (he : bool).
  Variables (B E : list node) (body els : list ast).
  Let L' := (idx, cnt) :: L.

  Hypothesis Hfresh : Forall (fun p => (fst p < idx)%nat) L.
  Hypothesis Hsaved : 0 <= saved.
  Hypothesis Hbody : forall c w, Inv L' c -> w_fail w = None ->
    forall o e' s, seq_with re body (abs c) [] false = (o, e', s) -> sig_dom s ->
    exists c' w' eo, walk_with wn B c w false = Out c' w' eo /\ wr_bytes w' = wr_bytes w ++ o /\
                     w_fail w' = None /\ post L' s c' e' /\ sig_rel s eo.
  Hypothesis Hels : he = true -> forall c w, Inv L c -> w_fail w = None ->
    forall o e' s, top_with re els (abs c) [] = (o, e', s) -> sig_dom s ->
    exists c' w' eo, rn E c w = Out c' w' eo /\ wr_bytes w' = wr_bytes w ++ o /\
                     w_fail w' = None /\ post L s c' e' /\ sig_rel s eo.

  Lemma not_live_fresh : not_live L cnt (VCell idx).
  Proof.
    intros p Hp Ec. exfalso. rewrite Forall_forall in Hfresh. specialize (Hfresh p Hp). inversion Ec. lia.
  Qed.

  Lemma not_live_own : not_live L' cnt (VCell idx).
  Proof.
    intros p [<-|Hp] Ec; [reflexivity|]. apply (not_live_fresh p Hp Ec).
  Qed.

  Lemma brk_dec c : (if 0 <? brkD c then set_brkD (brkD c - 1) c else c) =
                    set_brkD (if 0 <? brkD c then brkD c - 1 else brkD c) c.
  Proof. destruct (0 <? brkD c); [reflexivity|symmetry; apply set_brkD_same]. Qed.

  Lemma loop_done_0 e : 0 <= e_brk e ->
    loop_done e 0 = set_ebrk (if 0 <? e_brk e then e_brk e - 1 else e_brk e) e.
  Proof.
    intros H. unfold loop_done. f_equal. destruct (0 <? e_brk e) eqn:P; [apply Z.ltb_lt in P|]; lia.
  Qed.

  Lemma cloop_finish_ok c w trips cur e acc base :
    Inv L' c -> w_fail w = None -> cerr c = None -> head_rel cnt trips c e ->
    nth idx (bufLC c) 0 = cur -> wr_bytes w = base ++ acc ->
    forall o e' s,
      (let e1 := loop_done e 0 in
       let e2 := match trips with O => e1 | _ => env_set cnt (VInt cur) true e1 end in
       let '(o, e3, s) := run_else (fun e => top_with re els e []) he saved (set_ebrk (e_brk e2) e2) acc trips in
       (o, set_ebrk (Z.max (e_brk e3) saved) e3, s)) = (o, e', s) -> sig_dom s ->
    exists c' w' eo, cloop_finish (else_with wn E) he cnt idx saved c w trips = Out c' w' eo /\
                     wr_bytes w' = base ++ o /\ w_fail w' = None /\ post L s c' e' /\ sig_rel s eo.
  Proof.
    intros HI Hw Hc HR Hn Hb o e' s Eq D.
    pose proof (head_rel_brk _ _ _ _ HR) as EB.
    assert (NN : 0 <= brkD c) by (destruct HI as (_&_&_&N); exact N).
    unfold cloop_finish. rewrite brk_dec.
    rewrite loop_done_0 in Eq by (rewrite EB; exact NN). rewrite EB in Eq.
    set (b := if 0 <? brkD c then brkD c - 1 else brkD c) in *.
    assert (Nb : 0 <= b) by (unfold b; destruct (0 <? brkD c) eqn:P; [apply Z.ltb_lt in P|]; lia).
    set (c1 := set_brkD b c).
    assert (I1 : Inv L' c1) by (apply Inv_set_brkD; assumption).
    assert (C1 : cerr c1 = None) by exact Hc.
    cbv zeta in Eq. rewrite set_ebrk_same in Eq.
    destruct trips as [|t].
    - (* no iteration was made *)
      destruct HR as [HR0 _]. specialize (HR0 eq_refl).
      assert (A1 : abs c1 = set_ebrk b e) by (unfold c1; rewrite <- HR0; reflexivity).
      destruct he.
      + cbn [run_else] in Eq.
        destruct (top_with re els (set_ebrk b e) []) as [[o1 e1] s1] eqn:TE. rewrite <- A1 in TE.
        pose proof (else_with_rn flits lookup budget inc E c1 w C1) as EW.
        destruct s1; try (inversion Eq; subst; contradiction);
          [|(* an error or a control signal in the else branch: handed on through the loop *)
            inversion Eq; subst o e' s;
            match goal with D0 : sig_dom ?sx |- _ =>
              destruct (Hels eq_refl c1 w (Inv_tail _ _ _ I1) Hw o1 e1 sx TE D0) as (c' & w' & eo & W & Bw & F & P & S) end;
            cbn [sig_rel] in S; subst eo; destruct P as [A I']; rewrite W in EW; rewrite EW; cbn [cerr set_cerr];
            eexists _, w', _; (split; [reflexivity|]); (split; [rewrite Bw, Hb, app_assoc; reflexivity|]);
            (split; [exact F|]); (split; [|reflexivity]); apply else_err_post; assumption ..].
        (* the else branch completes *)
        destruct (Hels eq_refl c1 w (Inv_tail _ _ _ I1) Hw o1 e1 SNone TE I) as (c' & w' & eo & W & Bw & F & P & S).
        cbn [sig_rel post] in S, P. subst eo. destruct P as [A I']. rewrite W in EW.
        destruct EW as (c1' & EW & Q & C'). rewrite EW, C'.
        inversion Eq; subst o e' s.
        eexists _, w', None. split; [reflexivity|]. split; [rewrite Bw, Hb, app_assoc; reflexivity|].
        split; [exact F|]. split; [|reflexivity]. cbn [post].
        pose proof (ceq_Inv L _ _ Q I') as I''. pose proof (ceq_abs _ _ Q) as QA. destruct Q as (_&_&_&_&_&_&QB).
        split.
        * change (abs (set_brkD (Z.max (brkD c1') saved) c1')) with (set_ebrk (Z.max (brkD c1') saved) (abs c1')).
          rewrite QA, A. replace (brkD c1') with (e_brk e1) by (rewrite <- A, QB; reflexivity).
          unfold set_ebrk. cbn [ev e_jq e_he e_ue e_qb e_brk]. f_equal. lia.
        * apply Inv_set_brkD; [lia|exact I''].
      + cbn [run_else] in Eq. inversion Eq; subst o e' s. rewrite C1.
        eexists _, w, None. split; [reflexivity|]. split; [exact Hb|]. split; [exact Hw|]. split; [|reflexivity].
        cbn [post]. split.
        * change (set_ebrk (Z.max (brkD c1) saved) (abs c1) = set_ebrk (Z.max (e_brk (set_ebrk b e)) saved) (set_ebrk b e)).
          rewrite A1. reflexivity.
        * apply Inv_set_brkD; [cbn; lia|exact (Inv_tail _ _ _ I1)].
    - (* after at least one iteration: the loop variable keeps the last counter value *)
      destruct HR as [_ HR1].
      set (c2 := ctx_set_static cnt (VCell idx) c1).
      assert (A2 : abs c2 = env_set cnt (VInt cur) true (set_ebrk b e)).
      { unfold c2, ctx_set_static. rewrite abs_ctx_set. cbn [deref]. change (bufLC c1) with (bufLC c). rewrite Hn.
        change (abs c1) with (set_ebrk b (abs c)). rewrite <- !set_ebrk_env_set, HR1. reflexivity. }
      assert (I2 : Inv L c2).
      { unfold c2, ctx_set_static. apply Inv_ctx_set; [|apply not_live_fresh|exact (Inv_tail _ _ _ I1)].
        right. exists idx. split; [reflexivity|]. destruct HI as (_&_&HL&_). inversion HL as [|? ? [P1 _] _]; subst. exact P1. }
      assert (C2 : cerr c2 = None).
      { unfold c2, ctx_set_static, ctx_set, put_slot. destruct (upd_slot _ _ _); exact C1. }
      assert (B2 : brkD c2 = b).
      { unfold c2, ctx_set_static, ctx_set, put_slot. destruct (upd_slot _ _ _); reflexivity. }
      assert (RE : run_else (fun e => top_with re els e []) he saved (env_set cnt (VInt cur) true (set_ebrk b e)) acc (S t)
                   = (acc, env_set cnt (VInt cur) true (set_ebrk b e), SNone)) by (destruct he; reflexivity).
      rewrite RE in Eq. inversion Eq; subst o e' s.
      assert (X : forall (P : outcome -> Prop),
                 P (Out (set_brkD (Z.max (brkD c2) saved) c2) w (cerr c2)) ->
                 P (match S t, he with
                    | O, true => match else_with wn E c2 w with
                                 | Out c' w' _ => Out (set_brkD (Z.max (brkD c') saved) c') w' (cerr c')
                                 | o => o
                                 end
                    | _, _ => Out (set_brkD (Z.max (brkD c2) saved) c2) w (cerr c2)
                    end)) by (intros P HP; destruct he; exact HP).
      apply X. rewrite C2.
      eexists _, w, None. split; [reflexivity|]. split; [exact Hb|]. split; [exact Hw|]. split; [|reflexivity].
      cbn [post]. split.
      * change (set_ebrk (Z.max (brkD c2) saved) (abs c2) = set_ebrk (Z.max (e_brk (env_set cnt (VInt cur) true (set_ebrk b e))) saved) (env_set cnt (VInt cur) true (set_ebrk b e))).
        rewrite A2, B2, e_brk_env_set. reflexivity.
      * apply Inv_set_brkD; [lia|exact I2].
  Qed.

  (* the separator, escaped like static text by the bound tag in effect *)
  Lemma sep_ok (w : wr) (trips : nat) (out : bytes) acc base :
    w_fail w = None -> wr_bytes w = base ++ acc ->
    exists w_s, (match trips, sep with
                 | O, _ | _, [] => (w, None)
                 | _, _ => let (w', ok) := wr_write w out in (w', if ok then None else Some EWriter)
                 end) = (w_s, None) /\ w_fail w_s = None /\
                wr_bytes w_s = base ++ (match trips, sep with O, _ | _, [] => acc | _, _ => acc ++ out end).
  Proof.
    intros Hw Hb. destruct trips as [|t]; [exists w; splits; done|].
    destruct sep as [|s0 sp] eqn:ES; [exists w; splits; done|].
    pose proof (wr_write_healthy w out Hw) as (H1 & H2 & H3 & H4).
    destruct (wr_write w out) as [w1 ok]. cbn [fst snd] in *. subst ok.
    exists w1. split; [reflexivity|]. split; [exact H2|]. rewrite H3, Hb, app_assoc. reflexivity.
  Qed.

  Lemma after_step c_b z prevQB eb :
    Inv L' c_b -> abs c_b = eb ->
    let c_q := set_chQB prevQB (set_cerr None c_b) in
    let c'' := set_bufLC (set_nth idx z (bufLC c_q)) c_q in
    Inv L' c'' /\ cerr c'' = None /\ nth idx (bufLC c'') 0 = z /\
    (forall t, head_rel cnt (S t) c'' (set_eqb prevQB eb)).
  Proof.
    intros Ib Ab c_q c''.
    assert (Iq : Inv L' c_q) by exact Ib.
    split; [apply Inv_step, Iq|]. split; [reflexivity|]. split.
    - unfold c''. cbn [bufLC set_bufLC]. apply nth_set_nth_same.
      destruct Ib as (_&_&HL&_). inversion HL as [|? ? [P1 _] _]; subst. exact P1.
    - intros t. split; [discriminate|]. intros x st. unfold c''. rewrite (abs_step L idx cnt z c_q x st Iq).
      unfold c_q. change (abs (set_chQB prevQB (set_cerr None c_b))) with (set_eqb prevQB (abs c_b)). rewrite Ab. reflexivity.
  Qed.

  Lemma cloop_iter_ok : forall fuel c w trips cur e acc base,
    Inv L' c -> w_fail w = None -> cerr c = None -> head_rel cnt trips c e ->
    nth idx (bufLC c) 0 = cur -> wr_bytes w = base ++ acc ->
    forall o e' s,
      cloop_ref (fun e => seq_with re body e [] false) (fun e => top_with re els e []) he saved sep cnt cop step limv
                fuel e acc trips cur = (o, e', s) -> sig_dom s ->
    exists c' w' eo,
      cloop_iter (fun c w => body_with wn B c w false) (else_with wn E) he cnt sep cop step limv idx saved
                 fuel c w trips cur = Out c' w' eo /\
      wr_bytes w' = base ++ o /\ w_fail w' = None /\ post L s c' e' /\ sig_rel s eo.
  Proof.
    induction fuel as [|fuel IH]; intros c w trips cur e acc base HI Hw Hc HR Hn Hb o e' s Eq D.
    - (* out of fuel: only the exit path is defined *)
      cbn [cloop_ref cloop_iter] in *. destruct (cloop_allows cop cur limv) as [allow|]; [|inversion Eq; subst; contradiction].
      rewrite (head_rel_brk _ _ _ _ HR) in Eq.
      destruct (allow && (brkD c =? 0)); [inversion Eq; subst; contradiction|].
      eapply cloop_finish_ok; eassumption.
    - cbn [cloop_ref cloop_iter] in *. destruct (cloop_allows cop cur limv) as [allow|]; [|inversion Eq; subst; contradiction].
      rewrite (head_rel_brk _ _ _ _ HR) in Eq.
      destruct (allow && (brkD c =? 0)); [|eapply cloop_finish_ok; eassumption].
      (* one iteration *)
      set (c_a := ctx_set_static cnt (VCell idx) c).
      assert (A_a : abs c_a = env_set cnt (VInt cur) true e).
      { unfold c_a, ctx_set_static. rewrite abs_ctx_set. cbn [deref]. rewrite Hn. destruct HR as [_ HR1]. apply HR1. }
      assert (I_a : Inv L' c_a).
      { unfold c_a, ctx_set_static. apply Inv_ctx_set; [|apply not_live_own|exact HI].
        right. exists idx. split; [reflexivity|]. destruct HI as (_&_&HL&_). inversion HL as [|? ? [P1 _] _]; subst. exact P1. }
      assert (Q_a : chQB c_a = chQB c).
      { unfold c_a, ctx_set_static, ctx_set, put_slot. destruct (upd_slot _ _ _); reflexivity. }
      rewrite e_qb_env_set, (head_rel_qb _ _ _ _ HR) in Eq. rewrite Q_a.
      rewrite <- A_a in Eq. change (set_eqb true (abs c_a)) with (abs (set_chQB true c_a)) in Eq.
      change (region_of (abs c_a) sep) with (region_text c_a sep) in Eq.
      destruct (sep_ok w trips (region_text c_a sep) acc base Hw Hb) as (w_s & ES & F_s & B_s). rewrite ES.
      set (acc_s := match trips, sep with O, _ | _, [] => acc | _, _ => acc ++ region_text c_a sep end) in *.
      destruct (seq_with re body (abs (set_chQB true c_a)) [] false) as [[ob eb] sb] eqn:EBody.
      (* the step operator must be ++ or -- *)
      assert (ST : exists nxt, (match step with OpInc => Some (cur + 1) | OpDec => Some (cur - 1) | _ => None end) = Some nxt /\
                               forall cq, cloop_step step idx cq cur = Some (set_bufLC (set_nth idx nxt (bufLC cq)) cq, nxt)).
      { destruct step; try (inversion Eq; subst; contradiction); eexists; split; reflexivity. }
      destruct ST as (nxt & ENxt & EStep). rewrite ENxt in Eq.
      assert (Dsb : sig_dom sb).
      { destruct sb; try exact I; inversion Eq; subst; exact D. }
      assert (I_q : Inv L' (set_chQB true c_a)) by exact I_a.
      destruct (Hbody (set_chQB true c_a) w_s I_q F_s ob eb sb EBody Dsb) as (c_b & w_b & eo_b & Wb & Bb & Fb & Pb & Sb).
      rewrite body_with_classify, Wb.
      assert (Bacc : wr_bytes w_b = base ++ acc_s ++ ob) by (rewrite Bb, B_s, app_assoc; reflexivity).
      destruct sb; cbn [sig_rel post] in Sb, Pb; try subst eo_b; cbn [classify].
      + (* SNone: next iteration *)
        destruct Pb as [Ab Ib]. rewrite EStep.
        destruct (after_step c_b nxt (chQB c) eb Ib Ab) as (I2 & C2 & N2 & HR2).
        eapply (IH _ w_b (S trips) nxt _ (acc_s ++ ob) base I2 Fb C2 (HR2 trips) N2 Bacc); eassumption.
      + (* SBrk: the loop ends *)
        destruct Pb as [Ab Ib]. rewrite EStep.
        destruct (after_step c_b nxt (chQB c) eb Ib Ab) as (I2 & C2 & N2 & HR2).
        eapply (cloop_finish_ok _ w_b (S trips) nxt (set_eqb (chQB c) eb) (acc_s ++ ob) base I2 Fb C2 (HR2 trips) N2 Bacc); [|exact D].
        cbv zeta. rewrite set_ebrk_same. rewrite <- Eq.
        destruct he; reflexivity.
      + (* SLazy: the loop ends after this iteration *)
        destruct Pb as [Ab Ib]. rewrite EStep.
        destruct (after_step c_b nxt (chQB c) eb Ib Ab) as (I2 & C2 & N2 & HR2).
        eapply (cloop_finish_ok _ w_b (S trips) nxt (set_eqb (chQB c) eb) (acc_s ++ ob) base I2 Fb C2 (HR2 trips) N2 Bacc); [|exact D].
        cbv zeta. rewrite set_ebrk_same. rewrite <- Eq.
        destruct he; reflexivity.
      + (* SCont: next iteration *)
        destruct Pb as [Ab Ib]. rewrite EStep.
        destruct (after_step c_b nxt (chQB c) eb Ib Ab) as (I2 & C2 & N2 & HR2).
        eapply (IH _ w_b (S trips) nxt _ (acc_s ++ ob) base I2 Fb C2 (HR2 trips) N2 Bacc); eassumption.
      + (* SExit: the template ends *)
        destruct Pb as [Ab Ib]. inversion Eq; subst o e' s.
        eexists _, w_b, (Some EInterrupt). split; [reflexivity|]. split; [exact Bacc|]. split; [exact Fb|].
        split; [|reflexivity]. cbn [post]. split.
        * change (set_eqb (chQB c) (abs c_b) = set_eqb (chQB c) eb). rewrite Ab. reflexivity.
        * exact (Inv_tail _ _ _ Ib).
      + (* SErr *)
        destruct Pb as [Ab Ib]. inversion Eq; subst o e' s. cbn [sig_dom] in D.
        eexists _, w_b, (Some e0). split; [destruct e0; try reflexivity; discriminate D|].
        split; [exact Bacc|]. split; [exact Fb|]. split; [|reflexivity]. split.
        * change (set_eqb (chQB c) (abs c_b) = set_eqb (chQB c) eb). rewrite Ab. reflexivity.
        * exact (Inv_tail _ _ _ Ib).
      + contradiction.
  Qed.
End CLoop.

(* ------------------------------------------------------------------ the counter loop node *)

Lemma cloop_range_ref c lit b :
  match bound_of (abs c) lit b with
  | inl (Some z) => exists c1, cloop_range c lit b = (c1, z) /\ ceq c1 c /\ cerr c1 = None
  | inr x => exists c1 z, cloop_range c lit b = (c1, z) /\ ceq c1 c /\ cerr c1 = Some x
  | inl None => True
  end.
Proof.
  unfold bound_of, cloop_range. destruct lit.
  - destruct (parse_Z b) as [z|]; [|exact I]. eexists. split; [reflexivity|]. split; [apply ceq_cerr|reflexivity].
  - destruct (env_get (abs c) b) as [v'|] eqn:G; [|exact I].
    destruct (ctx_get_ref c b v' G) as (v & E0 & ->). rewrite E0. cbn [cerr set_cerr bufLC].
    rewrite if2int_deref. destruct (if2int (bufLC c) v) as [z|].
    + eexists. split; [reflexivity|]. split; [apply ceq_cerr|reflexivity].
    + eexists _, _. split; [reflexivity|]. split; [|reflexivity]. apply ceq_cerr2.
Qed.

Lemma bound_err_post L c2 cz saved x :
  ceq c2 cz -> brkD cz = 0 -> 0 <= saved -> Inv L cz ->
  post L (SErr x) (set_brkD (Z.max (brkD c2) saved) c2) (set_ebrk saved (abs cz)).
Proof.
  intros Q Z0 Hs Iz. pose proof (ceq_abs _ _ Q) as QA. pose proof (ceq_Inv L _ _ Q Iz) as I2.
  destruct Q as (_&_&_&_&_&_&QB). rewrite QB, Z0, Z.max_r by exact Hs. split.
  - change (set_ebrk saved (abs c2) = set_ebrk saved (abs cz)). rewrite QA. reflexivity.
  - apply Inv_set_brkD; assumption.
Qed.

Section CLoopNode.
  Variable flits : list (bytes * Z).
  Variable lookup : list bytes -> option tree.
  Variable budget : nat.
  Variable inc : tree -> ctx -> option (ctx * bytes * option err).
  Variable rlookup : list bytes -> option (list ast).
  Variable rinc : list ast -> env -> option res.
  Notation wn := (write_node flits lookup budget inc).
  Notation re := (ref_eval flits rlookup budget rinc).
  Notation node_ref := (node_ref flits lookup budget inc rlookup rinc).
  Notation items_ok := (items_ok flits lookup budget inc rlookup rinc).

  Theorem cloop_node_ref L var init lim initlit limlit cop step sep body els (he : bool) :
    (forall idx, items_ok false ((idx, var) :: L) body) -> (he = true -> items_ok true L els) ->
    node_ref L (NLoopCount var init lim sep initlit limlit cop step
                  (loop_children (merge_raws (c_list compile body)) (merge_raws (c_list compile els)) he))
             (ACLoop var init lim initlit limlit cop step sep body els he).
  Proof.
    intros Hbody Hels c w HI Hw o e' s Eq D. cbn [ref_eval] in Eq. cbn [write_node].
    set (B := merge_raws (c_list compile body)) in *. set (E := merge_raws (c_list compile els)) in *.
    destruct (loop_children_body B E he (merge_raws_no_block _ (c_list_no_block body))) as (LB & LH & LE).
    rewrite LB, LH.
    change (brkD (set_cerr None c)) with (brkD c).
    set (cz := set_brkD 0 (set_cerr None c)).
    assert (Az : abs cz = set_ebrk 0 (abs c)) by reflexivity.
    assert (Iz : Inv L cz) by (apply Inv_set_brkD; [lia|exact HI]).
    assert (NS : 0 <= brkD c) by (destruct HI as (_&_&_&N); exact N).
    change (e_brk (abs c)) with (brkD c) in Eq. rewrite <- Az in Eq.
    pose proof (cloop_range_ref cz initlit init) as R1.
    destruct (bound_of (abs cz) initlit init) as [[v0|]|x] eqn:B1.
    - destruct R1 as (c1 & E1 & Q1 & C1). rewrite E1, C1.
      pose proof (cloop_range_ref c1 limlit lim) as R2. rewrite (ceq_abs _ _ Q1) in R2.
      destruct (bound_of (abs cz) limlit lim) as [[limv|]|x] eqn:B2.
      + destruct R2 as (c2 & E2 & Q2 & C2). rewrite E2, C2.
        assert (Q : ceq c2 cz) by (eapply ceq_trans; eassumption).
        pose proof (ceq_Inv L _ _ Q Iz) as I2.
        set (idx := length (bufLC c2)).
        set (c3 := set_bufLC (bufLC c2 ++ [v0]) c2).
        assert (A3 : abs c3 = abs cz) by (unfold c3; rewrite abs_append by exact (Inv_slots _ _ I2); apply ceq_abs, Q).
        assert (I3 : Inv ((idx, var) :: L) c3).
        { pose proof (Inv_append L c2 v0 I2) as (J1 & J2 & J3 & J4). fold c3 in J1, J2, J3, J4.
          split; [exact J1|]. split; [exact J2|]. split; [|exact J4]. constructor; [|exact J3].
          split.
          - cbn [fst]. unfold c3. cbn [bufLC set_bufLC]. rewrite app_length. cbn [length]. unfold idx. lia.
          - cbn [fst snd]. intros s0 Hin Ec. exfalso.
            destruct I2 as (K1 & _). rewrite Forall_forall in K1. destruct (K1 s0 Hin) as [_ [CF|(i & Ei & Hi)]].
            + rewrite Ec in CF. specialize (CF [1]). destruct idx as [|[|n]]; cbn in CF; discriminate.
            + rewrite Ec in Ei. inversion Ei. unfold idx in *. lia. }
        assert (Hfresh : Forall (fun p => (fst p < idx)%nat) L).
        { destruct I2 as (_&_&K3&_). eapply Forall_impl; [|exact K3]. intros p [P1 _]. exact P1. }
        assert (HR : head_rel var 0 c3 (abs cz)) by (split; [intros _; exact A3|intros x st; rewrite A3; reflexivity]).
        assert (N3 : nth idx (bufLC c3) 0 = v0) by (unfold c3, idx; cbn [bufLC set_bufLC]; apply nth_middle).
        assert (C3 : cerr c3 = None) by exact C2.
        assert (Hb0 : wr_bytes w = wr_bytes w ++ []) by (rewrite app_nil_r; reflexivity).
        eapply (cloop_iter_ok flits lookup budget inc rlookup rinc L var sep cop step limv idx (brkD c) he B
                  (loop_else_nodes (loop_children B E he)) body els Hfresh NS); try eassumption.
        * intros c0 w0 I0 F0 o0 e0 s0 Eb Db. unfold B.
          apply (block_ref flits lookup budget inc rlookup rinc _ body (Hbody idx) c0 w0); assumption.
        * intros Hhe c0 w0 I0 F0 o0 e0 s0 Eb Db. rewrite (LE Hhe). unfold E.
          apply (tpl_ref flits lookup budget inc rlookup rinc L els (Hels Hhe) c0 w0); assumption.
      + inversion Eq; subst. contradiction.
      + destruct R2 as (c2 & z & E2 & Q2 & C2). rewrite E2, C2. inversion Eq; subst o e' s.
        eexists _, w, (Some x). split; [reflexivity|]. rewrite app_nil_r.
        split; [reflexivity|]. split; [exact Hw|]. split; [|reflexivity].
        apply bound_err_post; [eapply ceq_trans; eassumption|reflexivity|exact NS|exact Iz].
    - inversion Eq; subst. contradiction.
    - destruct R1 as (c1 & z & E1 & Q1 & C1). rewrite E1, C1. inversion Eq; subst o e' s.
      eexists _, w, (Some x). split; [reflexivity|]. rewrite app_nil_r.
      split; [reflexivity|]. split; [exact Hw|]. split; [|reflexivity].
      apply bound_err_post; [exact Q1|reflexivity|exact NS|exact Iz].
  Qed.
End CLoopNode.

(* ------------------------------------------------------------------ the range loop *)

Section RLoop.
  Variable flits : list (bytes * Z).
  Variable lookup : list bytes -> option tree.
  Variable budget : nat.
  Variable inc : tree -> ctx -> option (ctx * bytes * option err).
  Variable rlookup : list bytes -> option (list ast).
  Variable rinc : list ast -> env -> option res.
  Notation wn := (write_node flits lookup budget inc).
  Notation rn := (run_nodes flits lookup budget inc).
  Notation re := (ref_eval flits rlookup budget rinc).

  Variable L : list (nat * bytes).
  Variables (key val sep : bytes) (saved : Z) (he : bool).
  Variables (B E : list node) (body els : list ast).

  Hypothesis Hsaved : 0 <= saved.
  Hypothesis Hbody : forall c w, Inv L c -> w_fail w = None ->
    forall o e' s, seq_with re body (abs c) [] false = (o, e', s) -> sig_dom s ->
    exists c' w' eo, walk_with wn B c w false = Out c' w' eo /\ wr_bytes w' = wr_bytes w ++ o /\
                     w_fail w' = None /\ post L s c' e' /\ sig_rel s eo.
  Hypothesis Hels : he = true -> forall c w, Inv L c -> w_fail w = None ->
    forall o e' s, top_with re els (abs c) [] = (o, e', s) -> sig_dom s ->
    exists c' w' eo, rn E c w = Out c' w' eo /\ wr_bytes w' = wr_bytes w ++ o /\
                     w_fail w' = None /\ post L s c' e' /\ sig_rel s eo.

  Lemma rloop_finish_ok c w calls acc base :
    Inv L c -> w_fail w = None -> wr_bytes w = base ++ acc ->
    forall o e' s,
      (let e1 := loop_done (abs c) 0 in
       let '(o, e2, s) := run_else (fun e => top_with re els e []) he saved e1 acc calls in
       (o, set_ebrk (Z.max (e_brk e2) saved) e2, s)) = (o, e', s) -> sig_dom s ->
    exists c' w' eo, rloop_finish (else_with wn E) he saved c w calls = Out c' w' eo /\
                     wr_bytes w' = base ++ o /\ w_fail w' = None /\ post L s c' e' /\ sig_rel s eo.
  Proof.
    intros HI Hw Hb o e' s Eq D.
    assert (NN : 0 <= brkD c) by (destruct HI as (_&_&_&N); exact N).
    unfold rloop_finish. rewrite brk_dec.
    rewrite loop_done_0 in Eq by exact NN. change (e_brk (abs c)) with (brkD c) in Eq.
    set (b := if 0 <? brkD c then brkD c - 1 else brkD c) in *.
    assert (Nb : 0 <= b) by (unfold b; destruct (0 <? brkD c) eqn:P; [apply Z.ltb_lt in P|]; lia).
    set (c1 := set_brkD b c).
    assert (I1 : Inv L c1) by (apply Inv_set_brkD; assumption).
    cbv zeta in Eq. change (set_ebrk b (abs c)) with (abs c1) in Eq.
    assert (FIN : forall o' e'' s', (acc, set_ebrk (Z.max (e_brk (abs c1)) saved) (abs c1), SNone) = (o', e'', s') ->
              exists c' w' eo, Out (set_brkD (Z.max (brkD c1) saved) (set_cerr None c1)) w None = Out c' w' eo /\
                               wr_bytes w' = base ++ o' /\ w_fail w' = None /\ post L s' c' e'' /\ sig_rel s' eo).
    { intros o' e'' s' Eq'. inversion Eq'; subst. eexists _, w, None. split; [reflexivity|]. split; [exact Hb|].
      split; [exact Hw|]. split; [|reflexivity]. cbn [post]. split; [reflexivity|]. apply Inv_set_brkD; [cbn; lia|exact I1]. }
    destruct calls as [|n]; [|destruct he; apply FIN; exact Eq].
    destruct he; [|apply FIN; exact Eq].
    cbn [run_else] in Eq.
    destruct (top_with re els (abs c1) []) as [[o1 e1] s1] eqn:TE.
    pose proof (else_with_rn flits lookup budget inc E (set_cerr None c1) w eq_refl) as EW.
    assert (I1' : Inv L (set_cerr None c1)) by exact I1.
    change (abs c1) with (abs (set_cerr None c1)) in TE.
    destruct s1; try (inversion Eq; subst; contradiction);
      [|(* an error or a control signal in the else branch: handed on through the loop *)
        inversion Eq; subst o e' s;
        match goal with D0 : sig_dom ?sx |- _ =>
          destruct (Hels eq_refl (set_cerr None c1) w I1' Hw o1 e1 sx TE D0) as (c' & w' & eo & W & Bw & F & P & S) end;
        cbn [sig_rel] in S; subst eo; destruct P as [A I']; rewrite W in EW; rewrite EW; cbn [cerr set_cerr];
        eexists _, w', _; (split; [reflexivity|]); (split; [rewrite Bw, Hb, app_assoc; reflexivity|]);
        (split; [exact F|]); (split; [|reflexivity]); apply else_err_post; assumption ..].
    destruct (Hels eq_refl (set_cerr None c1) w I1' Hw o1 e1 SNone TE I) as (c' & w' & eo & W & Bw & F & P & S).
    cbn [sig_rel post] in S, P. subst eo. destruct P as [A I']. rewrite W in EW.
    destruct EW as (c1' & EW & Q & C'). rewrite EW, C'.
    inversion Eq; subst o e' s.
    eexists _, w', None. split; [reflexivity|]. split; [rewrite Bw, Hb, app_assoc; reflexivity|].
    split; [exact F|]. split; [|reflexivity]. cbn [post].
    pose proof (ceq_Inv L _ _ Q I') as I''. pose proof (ceq_abs _ _ Q) as QA. destruct Q as (_&_&_&_&_&_&QB).
    split.
    + change (abs (set_brkD (Z.max (brkD c1') saved) c1')) with (set_ebrk (Z.max (brkD c1') saved) (abs c1')).
      rewrite QA, A. replace (brkD c1') with (e_brk e1) by (rewrite <- A, QB; reflexivity).
      unfold set_ebrk. cbn [ev e_jq e_he e_ue e_qb e_brk]. f_equal. lia.
    + apply Inv_set_brkD; [lia|exact I''].
  Qed.

  Lemma rloop_each_ok : forall elems c w calls trips acc base,
    Inv L c -> w_fail w = None -> Forall (fun kx => cell_free (snd kx)) elems -> wr_bytes w = base ++ acc ->
    forall o e' s,
      rloop_ref (fun e => seq_with re body e [] false) (fun e => top_with re els e []) he saved sep key val
                elems (abs c) acc calls trips = (o, e', s) -> sig_dom s ->
    exists c' w' eo,
      rloop_each (fun c w => body_with wn B c w false) (else_with wn E) he key val sep saved
                 elems c w calls trips = Out c' w' eo /\
      wr_bytes w' = base ++ o /\ w_fail w' = None /\ post L s c' e' /\ sig_rel s eo.
  Proof.
    induction elems as [|[kb ev] r IH]; intros c w calls trips acc base HI Hw Hcf Hb o e' s Eq D.
    - cbn [rloop_ref rloop_each] in *. eapply rloop_finish_ok; eassumption.
    - cbn [rloop_ref rloop_each] in *. inversion Hcf as [|? ? Hev Hr]; subst. cbn [snd] in Hev.
      set (c_k := match key with
                  | [] => c
                  | _ :: _ => match kb with [] => ctx_set key (VBytes []) true c | _ :: _ => ctx_set_bytes key kb c end
                  end).
      assert (A_k : abs c_k = match key with [] => abs c | _ :: _ => env_set key (VBytes kb) true (abs c) end).
      { unfold c_k. destruct key; [reflexivity|]. destruct kb; [apply abs_ctx_set|apply abs_ctx_set_bytes; discriminate]. }
      assert (I_k : Inv L c_k).
      { unfold c_k. destruct key; [exact HI|]. destruct kb.
        - apply Inv_ctx_set; [left; apply cell_free_bytes|apply not_live_cell_free, cell_free_bytes|exact HI].
        - apply Inv_ctx_set_bytes, HI. }
      fold c_k. rewrite <- A_k in Eq.
      set (c_v := ctx_set val ev (elem_static ev) c_k).
      assert (A_v : abs c_v = env_set val ev (elem_static ev) (abs c_k)).
      { unfold c_v. rewrite abs_ctx_set, Hev. reflexivity. }
      assert (I_v : Inv L c_v).
      { unfold c_v. apply Inv_ctx_set; [left; exact Hev|apply not_live_cell_free, Hev|exact I_k]. }
      fold c_v. rewrite <- A_v in Eq. change (e_brk (abs c_v)) with (brkD c_v) in Eq.
      destruct (0 <? brkD c_v).
      { eapply (rloop_finish_ok c_v w (S calls) acc base I_v Hw Hb); [|exact D].
        cbv zeta. rewrite <- Eq. destruct he; reflexivity. }
      change (region_of (abs c_v) sep) with (region_text c_v sep) in Eq.
      destruct (sep_ok sep w trips (region_text c_v sep) acc base Hw Hb) as (w_s & ES & F_s & B_s). rewrite ES.
      set (acc_s := match trips, sep with O, _ | _, [] => acc | _, _ => acc ++ region_text c_v sep end) in *.
      destruct (seq_with re body (abs c_v) [] false) as [[ob eb] sb] eqn:EBody.
      assert (Dsb : sig_dom sb).
      { destruct sb; try exact I; inversion Eq; subst; exact D. }
      destruct (Hbody c_v w_s I_v F_s ob eb sb EBody Dsb) as (c_b & w_b & eo_b & Wb & Bb & Fb & Pb & Sb).
      rewrite body_with_classify, Wb.
      assert (Bacc : wr_bytes w_b = base ++ acc_s ++ ob) by (rewrite Bb, B_s, app_assoc; reflexivity).
      destruct sb as [ | | | | |x| ]; cbn [sig_rel post] in Sb, Pb; try subst eo_b; cbn [classify].
      + destruct Pb as [Ab Ib]. rewrite <- Ab in Eq.
        eapply (IH c_b w_b (S calls) (S trips) (acc_s ++ ob) base Ib Fb Hr Bacc); eassumption.
      + destruct Pb as [Ab Ib]. rewrite <- Ab in Eq.
        eapply (rloop_finish_ok c_b w_b (S calls) (acc_s ++ ob) base Ib Fb Bacc); [|exact D].
        cbv zeta. rewrite <- Eq. destruct he; reflexivity.
      + destruct Pb as [Ab Ib]. rewrite <- Ab in Eq.
        eapply (rloop_finish_ok c_b w_b (S calls) (acc_s ++ ob) base Ib Fb Bacc); [|exact D].
        cbv zeta. rewrite <- Eq. destruct he; reflexivity.
      + destruct Pb as [Ab Ib]. rewrite <- Ab in Eq.
        eapply (IH c_b w_b (S calls) (S trips) (acc_s ++ ob) base Ib Fb Hr Bacc); eassumption.
      + destruct Pb as [Ab Ib]. inversion Eq; subst o e' s.
        eexists _, w_b, (Some EInterrupt). split; [reflexivity|]. split; [exact Bacc|]. split; [exact Fb|].
        split; [|reflexivity]. cbn [post]. split; [exact Ab|exact Ib].
      + destruct Pb as [Ab Ib]. inversion Eq; subst o e' s. cbn [sig_dom] in D.
        eexists _, w_b, (Some x). split; [destruct x; try reflexivity; discriminate D|].
        split; [exact Bacc|]. split; [exact Fb|]. split; [|reflexivity]. split; [exact Ab|exact Ib].
      + contradiction.
  Qed.
End RLoop.

(* ------------------------------------------------------------------ the range loop node *)

Lemma map_id_Forall {A} (f : A -> A) : forall l, map f l = l -> Forall (fun x => f x = x) l.
Proof.
  induction l as [|x l IH]; intros H; [constructor|]. cbn [map] in H. injection H as H1 H2.
  constructor; [exact H1|apply IH, H2].
Qed.

Lemma ins_loop_cell_free v elems :
  cell_free v -> ins_loop v = Some elems -> Forall (fun kx => cell_free (snd kx)) elems.
Proof.
  intros Hv E. apply Forall_forall. intros [k x] Hin lc. cbn [snd].
  pose proof (ins_loop_deref lc v) as D. rewrite Hv, E in D. cbn [option_map] in D. inversion D as [D1].
  symmetry in D1. apply map_id_Forall in D1. rewrite Forall_forall in D1. specialize (D1 (k, x) Hin).
  cbn [deref_kv] in D1. inversion D1 as [D2]. rewrite D2. exact D2.
Qed.

Lemma map_deref_kv_free lc elems :
  Forall (fun kx => cell_free (snd kx)) elems -> map (deref_kv lc) elems = elems.
Proof.
  induction 1 as [|[k x] l H _ IH]; [reflexivity|]. cbn [map deref_kv]. cbn [snd] in H. rewrite (H lc), IH. reflexivity.
Qed.

(* the elements a range loop walks over *)
Lemma range_elems n lc s rest :
  slot_ok n s ->
  let x := abs_entry lc s in
  let model := if s_static s then Some []
               else ins_loop (if is_nil (s_val s) then VNil else if s_static s then s_val s else ins_get (s_val s) rest) in
  let spec := if en_static x then Some [] else ins_loop (if is_nil (en_val x) then VNil else ins_get (en_val x) rest) in
  match model with
  | Some elems => spec = Some elems /\ Forall (fun kx => cell_free (snd kx)) elems
  | None => spec = None
  end.
Proof.
  intros Ok. pose proof (abs_entry_static n lc s Ok) as ST. destruct Ok as [Hst Hv]. cbv zeta. rewrite ST.
  destruct (s_static s) eqn:S1; [split; [reflexivity|constructor]|].
  assert (EV : en_val (abs_entry lc s) = deref lc (s_val s)).
  { unfold abs_entry. destruct (is_nil (s_val s)); cbn [andb] in *; [|reflexivity].
    destruct (nonempty (s_buf s)); cbn [orb] in *; [specialize (Hst eq_refl); discriminate|].
    destruct (s_cntrF s); [specialize (Hst eq_refl); discriminate|reflexivity]. }
  rewrite EV, is_nil_deref.
  destruct (is_nil (s_val s)); [split; [reflexivity|constructor]|].
  rewrite ins_get_deref, ins_loop_deref.
  destruct Hv as [CF|(i & Ei & Hi)].
  - pose proof (cell_free_ins_get _ rest CF) as CF'.
    destruct (ins_loop (ins_get (s_val s) rest)) as [elems|] eqn:IL; [|reflexivity].
    pose proof (ins_loop_cell_free _ _ CF' IL) as FE. cbn [option_map]. rewrite (map_deref_kv_free lc _ FE).
    split; [reflexivity|exact FE].
  - rewrite Ei. destruct rest; cbn; [reflexivity|split; [reflexivity|constructor]].
Qed.

Section RLoopNode.
  Variable flits : list (bytes * Z).
  Variable lookup : list bytes -> option tree.
  Variable budget : nat.
  Variable inc : tree -> ctx -> option (ctx * bytes * option err).
  Variable rlookup : list bytes -> option (list ast).
  Variable rinc : list ast -> env -> option res.
  Notation wn := (write_node flits lookup budget inc).
  Notation re := (ref_eval flits rlookup budget rinc).
  Notation node_ref := (node_ref flits lookup budget inc rlookup rinc).
  Notation items_ok := (items_ok flits lookup budget inc rlookup rinc).

  Theorem rloop_node_ref L key val src sep body els (he : bool) :
    items_ok false L body -> (he = true -> items_ok true L els) ->
    node_ref L (NLoopRange key val src sep
                  (loop_children (merge_raws (c_list compile body)) (merge_raws (c_list compile els)) he))
             (ARLoop key val src sep body els he).
  Proof.
    intros Hbody Hels c w HI Hw o e' s Eq D. cbn [ref_eval] in Eq. cbn [write_node].
    set (B := merge_raws (c_list compile body)) in *. set (E := merge_raws (c_list compile els)) in *.
    destruct (loop_children_body B E he (merge_raws_no_block _ (c_list_no_block body))) as (LB & LH & LE).
    rewrite LB, LH.
    change (brkD (set_cerr None c)) with (brkD c).
    set (cz := set_brkD 0 (set_cerr None c)).
    assert (Az : abs cz = set_ebrk 0 (abs c)) by reflexivity.
    assert (Iz : Inv L cz) by (apply Inv_set_brkD; [lia|exact HI]).
    assert (NS : 0 <= brkD c) by (destruct HI as (_&_&_&N); exact N).
    change (e_brk (abs c)) with (brkD c) in Eq. rewrite <- Az in Eq.
    assert (Hb0 : wr_bytes w = wr_bytes w ++ []) by (rewrite app_nil_r; reflexivity).
    assert (HB : forall c0 w0, Inv L c0 -> w_fail w0 = None ->
      forall o0 e0 s0, seq_with re body (abs c0) [] false = (o0, e0, s0) -> sig_dom s0 ->
      exists c' w' eo, walk_with wn B c0 w0 false = Out c' w' eo /\ wr_bytes w' = wr_bytes w0 ++ o0 /\
                       w_fail w' = None /\ post L s0 c' e0 /\ sig_rel s0 eo).
    { intros c0 w0 I0 F0 o0 e0 s0 Eb Db. unfold B.
      apply (block_ref flits lookup budget inc rlookup rinc L body Hbody c0 w0); assumption. }
    assert (HE : he = true -> forall c0 w0, Inv L c0 -> w_fail w0 = None ->
      forall o0 e0 s0, top_with re els (abs c0) [] = (o0, e0, s0) -> sig_dom s0 ->
      exists c' w' eo, run_nodes flits lookup budget inc (loop_else_nodes (loop_children B E he)) c0 w0 = Out c' w' eo /\
                       wr_bytes w' = wr_bytes w0 ++ o0 /\
                       w_fail w' = None /\ post L s0 c' e0 /\ sig_rel s0 eo).
    { intros Hhe c0 w0 I0 F0 o0 e0 s0 Eb Db. rewrite (LE Hhe). unfold E.
      apply (tpl_ref flits lookup budget inc rlookup rinc L els (Hels Hhe) c0 w0); assumption. }
    destruct (split_dot src) as [|k rest].
    { inversion Eq; subst o e' s. eexists _, w, None. split; [reflexivity|]. rewrite app_nil_r.
      split; [reflexivity|]. split; [exact Hw|]. split; [|reflexivity]. cbn [post]. split; [reflexivity|].
      apply Inv_set_brkD; [exact NS|exact Iz]. }
    cbn [ev abs] in Eq. fold (abs cz) in Eq. change (vars (set_brkD 0 (set_cerr None c))) with (vars cz) in Eq.
    change (bufLC (set_brkD 0 (set_cerr None c))) with (bufLC cz) in Eq.
    rewrite env_find_abs in Eq. change (vars (set_brkD 0 (set_cerr None c))) with (vars cz).
    destruct (find_var k (vars cz)) as [sl|] eqn:F; cbn [option_map] in Eq.
    - pose proof (range_elems _ (bufLC cz) sl rest (slots_ok_find cz k sl (Inv_slots _ _ Iz) F)) as RE.
      cbv zeta in RE.
      destruct (if s_static sl then Some []
                else ins_loop (if is_nil (s_val sl) then VNil else if s_static sl then s_val sl else ins_get (s_val sl) rest))
        as [elems|] eqn:EM.
      + destruct RE as [RE FE]. rewrite RE in Eq.
        eapply (rloop_each_ok flits lookup budget inc rlookup rinc L key val sep (brkD c) he B
                  (loop_else_nodes (loop_children B E he)) body els NS HB HE elems cz w 0%nat 0%nat [] (wr_bytes w));
          eassumption.
      + rewrite RE in Eq. inversion Eq; subst. contradiction.
    - (* no such variable: the else branch *)
      assert (X : (if he
                   then match else_with wn (loop_else_nodes (loop_children B E he)) cz w with
                        | Out c' w' _ => Out (set_brkD (Z.max (brkD c') (brkD c)) c') w' (cerr c')
                        | o => o
                        end
                   else Out (set_brkD (brkD c) cz) w (cerr cz)) =
                  rloop_each (fun c w => body_with wn B c w false) (else_with wn (loop_else_nodes (loop_children B E he)))
                             he key val sep (brkD c) [] cz w 0 0).
      { cbn [rloop_each]. unfold rloop_finish. change (0 <? brkD cz) with false. cbv iota.
        change (set_cerr None cz) with cz. destruct he; [reflexivity|].
        change (brkD cz) with 0. rewrite Z.max_r by exact NS. reflexivity. }
      rewrite X.
      eapply (rloop_each_ok flits lookup budget inc rlookup rinc L key val sep (brkD c) he B
                (loop_else_nodes (loop_children B E he)) body els NS HB HE [] cz w 0%nat 0%nat [] (wr_bytes w));
        try eassumption. constructor.
  Qed.
End RLoopNode.
