(* Flat templates (static text, comments, plain prints with optional prefix/suffix): the
   interpreter on the compiled tree writes exactly what the reference semantics says.

   Route: (1) an abstraction [abs] from interpreter contexts to reference stores, with live
   loop-counter cells read through ([deref]); (2) Ctx.get agrees with the reference lookup,
   including the a[i] substitution; (3) a writer-free semantics [list_sem] of flat node lists,
   which the interpreter realises on a healthy writer, which is invariant under the merging of
   adjacent raw nodes (the escapers of bound tags are flat_maps), and which agrees with the
   reference semantics item by item. *)
From DT Require Import Model.Bytes Proofs.BytesFacts Model.Value Model.Tree Model.Mods Model.Interp
  Model.EscURL Model.EscJSON Model.EscHTML Spec.Ast Spec.RefEval Spec.Compile Proofs.InterpFacts.
Local Open Scope Z_scope.

(* ------------------------------------------------------------------ abstraction *)

(* a live counter cell reads as the integer it currently holds *)
Fixpoint deref (lc : list Z) (v : value) : value :=
  match v with
  | VCell i => VInt (nth i lc 0)
  | VStruct fs => VStruct (map (fun kx => match kx with (k, x) => (k, deref lc x) end) fs)
  | VSlice l => VSlice (map (deref lc) l)
  | VMap kvs => VMap (map (fun kx => match kx with (k, x) => (k, deref lc x) end) kvs)
  | _ => v
  end.

Definition deref_kv (lc : list Z) (kx : bytes * value) : bytes * value :=
  match kx with (k, x) => (k, deref lc x) end.

Lemma assoc_deref lc seg : forall fs,
  assoc seg (map (deref_kv lc) fs) = option_map (deref lc) (assoc seg fs).
Proof.
  induction fs as [|[k x] fs IH]; [reflexivity|].
  cbn [map deref_kv assoc]. destruct (bytes_eqb seg k); [reflexivity|exact IH].
Qed.

Lemma ins_get_deref lc : forall path v, ins_get (deref lc v) path = deref lc (ins_get v path).
Proof.
  induction path as [|seg rest IH]; intros v; [reflexivity|].
  destruct v; try reflexivity.
  - (* VStruct *)
    cbn [deref ins_get]. fold (deref_kv lc). rewrite assoc_deref.
    destruct (assoc seg fs) as [x|]; cbn [option_map]; [apply IH|reflexivity].
  - (* VSlice *)
    cbn [deref ins_get]. rewrite map_length.
    destruct (parse_Z seg) as [i|]; [|reflexivity].
    destruct ((0 <=? i) && (i <? Z.of_nat (length l))); [|reflexivity].
    change VNil with (deref lc VNil) at 1. rewrite map_nth. apply IH.
  - (* VMap *)
    cbn [deref ins_get]. fold (deref_kv lc). rewrite assoc_deref.
    destruct (assoc seg kvs) as [x|]; cbn [option_map]; [apply IH|reflexivity].
Qed.

Lemma text_of_deref lc v : text_of [] (deref lc v) = text_of lc v.
Proof. destruct v; reflexivity. Qed.

Definition abs_entry (lc : list Z) (s : slot) : entry :=
  if is_nil (s_val s) && nonempty (s_buf s) then mkEntry (VBytes (s_buf s)) true
  else if is_nil (s_val s) && s_cntrF s then mkEntry (VInt (s_cntr s)) true
  else mkEntry (deref lc (s_val s)) (s_static s).

Definition abs_slot (lc : list Z) (s : slot) : bytes * entry := (s_key s, abs_entry lc s).

(* every slot becomes the entry of its live representation (bytes > counter > inspector value);
   the region flags, the index-substitution flag and the pending break depth are copied;
   Ctx.Err, BufB, the deferred list, the pool list, the depth and the event log are forgotten *)
Definition abs (c : ctx) : env :=
  mkEnv (map (abs_slot (bufLC c)) (vars c)) (chJQ c) (chHE c) (chUE c) (chQB c) (brkD c).

Lemma env_find_abs lc k : forall l,
  env_find k (map (abs_slot lc) l) = option_map (abs_entry lc) (find_var k l).
Proof.
  induction l as [|s l IH]; [reflexivity|].
  cbn [map abs_slot env_find find_var]. destruct (bytes_eqb (s_key s) k); [reflexivity|exact IH].
Qed.

Lemma entry_get_abs lc s rest : entry_get (abs_entry lc s) rest = deref lc (var_value s rest).
Proof.
  unfold entry_get, abs_entry, var_value.
  destruct (is_nil (s_val s) && nonempty (s_buf s)); [reflexivity|].
  destruct (is_nil (s_val s) && s_cntrF s); [reflexivity|].
  cbn [en_static en_val]. destruct (s_static s); [reflexivity|apply ins_get_deref].
Qed.

(* the value part of get_plain *)
Definition gp_val (c : ctx) (path : bytes) : value :=
  match split_dot path with
  | [] => VNil
  | k :: rest => match find_var k (vars c) with Some s => var_value s rest | None => VNil end
  end.

Lemma get_plain_eq c path : get_plain c path = (set_cerr None c, gp_val c path).
Proof.
  unfold get_plain, gp_val. destruct (split_dot path) as [|k rest]; [reflexivity|].
  cbn [vars set_cerr]. destruct (find_var k (vars c)); reflexivity.
Qed.

Lemma env_get_plain_abs c path : env_get_plain (abs c) path = deref (bufLC c) (gp_val c path).
Proof.
  unfold env_get_plain, gp_val. destruct (split_dot path) as [|k rest]; [reflexivity|].
  cbn [ev abs]. rewrite env_find_abs.
  destruct (find_var k (vars c)) as [s|]; cbn [option_map]; [apply entry_get_abs|reflexivity].
Qed.

Lemma gp_val_cerr e c path : gp_val (set_cerr e c) path = gp_val c path.
Proof. reflexivity. Qed.

(* Ctx.get against the reference lookup: same value (cells read through); the only failure is
   an a[i] whose index has no text, which the interpreter reports as ErrUnknownType *)
Lemma ctx_get_abs c path :
  exists eo v, ctx_get c path = (set_cerr eo c, v) /\
    match env_get (abs c) path with
    | Some v' => eo = None /\ v' = deref (bufLC c) v
    | None => eo = Some EUnknownType /\ v = VNil /\ chQB c = true
    end.
Proof.
  unfold ctx_get, env_get. cbn [e_qb abs]. fold (abs c).
  destruct (chQB c) eqn:Q.
  2:{ rewrite get_plain_eq. exists None, (gp_val c path). split; [reflexivity|].
      split; [reflexivity|apply env_get_plain_abs]. }
  unfold replace_qb.
  destruct (index_of "["%byte path 0) as [l|].
  2:{ cbn [cerr set_cerr]. rewrite get_plain_eq. exists None, (gp_val c path). split; [reflexivity|].
      split; [reflexivity|]. rewrite env_get_plain_abs. reflexivity. }
  destruct (index_of "]"%byte path 0) as [r|].
  2:{ cbn [cerr set_cerr]. rewrite get_plain_eq. exists None, (gp_val c path). split; [reflexivity|].
      split; [reflexivity|]. rewrite env_get_plain_abs. reflexivity. }
  destruct (Nat.ltb l r).
  2:{ cbn [cerr set_cerr]. rewrite get_plain_eq. exists None, (gp_val c path). split; [reflexivity|].
      split; [reflexivity|]. rewrite env_get_plain_abs. reflexivity. }
  rewrite get_plain_eq. rewrite gp_val_cerr. rewrite env_get_plain_abs.
  cbn [bufLC set_cerr].
  set (inner := firstn (r - S l) (skipn (S l) path)).
  rewrite <- (text_of_deref (bufLC c) (gp_val c inner)).
  destruct (gp_val c inner) as [ |b|z|z|bits txt|s|s|i|fs|ls|kvs| ] eqn:EV; cbn [deref text_of];
    try (cbn [cerr set_cerr]; rewrite get_plain_eq;
         eexists None, _; split; [reflexivity|]; split; [reflexivity|];
         rewrite env_get_plain_abs; reflexivity);
    try (exists (Some EUnknownType), VNil; split; [reflexivity|]; repeat split; reflexivity).
Qed.

(* ------------------------------------------------------------------ region text *)

Lemma region_of_abs c p : region_of (abs c) p = region_text c p.
Proof. reflexivity. Qed.

Lemma region_text_nil c : region_text c [] = [].
Proof. unfold region_text. destruct (chJQ c), (chHE c), (chUE c); reflexivity. Qed.

(* the escapers of the bound tags work byte by byte, so text may be split anywhere *)
Lemma region_text_app c a b : region_text c (a ++ b) = region_text c a ++ region_text c b.
Proof.
  unfold region_text, json_escape, html_escape, url_encode.
  destruct (chJQ c); [apply flat_map_app|].
  destruct (chHE c); [apply flat_map_app|].
  destruct (chUE c); [apply flat_map_app|reflexivity].
Qed.

(* ------------------------------------------------------------------ writer-free semantics *)

Definition tpl_sem (c : ctx) (raw pfx sfx : bytes) : bytes * ctx * option err :=
  let '(c1, v) := ctx_get (set_cerr None c) raw in
  match cerr c1 with
  | Some e => ([], c1, Some e)
  | None =>
    match v with
    | VNil => ([], c1, None)
    | _ => match text_of (bufLC c1) v with
           | None => ([], c1, Some EUnknownType)
           | Some [] => ([], c1, None)
           | Some t => (region_text c1 pfx ++ region_text c1 t ++ region_text c1 sfx, c1, None)
           end
    end
  end.

Definition flat_node (n : node) : bool :=
  match n with NRaw _ => true | NTpl _ _ _ false [] => true | _ => false end.

Definition node_sem (n : node) (c : ctx) : bytes * ctx * option err :=
  match n with
  | NRaw raw => (region_text c raw, set_cerr None c, None)
  | NTpl raw pfx sfx false [] => tpl_sem c raw pfx sfx
  | _ => ([], c, None)
  end.

Fixpoint list_sem (l : list node) (c : ctx) : bytes * ctx * option err :=
  match l with
  | [] => ([], c, None)
  | n :: r =>
    let '(o, c1, e) := node_sem n c in
    match e with
    | None => let '(o2, c2, e2) := list_sem r c1 in (o ++ o2, c2, e2)
    | Some x => (o, c1, Some x)
    end
  end.

Lemma list_sem_app l1 : forall l2 c,
  list_sem (l1 ++ l2) c =
  let '(o, c1, e) := list_sem l1 c in
  match e with
  | None => let '(o2, c2, e2) := list_sem l2 c1 in (o ++ o2, c2, e2)
  | Some x => (o, c1, Some x)
  end.
Proof.
  induction l1 as [|n l1 IH]; intros l2 c.
  - cbn [app list_sem]. destruct (list_sem l2 c) as [[o2 c2] e2]. reflexivity.
  - cbn [app list_sem]. destruct (node_sem n c) as [[o c1] [x|]]; [reflexivity|].
    rewrite IH. destruct (list_sem l1 c1) as [[o1 c1'] [x|]]; [reflexivity|].
    destruct (list_sem l2 c1') as [[o2 c2] e2]. rewrite app_assoc. reflexivity.
Qed.

(* merging adjacent raw nodes does not change what is written *)
Lemma list_sem_merge : forall l c, list_sem (merge_raws l) c = list_sem l c.
Proof.
  induction l as [|n l IH]; intros c; [reflexivity|].
  destruct n; try (cbn [merge_raws list_sem]; destruct (node_sem _ c) as [[o c1] [x|]]; [reflexivity|];
                   rewrite IH; reflexivity).
  (* NRaw *)
  cbn [merge_raws].
  destruct (merge_raws l) as [|m r'] eqn:E.
  - cbn [list_sem node_sem]. rewrite <- IH. reflexivity.
  - assert (G : list_sem (NRaw raw :: m :: r') c = list_sem (NRaw raw :: l) c).
    { cbn [list_sem node_sem]. rewrite <- IH. reflexivity. }
    destruct m; try exact G.
    rewrite <- G. cbn [list_sem node_sem].
    change (set_cerr None (set_cerr None c)) with (set_cerr None c).
    change (region_text (set_cerr None c) raw0) with (region_text c raw0).
    destruct (list_sem r' (set_cerr None c)) as [[o2 c2] e2].
    rewrite region_text_app, app_assoc. reflexivity.
Qed.

Lemma merge_raws_flat : forall l, forallb flat_node l = true -> forallb flat_node (merge_raws l) = true.
Proof.
  induction l as [|n l IH]; intros H; [reflexivity|].
  cbn [forallb] in H. apply andb_true_iff in H. destruct H as [Hn Hl]. specialize (IH Hl).
  destruct n; try discriminate Hn.
  - cbn [merge_raws]. destruct (merge_raws l) as [|m r']; [reflexivity|].
    destruct m; cbn [forallb flat_node] in *; try exact IH; try discriminate IH.
  - cbn [merge_raws forallb]. rewrite Hn, IH. reflexivity.
Qed.

(* ------------------------------------------------------------------ interpreter = list_sem *)

Lemma write_raw_healthy c w p :
  w_fail w = None ->
  exists w1, write_raw c w p = (w1, None) /\ wr_bytes w1 = wr_bytes w ++ region_text c p /\ w_fail w1 = None.
Proof.
  intros Hw. unfold write_raw.
  pose proof (wr_write_healthy w (region_text c p) Hw) as (H1 & H2 & H3 & H4).
  destruct (wr_write w (region_text c p)) as [w1 ok]. cbn [fst snd] in *. subst ok.
  exists w1. repeat split; assumption.
Qed.

Lemma write_value_healthy c w t pfx sfx :
  w_fail w = None ->
  exists w', write_value c w t pfx sfx false = Out c w' None /\
             wr_bytes w' = wr_bytes w ++ region_text c pfx ++ region_text c t ++ region_text c sfx /\
             w_fail w' = None.
Proof.
  intros Hw. unfold write_value.
  assert (P : exists w1, (match pfx with [] => (w, None) | _ :: _ => write_raw c w pfx end) = (w1, None) /\
                         wr_bytes w1 = wr_bytes w ++ region_text c pfx /\ w_fail w1 = None).
  { destruct pfx as [|p0 pfx].
    - exists w. rewrite region_text_nil, app_nil_r. repeat split; assumption.
    - apply write_raw_healthy, Hw. }
  destruct P as (w1 & E1 & B1 & F1). rewrite E1.
  destruct (write_raw_healthy c w1 t F1) as (w2 & E2 & B2 & F2). rewrite E2.
  destruct sfx as [|s0 sfx].
  - exists w2. split; [reflexivity|]. split; [|exact F2].
    rewrite B2, B1, region_text_nil, app_nil_r, <- app_assoc. reflexivity.
  - destruct (write_raw_healthy c w2 (s0 :: sfx) F2) as (w3 & E3 & B3 & F3). rewrite E3.
    exists w3. split; [reflexivity|]. split; [|exact F3].
    rewrite B3, B2, B1, <- !app_assoc. reflexivity.
Qed.

Section WithInterp.
  Variable flits : list (bytes * Z).
  Variable lookup : list bytes -> option tree.
  Variable budget : nat.
  Variable inc : tree -> ctx -> option (ctx * bytes * option err).
  Notation wn := (write_node flits lookup budget inc).
  Notation rn := (run_nodes flits lookup budget inc).

  Lemma wn_flat n c w :
    flat_node n = true -> w_fail w = None ->
    exists w', wn n c w = Out (snd (fst (node_sem n c))) w' (snd (node_sem n c)) /\
               wr_bytes w' = wr_bytes w ++ fst (fst (node_sem n c)) /\ w_fail w' = None.
  Proof.
    intros Hn Hw. destruct n; try discriminate Hn.
    - (* NRaw *)
      cbn [write_node node_sem fst snd].
      destruct (write_raw_healthy (set_cerr None c) w raw Hw) as (w1 & E1 & B1 & F1).
      rewrite E1. exists w1. repeat split; assumption.
    - (* NTpl *)
      destruct noesc; [discriminate Hn|]. destruct mods; [|discriminate Hn].
      cbn [write_node node_sem]. unfold tpl_sem.
      destruct (ctx_get (set_cerr None c) raw) as [c1 v].
      destruct (cerr c1) as [e|] eqn:Ec.
      { exists w. cbn [fst snd]. rewrite app_nil_r. repeat split; assumption. }
      cbn [run_mods]. rewrite Ec.
      destruct v; cbn [text_of fst snd];
        try (exists w; rewrite app_nil_r; repeat split; assumption);
        match goal with
        | |- context [match ?t with [] => _ | _ :: _ => _ end] =>
          destruct t as [|b0 t0] eqn:Et; cbn [fst snd];
          [exists w; rewrite app_nil_r; repeat split; assumption | apply write_value_healthy, Hw]
        end.
  Qed.

  Lemma rn_flat : forall l c w,
    forallb flat_node l = true -> w_fail w = None ->
    exists w', rn l c w = Out (snd (fst (list_sem l c))) w' (snd (list_sem l c)) /\
               wr_bytes w' = wr_bytes w ++ fst (fst (list_sem l c)) /\ w_fail w' = None.
  Proof.
    induction l as [|n l IH]; intros c w Hl Hw.
    - exists w. cbn. rewrite app_nil_r. repeat split; assumption.
    - cbn [forallb] in Hl. apply andb_true_iff in Hl. destruct Hl as [Hn Hl].
      destruct (wn_flat n c w Hn Hw) as (w1 & E1 & B1 & F1).
      cbn [run_nodes list_sem]. rewrite E1.
      destruct (node_sem n c) as [[o c1] [x|]]; cbn [fst snd] in *.
      + exists w1. repeat split; assumption.
      + destruct (IH c1 w1 Hl F1) as (w2 & E2 & B2 & F2). rewrite E2.
        destruct (list_sem l c1) as [[o2 c2] e2]; cbn [fst snd] in *.
        exists w2. split; [reflexivity|]. split; [|exact F2].
        rewrite B2, B1, app_assoc. reflexivity.
  Qed.
End WithInterp.

(* ------------------------------------------------------------------ list_sem = reference *)

Definition flat_item (a : ast) : bool :=
  match a with
  | AText _ | AComment _ => true
  | APrint [] _ [] _ _ false => true
  | _ => false
  end.

(* how the reference signal shows in the interpreter's error result.  In this fragment the
   reference semantics can only leave its domain (SNA) through an a[i] whose index has no text,
   inside a counter loop; the interpreter then stops with ErrUnknownType. *)
Definition sig_ok (qb : bool) (s : sig) (eo : option err) : Prop :=
  match s with
  | SNone => eo = None
  | SErr x => eo = Some x
  | SNA => qb = true /\ eo = Some EUnknownType
  | _ => False
  end.

Lemma top_with_acc f : forall l e acc,
  top_with f l e acc = let '(o, e1, s) := top_with f l e [] in (acc ++ o, e1, s).
Proof.
  induction l as [|a l IH]; intros e acc.
  - cbn. rewrite app_nil_r. reflexivity.
  - cbn [top_with]. destruct (f a e) as [[o e1] s].
    destruct s; cbn [app]; try (rewrite ?app_nil_r; reflexivity).
    rewrite (IH e1 (acc ++ o)), (IH e1 o).
    destruct (top_with f l e1 []) as [[o2 e2] s2]. rewrite app_assoc. reflexivity.
Qed.

Section WithRef.
  Variable flits : list (bytes * Z).
  Variable rlookup : list bytes -> option (list ast).
  Variable rbudget : nat.
  Variable rinc : list ast -> env -> option res.
  Notation re := (ref_eval flits rlookup rbudget rinc).

  Lemma tpl_sem_ref c path pfx sfx :
    exists o x eo s,
      tpl_sem c path pfx sfx = (o, set_cerr x c, eo) /\
      ref_print (abs c) [] path [] pfx sfx false = (o, abs c, s) /\
      sig_ok (chQB c) s eo.
  Proof.
    unfold tpl_sem, ref_print.
    destruct (ctx_get_abs (set_cerr None c) path) as (eo & v & E & R).
    rewrite E. change (abs (set_cerr None c)) with (abs c) in R.
    change (set_cerr eo (set_cerr None c)) with (set_cerr eo c).
    cbn [cerr set_cerr bufLC chQB] in *.
    destruct (env_get (abs c) path) as [v'|].
    - destruct R as [-> ->]. cbn [print_value apply_mods letter_runs apply_letters].
      unfold emit_value. rewrite text_of_deref.
      destruct v; cbn [deref text_of];
        try (exists [], None, None, SNone; repeat split; reflexivity);
        try (exists [], None, (Some EUnknownType), (SErr EUnknownType); repeat split; reflexivity);
        match goal with
        | |- context [match ?t with [] => _ | _ :: _ => _ end] =>
          destruct t as [|b0 t0];
          [ exists [], None, None, SNone; repeat split; reflexivity
          | eexists _, None, None, SNone; repeat split; reflexivity ]
        end.
    - destruct R as (-> & -> & Q).
      exists [], (Some EUnknownType), (Some EUnknownType), SNA. repeat split; try reflexivity. exact Q.
  Qed.

  Lemma item_sem a c :
    flat_item a = true ->
    exists o c' eo s,
      list_sem (compile a) c = (o, c', eo) /\ abs c' = abs c /\
      re a (abs c) = (o, abs c, s) /\ sig_ok (chQB c) s eo.
  Proof.
    intros Ha. destruct a; try discriminate Ha.
    - (* AText *)
      destruct t as [|b t].
      + exists [], c, None, SNone. cbn [compile list_sem ref_eval]. rewrite region_of_abs, region_text_nil.
        repeat split; reflexivity.
      + exists (region_text c (b :: t)), (set_cerr None c), None, SNone.
        cbn [compile list_sem node_sem ref_eval]. rewrite region_of_abs, app_nil_r.
        repeat split; reflexivity.
    - (* AComment *)
      exists [], c, None, SNone. repeat split; reflexivity.
    - (* APrint *)
      destruct letters; [|discriminate Ha]. destruct mods; [|discriminate Ha].
      destruct raw; [discriminate Ha|].
      destruct (tpl_sem_ref c path pfx sfx) as (o & x & eo & s & E1 & E2 & S).
      exists o, (set_cerr x c), eo, s.
      cbn [compile c_print map app letter_runs c_letters list_sem node_sem ref_eval].
      rewrite E1, E2.
      split; [|split; [reflexivity|split; [reflexivity|exact S]]].
      destruct eo; [reflexivity|]. rewrite app_nil_r. reflexivity.
  Qed.

  Lemma compile_flat a : flat_item a = true -> forallb flat_node (compile a) = true.
  Proof.
    intros Ha. destruct a; try discriminate Ha.
    - destruct t; reflexivity.
    - reflexivity.
    - destruct letters; [|discriminate Ha]. destruct mods; [|discriminate Ha].
      destruct raw; [discriminate Ha|]. reflexivity.
  Qed.

  Lemma c_list_flat : forall items,
    forallb flat_item items = true -> forallb flat_node (c_list compile items) = true.
  Proof.
    induction items as [|a items IH]; intros H; [reflexivity|].
    cbn [forallb] in H. apply andb_true_iff in H. destruct H as [Ha Hi].
    cbn [c_list]. rewrite forallb_app, (compile_flat a Ha), (IH Hi). reflexivity.
  Qed.

  Lemma items_sem : forall items c,
    forallb flat_item items = true ->
    exists o c' eo s,
      list_sem (c_list compile items) c = (o, c', eo) /\ abs c' = abs c /\
      ref_items flits rlookup rbudget rinc items (abs c) = (o, abs c, s) /\ sig_ok (chQB c) s eo.
  Proof.
    unfold ref_items.
    induction items as [|a items IH]; intros c H.
    - exists [], c, None, SNone. repeat split; reflexivity.
    - cbn [forallb] in H. apply andb_true_iff in H. destruct H as [Ha Hi].
      destruct (item_sem a c Ha) as (o & c1 & eo & s & E1 & A1 & R1 & S1).
      cbn [c_list top_with]. rewrite list_sem_app, E1, R1.
      destruct s; cbn [sig_ok] in S1; try contradiction.
      + (* SNone *)
        subst eo.
        destruct (IH c1 Hi) as (o2 & c2 & eo2 & s2 & E2 & A2 & R2 & S2).
        rewrite E2. rewrite A1 in R2.
        cbn [app]. rewrite top_with_acc, R2.
        exists (o ++ o2), c2, eo2, s2.
        split; [reflexivity|]. split; [congruence|]. split; [reflexivity|].
        replace (chQB c) with (chQB c1); [exact S2|].
        change (e_qb (abs c1) = e_qb (abs c)). rewrite A1. reflexivity.
      + (* SErr *)
        subst eo. exists o, c1, (Some e), (SErr e). repeat split; try reflexivity. exact A1.
      + (* SNA *)
        destruct S1 as [Q ->]. exists o, c1, (Some EUnknownType), SNA.
        repeat split; try reflexivity; assumption.
  Qed.
End WithRef.

(* ------------------------------------------------------------------ the theorem *)

Theorem render_flat_items :
  forall flits lookup budget inc rlookup rbudget rinc items c w,
    forallb flat_item items = true -> w_fail w = None ->
    exists c' w' eo out s,
      run_nodes flits lookup budget inc (compile_tpl items) c w = Out c' w' eo /\
      ref_items flits rlookup rbudget rinc items (abs c) = (out, abs c', s) /\
      wr_bytes w' = wr_bytes w ++ out /\ w_fail w' = None /\
      abs c' = abs c /\ sig_ok (chQB c) s eo.
Proof.
  intros flits lookup budget inc rlookup rbudget rinc items c w Hi Hw.
  unfold compile_tpl.
  pose proof (merge_raws_flat _ (c_list_flat items Hi)) as Hf.
  destruct (rn_flat flits lookup budget inc _ c w Hf Hw) as (w' & E & B & F).
  rewrite list_sem_merge in E, B.
  destruct (items_sem flits rlookup rbudget rinc items c Hi) as (o & c' & eo & s & E1 & A1 & R1 & S1).
  rewrite E1 in E, B. cbn [fst snd] in E, B.
  exists c', w', eo, o, s. rewrite A1. repeat split; assumption.
Qed.

(* without index substitution (outside counter-loop bodies) the reference semantics is always
   defined on flat templates: success, or ErrUnknownType for a value that has no text *)
Corollary render_flat_items_noqb :
  forall flits lookup budget inc rlookup rbudget rinc items c w,
    forallb flat_item items = true -> w_fail w = None -> chQB c = false ->
    exists c' w' eo out s,
      run_nodes flits lookup budget inc (compile_tpl items) c w = Out c' w' eo /\
      ref_items flits rlookup rbudget rinc items (abs c) = (out, abs c', s) /\
      wr_bytes w' = wr_bytes w ++ out /\ w_fail w' = None /\
      ((s = SNone /\ eo = None) \/ (exists x, s = SErr x /\ eo = Some x)).
Proof.
  intros flits lookup budget inc rlookup rbudget rinc items c w Hi Hw Q.
  destruct (render_flat_items flits lookup budget inc rlookup rbudget rinc items c w Hi Hw)
    as (c' & w' & eo & out & s & E & R & B & F & _ & S).
  exists c', w', eo, out, s. repeat split; try assumption.
  destruct s; cbn [sig_ok] in S; try contradiction.
  - left. split; [reflexivity|exact S].
  - right. exists e. split; [reflexivity|exact S].
  - destruct S as [Q' _]. congruence.
Qed.
