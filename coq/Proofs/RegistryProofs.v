(* Proofs for C04: the repaired registry (Model/Registry.v) refines the registration-group
   specification (Spec/RegistrySpec.v); Parse returns a tree of its own source. *)
From DT Require Import Model.Bytes Model.Registry Spec.RegistrySpec Proofs.BytesFacts.
Local Open Scope byte_scope.

(* ---------- generic list facts ---------- *)

Lemma bytes_eqb_refl a : bytes_eqb a a = true.
Proof. apply bytes_eqb_eq. reflexivity. Qed.

Lemma set_nth_length {A} (x : A) : forall l i, length (set_nth i x l) = length l.
Proof.
  induction l as [|y l IH]; intros [|i]; simpl; try reflexivity.
  rewrite IH. reflexivity.
Qed.

Lemma set_nth_Forall {A} (P : A -> Prop) (x : A) : forall l i,
  P x -> Forall P l -> Forall P (set_nth i x l).
Proof.
  induction l as [|y l IH]; intros [|i] Hx Hl; simpl; try assumption.
  - inversion Hl; subst. constructor; assumption.
  - inversion Hl; subst. constructor; [assumption|]. apply IH; assumption.
Qed.

Lemma find_pos_lt {A} (p : A -> bool) : forall l i, find_pos p l = Some i -> i < length l.
Proof.
  induction l as [|x l IH]; intros i H; simpl in *.
  - discriminate.
  - destruct (p x).
    + inversion H; subst. lia.
    + destruct (find_pos p l) as [j|] eqn:F; simpl in H; [|discriminate].
      inversion H; subst. specialize (IH j eq_refl). lia.
Qed.

Lemma find_find_pos {A} (p : A -> bool) : forall l,
  find p l = match find_pos p l with Some i => nth_error l i | None => None end.
Proof.
  induction l as [|x l IH]; simpl.
  - reflexivity.
  - destruct (p x).
    + reflexivity.
    + rewrite IH. destruct (find_pos p l); reflexivity.
Qed.

Lemma find_pos_snoc {A} (p : A -> bool) (x : A) : forall l,
  find_pos p (l ++ [x]) =
  match find_pos p l with
  | Some i => Some i
  | None => if p x then Some (length l) else None
  end.
Proof.
  induction l as [|y l IH]; simpl.
  - destruct (p x); reflexivity.
  - destruct (p y).
    + reflexivity.
    + rewrite IH. destruct (find_pos p l); simpl; [reflexivity|].
      destruct (p x); reflexivity.
Qed.

Lemma find_pos_map_same {A} (p : A -> bool) (s : A -> A) :
  (forall g, p (s g) = p g) -> forall l, find_pos p (map s l) = find_pos p l.
Proof.
  intros Hs. induction l as [|x l IH]; simpl.
  - reflexivity.
  - rewrite Hs, IH. reflexivity.
Qed.

Lemma find_pos_map_none {A} (p : A -> bool) (s : A -> A) :
  (forall g, p (s g) = false) -> forall l, find_pos p (map s l) = None.
Proof.
  intros Hs. induction l as [|x l IH]; simpl.
  - reflexivity.
  - rewrite Hs, IH. reflexivity.
Qed.

(* the effect of re-registering element i on a membership test p:
   c = "p asks for the name being registered", v = "that name is given" *)
Lemma find_pos_upd_at {A} (p : A -> bool) (f s : A -> A) (c v : bool) :
  (forall g, p (s g) = if c then false else p g) ->
  (forall g, p (f g) = if c then v else p g) ->
  forall l i, i < length l ->
  find_pos p (upd_at f s i l) = if c then (if v then Some i else None) else find_pos p l.
Proof.
  intros Hs Hf. destruct c.
  - induction l as [|x l IH]; intros i Hi; simpl in Hi.
    + lia.
    + destruct i as [|i]; simpl.
      * rewrite Hf. destruct v; [reflexivity|].
        rewrite (find_pos_map_none p s Hs). reflexivity.
      * rewrite Hs. rewrite IH by lia. destruct v; reflexivity.
  - induction l as [|x l IH]; intros i Hi; simpl in Hi.
    + lia.
    + destruct i as [|i]; simpl.
      * rewrite Hf. rewrite (find_pos_map_same p s Hs). reflexivity.
      * rewrite Hs. rewrite IH by lia. reflexivity.
Qed.

Lemma existsb_filter_ne {K} (eqb : K -> K -> bool)
  (Heq : forall a b, eqb a b = true <-> a = b) (k key : K) : forall l,
  existsb (eqb k) (filter (fun x => negb (eqb key x)) l) =
  if eqb k key then false else existsb (eqb k) l.
Proof.
  induction l as [|a l IH]; simpl.
  - destruct (eqb k key); reflexivity.
  - destruct (eqb key a) eqn:E1; simpl.
    + apply Heq in E1. subst a. rewrite IH. destruct (eqb k key); reflexivity.
    + rewrite IH. destruct (eqb k key) eqn:E2.
      * apply Heq in E2. subst k. rewrite E1. reflexivity.
      * reflexivity.
Qed.

Lemma assoc_push {K} (eqb : K -> K -> bool) (g : bool) (key k : K) (i : nat) l :
  assoc eqb k (if g then (key, i) :: l else l) =
  if g && eqb k key then Some i else assoc eqb k l.
Proof. destruct g; simpl; reflexivity. Qed.

Lemma assoc_in {K} (eqb : K -> K -> bool) (k : K) : forall l i,
  assoc eqb k l = Some i -> exists k0, In (k0, i) l.
Proof.
  induction l as [|[k0 v] l IH]; intros i H; simpl in H.
  - discriminate.
  - destruct (eqb k k0).
    + inversion H; subst. exists k0. left. reflexivity.
    + destruct (IH i H) as [k1 H1]. exists k1. right. exact H1.
Qed.

(* ---------- names of a registration after strip / claim / new ---------- *)

Lemma has_key_strip k id key g :
  has_key k (strip id key g) = if bytes_eqb k key then false else has_key k g.
Proof. unfold has_key, strip; cbn [r_keys]. apply existsb_filter_ne. intros a b. apply bytes_eqb_eq. Qed.

Lemma has_id_strip i id key g :
  has_id i (strip id key g) = if Z.eqb i id then false else has_id i g.
Proof. unfold has_id, strip; cbn [r_ids]. apply existsb_filter_ne. intros a b. apply Z.eqb_eq. Qed.

Lemma has_key_claim k id key src g :
  has_key k (claim id key src g) = if bytes_eqb k key then key_given key else has_key k g.
Proof.
  unfold claim. pose proof (has_key_strip k id key g) as Hs. unfold has_key in *. cbn [r_keys].
  destruct (key_given key); cbn [existsb]; rewrite Hs; destruct (bytes_eqb k key); reflexivity.
Qed.

Lemma has_id_claim i id key src g :
  has_id i (claim id key src g) = if Z.eqb i id then id_given id else has_id i g.
Proof.
  unfold claim. pose proof (has_id_strip i id key g) as Hs. unfold has_id in *. cbn [r_ids].
  destruct (id_given id); cbn [existsb]; rewrite Hs; destruct (Z.eqb i id); reflexivity.
Qed.

Lemma has_key_new k id key src : has_key k (new_reg id key src) = key_given key && bytes_eqb k key.
Proof.
  unfold has_key, new_reg; cbn [r_keys]. destruct (key_given key); simpl; [|reflexivity].
  destruct (bytes_eqb k key); reflexivity.
Qed.

Lemma has_id_new i id key src : has_id i (new_reg id key src) = id_given id && Z.eqb i id.
Proof.
  unfold has_id, new_reg; cbn [r_ids]. destruct (id_given id); simpl; [|reflexivity].
  destruct (Z.eqb i id); reflexivity.
Qed.

Lemma find_key_upd k id key src gs i : i < length gs ->
  find_pos (has_key k) (upd_at (claim id key src) (strip id key) i gs) =
  if bytes_eqb k key then (if key_given key then Some i else None) else find_pos (has_key k) gs.
Proof.
  intros Hi. apply find_pos_upd_at; [| |exact Hi]; intros g.
  - apply has_key_strip.
  - apply has_key_claim.
Qed.

Lemma find_id_upd j id key src gs i : i < length gs ->
  find_pos (has_id j) (upd_at (claim id key src) (strip id key) i gs) =
  if Z.eqb j id then (if id_given id then Some i else None) else find_pos (has_id j) gs.
Proof.
  intros Hi. apply find_pos_upd_at; [| |exact Hi]; intros g.
  - apply has_id_strip.
  - apply has_id_claim.
Qed.

Lemma spec_target_lt id key gs i : spec_target id key gs = Some i -> i < length gs.
Proof.
  unfold spec_target. intros H.
  destruct (key_given key).
  - destruct (find_pos (has_key key) gs) as [a|] eqn:F.
    + inversion H; subst. eapply find_pos_lt; eassumption.
    + destruct (id_given id); [|discriminate]. eapply find_pos_lt; eassumption.
  - destruct (id_given id); [|discriminate]. eapply find_pos_lt; eassumption.
Qed.

Lemma spec_target_none_key id key gs :
  spec_target id key gs = None -> key_given key = true -> find_pos (has_key key) gs = None.
Proof.
  unfold spec_target. intros H Kg. rewrite Kg in H.
  destruct (find_pos (has_key key) gs); [discriminate|reflexivity].
Qed.

Lemma spec_target_none_id id key gs :
  spec_target id key gs = None -> id_given id = true -> find_pos (has_id id) gs = None.
Proof.
  unfold spec_target. intros H Ig. rewrite Ig in H.
  destruct (if key_given key then find_pos (has_key key) gs else None); [discriminate|exact H].
Qed.

(* ---------- structural well-formedness: independent of the checksum ---------- *)

Record db_wf (d : db) : Prop := {
  wf_key_range : Forall (fun e => snd e < length (slots d)) (idxKey d);
  wf_id_range : Forall (fun e => snd e < length (slots d)) (idxID d);
  wf_hash_range : Forall (fun e => snd e < length (slots d)) (idxHash d);
  wf_nokey : assoc bytes_eqb no_key (idxKey d) = None;
  wf_noid : forall i, (i < 0)%Z -> assoc Z.eqb i (idxID d) = None
}.

Lemma db_empty_wf : db_wf db_empty.
Proof. constructor; simpl; try constructor; reflexivity. Qed.

Lemma slot_idx_lt d id key i : slot_idx d id key = Some i -> i < length (slots d).
Proof.
  unfold slot_idx. destruct (get_idx_lf d id key) as [j|]; [|discriminate].
  destruct (j <? length (slots d)) eqn:L; [|discriminate].
  intros H; inversion H; subst. apply Nat.ltb_lt. exact L.
Qed.

Lemma Forall_range_mono {K} (l : list (K * nat)) n n' :
  n <= n' -> Forall (fun e => snd e < n) l -> Forall (fun e => snd e < n') l.
Proof. intros Hn. apply Forall_impl. intros e He. lia. Qed.

Lemma db_set_wf d id key t : db_wf d -> db_wf (db_set d id key t).
Proof.
  intros W. unfold db_set.
  set (p := {| p_id := id; p_key := key; p_tree := t |}).
  destruct (slot_idx d id key) as [i|] eqn:T.
  - apply slot_idx_lt in T.
    constructor; cbn [slots idxKey idxID idxHash]; rewrite ?set_nth_length.
    + destruct (negb (bytes_eqb key no_key)); [constructor; [exact T|]|]; apply (wf_key_range _ W).
    + destruct (0 <=? id)%Z; [constructor; [exact T|]|]; apply (wf_id_range _ W).
    + constructor; [exact T|]. apply (wf_hash_range _ W).
    + destruct (bytes_eqb key no_key) eqn:E; cbn [negb]; [apply (wf_nokey _ W)|].
      cbn [assoc]. assert (bytes_eqb no_key key = false) as E'.
      { destruct (bytes_eqb no_key key) eqn:E2; [|reflexivity].
        apply bytes_eqb_eq in E2. subst key. rewrite bytes_eqb_refl in E. discriminate. }
      rewrite E'. apply (wf_nokey _ W).
    + intros j Hj. destruct (0 <=? id)%Z eqn:E; [|apply (wf_noid _ W); exact Hj].
      cbn [assoc]. assert (Z.eqb j id = false) as E' by (apply Z.eqb_neq; lia).
      rewrite E'. apply (wf_noid _ W). exact Hj.
  - constructor; cbn [slots idxKey idxID idxHash]; rewrite ?app_length; cbn [length].
    + destruct (negb (bytes_eqb key no_key)); [constructor; [cbn [snd]; lia|]|];
        (eapply Forall_range_mono; [|apply (wf_key_range _ W)]; lia).
    + destruct (0 <=? id)%Z; [constructor; [cbn [snd]; lia|]|];
        (eapply Forall_range_mono; [|apply (wf_id_range _ W)]; lia).
    + constructor; [cbn [snd]; lia|].
      eapply Forall_range_mono; [|apply (wf_hash_range _ W)]; lia.
    + destruct (bytes_eqb key no_key) eqn:E; cbn [negb]; [apply (wf_nokey _ W)|].
      cbn [assoc]. assert (bytes_eqb no_key key = false) as E'.
      { destruct (bytes_eqb no_key key) eqn:E2; [|reflexivity].
        apply bytes_eqb_eq in E2. subst key. rewrite bytes_eqb_refl in E. discriminate. }
      rewrite E'. apply (wf_nokey _ W).
    + intros j Hj. destruct (0 <=? id)%Z eqn:E; [|apply (wf_noid _ W); exact Hj].
      cbn [assoc]. assert (Z.eqb j id = false) as E' by (apply Z.eqb_neq; lia).
      rewrite E'. apply (wf_noid _ W). exact Hj.
Qed.

Lemma db_step_with_wf prs d op : db_wf d -> db_wf (fst (db_step_with prs d op)).
Proof.
  intros W. destruct op; cbn [db_step_with fst]; try exact W.
  apply db_set_wf. exact W.
Qed.

Lemma run_db_with_wf prs : forall ops d, db_wf d -> db_wf (run_db_with prs d ops).
Proof.
  induction ops as [|op ops IH]; intros d W; cbn [run_db_with].
  - exact W.
  - apply IH. apply db_step_with_wf. exact W.
Qed.

Lemma reachable_wf hash ops : db_wf (run_db hash db_empty ops).
Proof. apply run_db_with_wf. exact db_empty_wf. Qed.

(* every index entry that a lookup can see is in range *)
Lemma wf_assoc_range {K} (eqb : K -> K -> bool) k l n i :
  Forall (fun e => snd e < n) l -> assoc eqb k l = Some i -> i < n.
Proof.
  intros F H. destruct (assoc_in eqb k l i H) as [k0 Hin].
  rewrite Forall_forall in F. exact (F _ Hin).
Qed.

Lemma Forall2_len {A B} {R : A -> B -> Prop} {l l'} : Forall2 R l l' -> length l = length l'.
Proof. intros F. induction F as [|x y l l' H F IH]; simpl; [reflexivity|rewrite IH; reflexivity]. Qed.

(* ---------- the representation invariant ---------- *)

Definition inj_on (hash : bytes -> N) (U : list bytes) : Prop :=
  forall a b, In a U -> In b U -> hash a = hash b -> a = b.

Definition op_in (U : list bytes) (op : rop) : Prop := forall s, In s (op_src op) -> In s U.
Definition ops_in (U : list bytes) (ops : list rop) : Prop := Forall (op_in U) ops.

Lemma ops_in_srcs ops : ops_in (ops_srcs ops) ops.
Proof.
  unfold ops_in, ops_srcs. apply Forall_forall. intros op Hop s Hs.
  apply in_flat_map. exists op. split; assumption.
Qed.

Definition tree_ok (hash : bytes -> N) (U : list bytes) (t : tree_) : Prop :=
  t_hash t = hash (t_src t) /\ In (t_src t) U.

Record rep (hash : bytes -> N) (U : list bytes) (d : db) (gs : list reg) : Prop := {
  rep_wf : db_wf d;
  (* registration i of the specification is slot i, and renders the same source *)
  rep_src : Forall2 (fun g p => r_src g = t_src (p_tree p)) gs (slots d);
  (* a name is bound to slot i exactly when registration i is the one that owns it *)
  rep_key : forall k, assoc bytes_eqb k (idxKey d) = find_pos (has_key k) gs;
  rep_id : forall i, assoc Z.eqb i (idxID d) = find_pos (has_id i) gs;
  (* every stored tree carries the checksum of its own source *)
  rep_trees : Forall (fun p => tree_ok hash U (p_tree p)) (slots d)
}.

Section Refinement.
Variable hash : bytes -> N.
Variable U : list bytes.
Hypothesis hash_inj : inj_on hash U.

Local Notation rep := (rep hash U).
Local Notation tree_ok := (tree_ok hash U).

Lemma rep_empty : rep db_empty spec_empty.
Proof.
  constructor.
  - exact db_empty_wf.
  - constructor.
  - intros k. reflexivity.
  - intros i. reflexivity.
  - constructor.
Qed.

Definition mk_tree (src : bytes) : tree_ := {| t_src := src; t_hash := hash src |}.

Lemma parse_own d gs src : rep d gs -> In src U -> parse hash d src = mk_tree src.
Proof.
  intros R Hs. unfold parse, parse_with, tree_by_hash.
  destruct (assoc N.eqb (hash src) (idxHash d)) as [i|]; [|reflexivity].
  destruct (nth_error (slots d) i) as [p|] eqn:E; [|reflexivity].
  destruct (N.eqb (t_hash (p_tree p)) (hash src)) eqn:H; [|reflexivity].
  apply nth_error_In in E.
  pose proof (rep_trees _ _ _ _ R) as T. rewrite Forall_forall in T.
  destruct (T p E) as [T1 T2].
  apply N.eqb_eq in H. rewrite T1 in H.
  apply hash_inj in H; [|assumption|assumption].
  destruct (p_tree p) as [s h]. cbn [t_src t_hash] in *. subst. reflexivity.
Qed.

Lemma rep_len d gs : rep d gs -> length gs = length (slots d).
Proof. intros R. exact (Forall2_len (rep_src _ _ _ _ R)). Qed.

Lemma rep_key_not_given d gs key : rep d gs -> key_given key = false -> find_pos (has_key key) gs = None.
Proof.
  intros R Kg. unfold key_given in Kg. apply negb_false_iff in Kg. apply bytes_eqb_eq in Kg. subst key.
  rewrite <- (rep_key _ _ _ _ R). apply (wf_nokey _ (rep_wf _ _ _ _ R)).
Qed.

Lemma rep_id_not_given d gs id : rep d gs -> id_given id = false -> find_pos (has_id id) gs = None.
Proof.
  intros R Ig. unfold id_given in Ig. apply Z.leb_gt in Ig.
  rewrite <- (rep_id _ _ _ _ R). apply (wf_noid _ (rep_wf _ _ _ _ R)). exact Ig.
Qed.

Lemma rep_ltb d gs (p : reg -> bool) i : rep d gs -> find_pos p gs = Some i -> (i <? length (slots d)) = true.
Proof.
  intros R F. apply find_pos_lt in F. rewrite (rep_len _ _ R) in F. apply Nat.ltb_lt. exact F.
Qed.

(* the slot that set reuses is the registration that the specification re-registers *)
Lemma rep_slot_idx d gs id key : rep d gs -> slot_idx d id key = spec_target id key gs.
Proof.
  intros R. unfold slot_idx, get_idx_lf, spec_target.
  rewrite (rep_key _ _ _ _ R key), (rep_id _ _ _ _ R id).
  destruct (key_given key) eqn:Kg.
  - destruct (find_pos (has_key key) gs) as [i|] eqn:F.
    + rewrite (rep_ltb d gs _ i R F). reflexivity.
    + destruct (id_given id) eqn:Ig.
      * destruct (find_pos (has_id id) gs) as [i|] eqn:F2; [|reflexivity].
        rewrite (rep_ltb d gs _ i R F2). reflexivity.
      * rewrite (rep_id_not_given d gs id R Ig). reflexivity.
  - rewrite (rep_key_not_given d gs key R Kg).
    destruct (id_given id) eqn:Ig.
    + destruct (find_pos (has_id id) gs) as [i|] eqn:F2; [|reflexivity].
      rewrite (rep_ltb d gs _ i R F2). reflexivity.
    + rewrite (rep_id_not_given d gs id R Ig). reflexivity.
Qed.

Lemma Forall2_upd_at (src : bytes) (f s : reg -> reg) (p : tpl) :
  (forall g, r_src (f g) = t_src (p_tree p)) -> (forall g, r_src (s g) = r_src g) ->
  forall gs sl, Forall2 (fun g p => r_src g = t_src (p_tree p)) gs sl ->
  forall i, Forall2 (fun g p => r_src g = t_src (p_tree p)) (upd_at f s i gs) (set_nth i p sl).
Proof.
  intros Hf Hs gs sl F. induction F as [|g q gs sl Hgq F IH]; intros i; simpl.
  - constructor.
  - destruct i as [|i].
    + constructor; [apply Hf|].
      clear IH. induction F as [|g' q' gs sl H' F IH]; simpl; constructor.
      * rewrite Hs. exact H'.
      * exact IH.
    + constructor; [rewrite Hs; exact Hgq|]. apply IH.
Qed.

Lemma rep_register d gs id key src :
  rep d gs -> In src U -> rep (db_set d id key (mk_tree src)) (spec_register id key src gs).
Proof.
  intros R Hs.
  pose proof (db_set_wf d id key (mk_tree src) (rep_wf _ _ _ _ R)) as W'.
  revert W'. unfold db_set, spec_register. rewrite (rep_slot_idx d gs id key R).
  change (negb (bytes_eqb key no_key)) with (key_given key).
  change (0 <=? id)%Z with (id_given id).
  set (p := {| p_id := id; p_key := key; p_tree := mk_tree src |}).
  destruct (spec_target id key gs) as [i|] eqn:T; intros W'.
  - pose proof (spec_target_lt _ _ _ _ T) as Hi.
    constructor; cbn [slots idxKey idxID idxHash].
    + exact W'.
    + apply Forall2_upd_at; [exact src| | |exact (rep_src _ _ _ _ R)]; intros g; reflexivity.
    + intros k. rewrite assoc_push, (find_key_upd k id key src gs i Hi).
      destruct (bytes_eqb k key) eqn:E.
      * apply bytes_eqb_eq in E. subst k.
        destruct (key_given key) eqn:Kg; cbn [andb]; [reflexivity|].
        rewrite (rep_key _ _ _ _ R). apply (rep_key_not_given d gs key R Kg).
      * rewrite andb_false_r. apply (rep_key _ _ _ _ R).
    + intros j. rewrite assoc_push, (find_id_upd j id key src gs i Hi).
      destruct (Z.eqb j id) eqn:E.
      * apply Z.eqb_eq in E. subst j.
        destruct (id_given id) eqn:Ig; cbn [andb]; [reflexivity|].
        rewrite (rep_id _ _ _ _ R). apply (rep_id_not_given d gs id R Ig).
      * rewrite andb_false_r. apply (rep_id _ _ _ _ R).
    + apply set_nth_Forall; [|exact (rep_trees _ _ _ _ R)].
      split; [reflexivity|exact Hs].
  - constructor; cbn [slots idxKey idxID idxHash].
    + exact W'.
    + apply Forall2_app; [exact (rep_src _ _ _ _ R)|]. constructor; [reflexivity|constructor].
    + intros k. rewrite assoc_push, find_pos_snoc, has_key_new, <- (rep_len d gs R).
      destruct (key_given key && bytes_eqb k key) eqn:E.
      * apply andb_true_iff in E. destruct E as [Kg E]. apply bytes_eqb_eq in E. subst k.
        rewrite (spec_target_none_key _ _ _ T Kg). reflexivity.
      * rewrite (rep_key _ _ _ _ R). destruct (find_pos (has_key k) gs); reflexivity.
    + intros j. rewrite assoc_push, find_pos_snoc, has_id_new, <- (rep_len d gs R).
      destruct (id_given id && Z.eqb j id) eqn:E.
      * apply andb_true_iff in E. destruct E as [Ig E]. apply Z.eqb_eq in E. subst j.
        rewrite (spec_target_none_id _ _ _ T Ig). reflexivity.
      * rewrite (rep_id _ _ _ _ R). destruct (find_pos (has_id j) gs); reflexivity.
    + apply Forall_app. split; [exact (rep_trees _ _ _ _ R)|].
      constructor; [|constructor]. split; [reflexivity|exact Hs].
Qed.

(* ---------- lookups ---------- *)

Definition slot_obs (d : db) (oi : option nat) : robs :=
  match oi with
  | Some i => obs_of (nth_error (slots d) i)
  | None => ObsNotFound
  end.
Definition grp_obs (gs : list reg) (oi : option nat) : robs :=
  match oi with
  | Some i => reg_obs (nth_error gs i)
  | None => ObsNotFound
  end.

Lemma Forall2_src_nth gs sl :
  Forall2 (fun g p => r_src g = t_src (p_tree p)) gs sl ->
  forall i, obs_of (nth_error sl i) = reg_obs (nth_error gs i).
Proof.
  intros F. induction F as [|g p gs' sl' H F IH]; intros [|i]; simpl; try reflexivity.
  - rewrite H. reflexivity.
  - apply IH.
Qed.

Lemma rep_nth d gs i : rep d gs -> obs_of (nth_error (slots d) i) = reg_obs (nth_error gs i).
Proof. intros R. apply Forall2_src_nth. exact (rep_src _ _ _ _ R). Qed.

Lemma rep_obs d gs oi : rep d gs -> slot_obs d oi = grp_obs gs oi.
Proof. intros R. destruct oi as [i|]; simpl; [apply rep_nth; exact R|reflexivity]. Qed.

Lemma reg_obs_find (p : reg -> bool) gs : reg_obs (find p gs) = grp_obs gs (find_pos p gs).
Proof. rewrite find_find_pos. destruct (find_pos p gs); reflexivity. Qed.

Lemma get_obs d gs id key : rep d gs -> obs_of (get d id key) = grp_obs gs (spec_target id key gs).
Proof.
  intros R. unfold get. rewrite (rep_slot_idx d gs id key R).
  rewrite <- (rep_obs d gs _ R). destruct (spec_target id key gs); reflexivity.
Qed.

Lemma rep_get_key d gs k : rep d gs -> obs_of (get_key d k) = reg_obs (spec_by_key gs k).
Proof.
  intros R. unfold get_key, spec_by_key. rewrite (get_obs d gs _ _ R), reg_obs_find.
  unfold spec_target. change (id_given no_id) with false.
  destruct (key_given k) eqn:Kg.
  - destruct (find_pos (has_key k) gs); reflexivity.
  - rewrite (rep_key_not_given d gs k R Kg). reflexivity.
Qed.

Lemma rep_get_id d gs i : rep d gs -> obs_of (get_id d i) = reg_obs (spec_by_id gs i).
Proof.
  intros R. unfold get_id, spec_by_id. rewrite (get_obs d gs _ _ R), reg_obs_find.
  unfold spec_target. change (key_given no_key) with false.
  destruct (id_given i) eqn:Ig.
  - reflexivity.
  - rewrite (rep_id_not_given d gs i R Ig). reflexivity.
Qed.

Lemma rep_get_key1 d gs k fb : rep d gs -> obs_of (get_key1 d k fb) = reg_obs (spec_by_key1 gs k fb).
Proof.
  intros R. unfold get_key1, spec_by_key1.
  rewrite !(rep_key _ _ _ _ R).
  rewrite (find_find_pos (has_key k) gs).
  destruct (find_pos (has_key k) gs) as [i|] eqn:F.
  - pose proof (find_pos_lt _ _ _ F) as Hi.
    destruct (nth_error gs i) as [g|] eqn:E.
    + rewrite (rep_nth d gs i R), E. reflexivity.
    + apply nth_error_None in E. lia.
  - rewrite reg_obs_find. destruct (find_pos (has_key fb) gs) as [i|]; [|reflexivity].
    apply (rep_nth d gs i R).
Qed.

Lemma rep_get_bkeys d gs names : rep d gs -> obs_of (get_bkeys d names) = reg_obs (spec_by_names gs names).
Proof.
  intros R. induction names as [|k r IH]; cbn [get_bkeys spec_by_names].
  - reflexivity.
  - rewrite (rep_key _ _ _ _ R), (find_find_pos (has_key k) gs).
    destruct (find_pos (has_key k) gs) as [i|] eqn:F; [|exact IH].
    pose proof (find_pos_lt _ _ _ F) as Hi.
    pose proof (rep_nth d gs i R) as Hn.
    destruct (nth_error gs i) as [g|] eqn:E.
    + destruct (nth_error (slots d) i) as [p|] eqn:E2.
      * exact Hn.
      * simpl in Hn. discriminate.
    + apply nth_error_None in E. lia.
Qed.

(* ---------- one step, and runs ---------- *)

Lemma rep_step d gs op : rep d gs -> op_in U op ->
  rep (fst (db_step hash d op)) (fst (spec_step gs op)) /\
  snd (db_step hash d op) = snd (spec_step gs op).
Proof.
  intros R Hop. destruct op as [src|id key src|k|i|k fb|names];
    cbn [db_step db_step_with spec_step fst snd].
  - assert (In src U) as Hs by (apply Hop; left; reflexivity).
    split; [exact R|]. fold (parse hash). rewrite (parse_own d gs src R Hs). reflexivity.
  - assert (In src U) as Hs by (apply Hop; left; reflexivity).
    split; [|reflexivity]. fold (parse hash). rewrite (parse_own d gs src R Hs).
    apply rep_register; assumption.
  - split; [exact R|]. apply rep_get_key; exact R.
  - split; [exact R|]. apply rep_get_id; exact R.
  - split; [exact R|]. apply rep_get_key1; exact R.
  - split; [exact R|]. apply rep_get_bkeys; exact R.
Qed.

Lemma rep_run : forall ops d gs, rep d gs -> ops_in U ops ->
  rep (run_db hash d ops) (spec_state gs ops) /\ run_ops hash d ops = spec_run gs ops.
Proof.
  induction ops as [|op ops IH]; intros d gs R Hops.
  - split; [exact R|reflexivity].
  - inversion Hops as [|? ? Hop Hops']; subst.
    destruct (rep_step d gs op R Hop) as [R' Ho].
    destruct (IH _ _ R' Hops') as [R'' Hr].
    split.
    + exact R''.
    + change (run_ops hash d (op :: ops)) with
        (snd (db_step hash d op) :: run_ops hash (fst (db_step hash d op)) ops).
      cbn [spec_run]. rewrite Ho, Hr. reflexivity.
Qed.

End Refinement.

(* ---------- names that were never registered ---------- *)

Lemma idxKey_unregistered prs k : forall ops d,
  assoc bytes_eqb k (idxKey d) = None -> registers_key k ops = false ->
  assoc bytes_eqb k (idxKey (run_db_with prs d ops)) = None.
Proof.
  induction ops as [|op ops IH]; intros d Hd Hr; cbn [run_db_with].
  - exact Hd.
  - cbn [registers_key existsb] in Hr. apply orb_false_iff in Hr. destruct Hr as [Hop Hr].
    apply IH; [|exact Hr].
    destruct op as [src|id key src|k0|i|k0 fb|names]; cbn [db_step_with fst]; try exact Hd.
    unfold db_set; cbn [idxKey].
    change (negb (bytes_eqb key no_key)) with (key_given key).
    rewrite assoc_push, Hop. exact Hd.
Qed.

Lemma idxID_unregistered prs i : forall ops d,
  assoc Z.eqb i (idxID d) = None -> registers_id i ops = false ->
  assoc Z.eqb i (idxID (run_db_with prs d ops)) = None.
Proof.
  induction ops as [|op ops IH]; intros d Hd Hr; cbn [run_db_with].
  - exact Hd.
  - cbn [registers_id existsb] in Hr. apply orb_false_iff in Hr. destruct Hr as [Hop Hr].
    apply IH; [|exact Hr].
    destruct op as [src|id key src|k0|i0|k0 fb|names]; cbn [db_step_with fst]; try exact Hd.
    unfold db_set; cbn [idxID].
    change (0 <=? id)%Z with (id_given id).
    rewrite assoc_push, Hop. exact Hd.
Qed.

Definition never_registered_silent (hash : bytes -> N) (ops : list rop) : Prop :=
  let d := run_db hash db_empty ops in
  (forall k, registers_key k ops = false ->
     db_step hash d (ORenderKey k) = (d, ObsNotFound)) /\
  (forall i, registers_id i ops = false ->
     db_step hash d (ORenderID i) = (d, ObsNotFound)) /\
  (forall k fb, registers_key k ops = false -> registers_key fb ops = false ->
     db_step hash d (ORenderFallback k fb) = (d, ObsNotFound)) /\
  (forall names, forallb (fun k => negb (registers_key k ops)) names = true ->
     db_step hash d (OInclude names) = (d, ObsNotFound)).

Lemma not_found_silent hash ops : never_registered_silent hash ops.
Proof.
  unfold never_registered_silent. cbv zeta.
  pose proof (reachable_wf hash ops) as W.
  assert (forall k, registers_key k ops = false ->
          assoc bytes_eqb k (idxKey (run_db hash db_empty ops)) = None) as HK.
  { intros k Hk. apply idxKey_unregistered; [reflexivity|exact Hk]. }
  assert (forall i, registers_id i ops = false ->
          assoc Z.eqb i (idxID (run_db hash db_empty ops)) = None) as HI.
  { intros i Hi. apply idxID_unregistered; [reflexivity|exact Hi]. }
  set (d := run_db hash db_empty ops) in *.
  repeat split.
  - intros k Hk. cbn [db_step db_step_with]. f_equal.
    unfold get_key, get, slot_idx, get_idx_lf. rewrite (HK k Hk).
    rewrite (wf_noid _ W no_id) by (unfold no_id; lia). reflexivity.
  - intros i Hi. cbn [db_step db_step_with]. f_equal.
    unfold get_id, get, slot_idx, get_idx_lf. rewrite (wf_nokey _ W), (HI i Hi). reflexivity.
  - intros k fb Hk Hfb. cbn [db_step db_step_with]. f_equal.
    unfold get_key1. rewrite (HK k Hk), (HK fb Hfb). reflexivity.
  - intros names Hn. cbn [db_step db_step_with]. f_equal.
    induction names as [|k r IH]; cbn [get_bkeys].
    + reflexivity.
    + cbn [forallb] in Hn. apply andb_true_iff in Hn. destruct Hn as [Hk Hr].
      apply negb_true_iff in Hk. rewrite (HK k Hk). apply IH. exact Hr.
Qed.

(* ---------- the statements of Props/C04.v ---------- *)

Lemma parse_own_source hash U : inj_on hash U ->
  forall ops src, ops_in U ops -> In src U ->
  snd (db_step hash (run_db hash db_empty ops) (OParse src)) = ObsSrc src.
Proof.
  intros Hinj ops src Hops Hs.
  destruct (rep_run hash U Hinj ops db_empty spec_empty (rep_empty hash U) Hops) as [R _].
  cbn [db_step db_step_with snd]. fold (parse hash).
  rewrite (parse_own hash U Hinj _ _ src R Hs). reflexivity.
Qed.

Lemma refines hash U : inj_on hash U ->
  forall ops, ops_in U ops -> run_ops hash db_empty ops = spec_run spec_empty ops.
Proof.
  intros Hinj ops Hops.
  exact (proj2 (rep_run hash U Hinj ops db_empty spec_empty (rep_empty hash U) Hops)).
Qed.

(* the weakest form of the hypothesis: no two different sources of this very history collide *)
Lemma refines_own_sources hash ops : inj_on hash (ops_srcs ops) ->
  run_ops hash db_empty ops = spec_run spec_empty ops.
Proof. intros Hinj. apply (refines hash (ops_srcs ops) Hinj). apply ops_in_srcs. Qed.

Lemma refines_lookups hash ops : inj_on hash (ops_srcs ops) ->
  lookup_obs ops (run_ops hash db_empty ops) = lookup_obs ops (spec_run spec_empty ops).
Proof. intros Hinj. rewrite (refines_own_sources hash ops Hinj). reflexivity. Qed.

Lemma reachable_rep hash U : inj_on hash U ->
  forall ops, ops_in U ops -> rep hash U (run_db hash db_empty ops) (spec_state spec_empty ops).
Proof.
  intros Hinj ops Hops.
  exact (proj1 (rep_run hash U Hinj ops db_empty spec_empty (rep_empty hash U) Hops)).
Qed.

(* consequences of the invariant, in the words of the design: every index entry is in range *)
Lemma rep_in_range hash U d gs : rep hash U d gs ->
  (forall k i, assoc bytes_eqb k (idxKey d) = Some i -> i < length (slots d)) /\
  (forall j i, assoc Z.eqb j (idxID d) = Some i -> i < length (slots d)) /\
  (forall h i, assoc N.eqb h (idxHash d) = Some i -> i < length (slots d)).
Proof.
  intros R. pose proof (rep_wf _ _ _ _ R) as W. repeat split; intros x i H.
  - exact (wf_assoc_range _ _ _ _ _ (wf_key_range _ W) H).
  - exact (wf_assoc_range _ _ _ _ _ (wf_id_range _ W) H).
  - exact (wf_assoc_range _ _ _ _ _ (wf_hash_range _ W) H).
Qed.

(* ---------- what is false without the hypotheses ---------- *)

Definition srcA : bytes := ["A"; "A"; "A"].
Definition srcB : bytes := ["B"; "B"; "B"].
Definition key_k : bytes := ["k"].
Definition key_j : bytes := ["j"].

(* a checksum that tells A from B: the first byte *)
Definition first_byte_hash (s : bytes) : N :=
  match s with [] => 0%N | b :: _ => b2n b end.

Lemma first_byte_hash_inj : inj_on first_byte_hash [srcA; srcB].
Proof.
  intros a b Ha Hb H. simpl in Ha, Hb.
  destruct Ha as [Ha|[Ha|[]]]; destruct Hb as [Hb|[Hb|[]]]; subst; try reflexivity;
    vm_compute in H; discriminate.
Qed.

(* without the test of the slot's checksum, Parse A after A -> B on one key yields B's tree *)
Lemma unchecked_returns_foreign_tree :
  run_ops_unchecked first_byte_hash db_empty
    [ORegister no_id key_k srcA; ORegister no_id key_k srcB; OParse srcA]
  = [ObsUnit; ObsUnit; ObsSrc srcB].
Proof. vm_compute. reflexivity. Qed.

Lemma checked_returns_own_tree :
  run_ops first_byte_hash db_empty
    [ORegister no_id key_k srcA; ORegister no_id key_k srcB; OParse srcA]
  = [ObsUnit; ObsUnit; ObsSrc srcA].
Proof. vm_compute. reflexivity. Qed.

(* the refinement for ALL checksums is false: a collision makes Parse hand out a foreign tree,
   which is then registered — even the lookups are wrong *)
Definition refines_any_hash_statement : Prop :=
  forall (hash : bytes -> N) (ops : list rop),
    lookup_obs ops (run_ops hash db_empty ops) = lookup_obs ops (spec_run spec_empty ops).

Lemma refines_any_hash_refuted : ~ refines_any_hash_statement.
Proof.
  intros H.
  specialize (H (fun _ => 0%N) [ORegister no_id key_j srcB; ORegister no_id key_k srcA; ORenderKey key_k]).
  vm_compute in H. discriminate.
Qed.

Definition parse_any_hash_statement : Prop :=
  forall (hash : bytes -> N) (ops : list rop) (src : bytes),
    snd (db_step hash (run_db hash db_empty ops) (OParse src)) = ObsSrc src.

Lemma parse_any_hash_refuted : ~ parse_any_hash_statement.
Proof.
  intros H.
  specialize (H (fun _ => 0%N) [ORegister no_id key_j srcB] srcA).
  vm_compute in H. discriminate.
Qed.

(* the hash index may keep a stale entry (A -> B on one key leaves A's checksum pointing at the
   slot that now holds B): "the hash index never points to a slot holding a different checksum"
   is NOT an invariant of the repaired code; the test in getTreeByHash is what makes it harmless *)
Lemma stale_hash_entry_exists :
  let d := run_db first_byte_hash db_empty [ORegister no_id key_k srcA; ORegister no_id key_k srcB] in
  assoc N.eqb (first_byte_hash srcA) (idxHash d) = Some 0 /\
  option_map (fun p => t_src (p_tree p)) (nth_error (slots d) 0) = Some srcB.
Proof. vm_compute. split; reflexivity. Qed.

(* names registered together are names of ONE registration: after RegisterTpl(1,k,A),
   RegisterTplID(1,B) also replaces what key k renders.  So "a name renders the last source
   registered under that very name" (two independent maps) is not what the registry does. *)
Lemma naive_two_maps_refuted :
  let ops := [ORegister 1 key_k srcA; ORegister 1 no_key srcB] in
  snd (db_step first_byte_hash (run_db first_byte_hash db_empty ops) (ORenderKey key_k)) = ObsSrc srcB /\
  snd (spec_step (spec_state spec_empty ops) (ORenderKey key_k)) = ObsSrc srcB /\
  naive_last_key key_k ops ObsNotFound = ObsSrc srcA.
Proof. vm_compute. repeat split; reflexivity. Qed.

(* ---------- a lookup right after a registration sees it ---------- *)

Lemma nth_error_upd_at {A} (f s : A -> A) : forall l i,
  nth_error (upd_at f s i l) i = option_map f (nth_error l i).
Proof.
  induction l as [|x l IH]; intros [|i]; simpl; try reflexivity.
  apply IH.
Qed.

Lemma spec_register_key id key src gs : key_given key = true ->
  reg_obs (spec_by_key (spec_register id key src gs) key) = ObsSrc src.
Proof.
  intros Kg. unfold spec_by_key. rewrite reg_obs_find. unfold spec_register.
  destruct (spec_target id key gs) as [i|] eqn:T.
  - pose proof (spec_target_lt _ _ _ _ T) as Hi.
    rewrite (find_key_upd key id key src gs i Hi), bytes_eqb_refl, Kg. cbn [grp_obs].
    rewrite nth_error_upd_at.
    destruct (nth_error gs i) as [g|] eqn:E; [reflexivity|].
    apply nth_error_None in E. lia.
  - rewrite find_pos_snoc, (spec_target_none_key _ _ _ T Kg), has_key_new, Kg, bytes_eqb_refl.
    cbn [andb grp_obs]. rewrite nth_error_app2 by lia. rewrite Nat.sub_diag. reflexivity.
Qed.

Lemma spec_register_id id key src gs : id_given id = true ->
  reg_obs (spec_by_id (spec_register id key src gs) id) = ObsSrc src.
Proof.
  intros Ig. unfold spec_by_id. rewrite reg_obs_find. unfold spec_register.
  destruct (spec_target id key gs) as [i|] eqn:T.
  - pose proof (spec_target_lt _ _ _ _ T) as Hi.
    rewrite (find_id_upd id id key src gs i Hi), Z.eqb_refl, Ig. cbn [grp_obs].
    rewrite nth_error_upd_at.
    destruct (nth_error gs i) as [g|] eqn:E; [reflexivity|].
    apply nth_error_None in E. lia.
  - rewrite find_pos_snoc, (spec_target_none_id _ _ _ T Ig), has_id_new, Ig, Z.eqb_refl.
    cbn [andb grp_obs]. rewrite nth_error_app2 by lia. rewrite Nat.sub_diag. reflexivity.
Qed.

Lemma lookup_after_register hash U : inj_on hash U ->
  forall ops id key src, ops_in U ops -> In src U ->
  let d := fst (db_step hash (run_db hash db_empty ops) (ORegister id key src)) in
  (key_given key = true -> snd (db_step hash d (ORenderKey key)) = ObsSrc src) /\
  (id_given id = true -> snd (db_step hash d (ORenderID id)) = ObsSrc src).
Proof.
  intros Hinj ops id key src Hops Hs. cbv zeta.
  pose proof (reachable_rep hash U Hinj ops Hops) as R.
  assert (op_in U (ORegister id key src)) as Hop.
  { intros s [Hs'|[]]. subst s. exact Hs. }
  destruct (rep_step hash U Hinj _ _ _ R Hop) as [R' _].
  cbn [spec_step fst] in R'.
  set (d := fst (db_step hash (run_db hash db_empty ops) (ORegister id key src))) in *.
  split; intros G; cbn [db_step db_step_with snd].
  - rewrite (rep_get_key hash U _ _ key R'). apply spec_register_key. exact G.
  - rewrite (rep_get_id hash U _ _ id R'). apply spec_register_id. exact G.
Qed.
