(* The parser model (Model/Parser.v) against its skeleton (Model/ParserSkel.v):
   totality, agreement of the node-building recursion with the counter recursion,
   static text, flat templates, the accumulator.  Every statement is for every table
   of expressions T and every registry environment E. *)
From DT Require Import Model.Bytes Model.Value Model.Tree Model.Regex Model.ParserRe
  Model.ParserSkel Model.Preproc Model.Parser Spec.Balanced Proofs.ParserProofs.
From DT Require Gen.RegexTable.
Local Open Scope byte_scope.

Section ParserModel.
  Variable T : retab.
  Variable E : penv.

  (* ---------------------------------------------------------------- unfolding *)

  Definition is_ctl (tk : tok) : bool := match tk with TRawT _ => false | _ => true end.

  (* what parse_nodes does with a tag token (one unit of fuel already spent) *)
  Definition tag_step (f : nat) (t p : target) (tk : tok) (rest : list tok) (acc : list node)
    : option nres :=
    match process_tag T E (tok_text tk) with
    | CLeaf n => parse_nodes T E f t p rest (acc ++ [n])
    | CBad => Some (true, p, rest, acc)
    | CEnd k => let p' := dec_k k p in Some (negb (reached t p'), p', rest, acc)
    | COpen k mk =>
      match parse_nodes T E f p (inc_k k p) rest [] with
      | None => None
      | Some (err, p2, rest', sub) =>
        if err then Some (true, p2, rest', acc)
        else parse_nodes T E f t p2 rest' (acc ++ [mk sub])
      end
    end.

  Lemma parse_nodes_nil f t p acc :
    parse_nodes T E (S f) t p [] acc =
    if negb (reached t p) || eq_zero t then Some (negb (reached t p), p, [], acc)
    else Some (false, p, [], acc).
  Proof. reflexivity. Qed.

  Lemma parse_nodes_raw f t p s rest acc :
    parse_nodes T E (S f) t p (TRawT s :: rest) acc =
    if negb (reached t p) || eq_zero t then parse_nodes T E f t p rest (acc ++ [NRaw s])
    else Some (false, p, TRawT s :: rest, acc).
  Proof. reflexivity. Qed.

  Lemma parse_nodes_tag f t p tk rest acc : is_ctl tk = true ->
    parse_nodes T E (S f) t p (tk :: rest) acc =
    if negb (reached t p) || eq_zero t then tag_step f t p tk rest acc
    else Some (false, p, tk :: rest, acc).
  Proof. intros Hc. destruct tk as [s|s|]; [discriminate|reflexivity|reflexivity]. Qed.

  Lemma parse_tpl_S f t p inp :
    parse_tpl (S f) t p inp =
    if negb (reached t p) || eq_zero t then
      match inp with
      | [] => finish t p [] false
      | tg :: rest =>
        match process_ctl (parse_tpl f) p tg rest with
        | None => None
        | Some (p', rest', up, err) =>
          if err then finish t p' rest' true
          else if up then finish t p' rest' false
          else parse_tpl f t p' rest'
        end
      end
    else finish t p inp false.
  Proof. reflexivity. Qed.

  Lemma ctl_tags_raw c s rest : ctl_tags c (TRawT s :: rest) = ctl_tags c rest.
  Proof. reflexivity. Qed.

  Lemma ctl_tags_tag c tk rest : is_ctl tk = true ->
    ctl_tags c (tk :: rest) = c (tok_text tk) :: ctl_tags c rest.
  Proof. intros Hc. destruct tk as [s|s|]; [discriminate|reflexivity|reflexivity]. Qed.

  Lemma ctl_tags_length c : forall l, (length (ctl_tags c l) <= length l)%nat.
  Proof.
    induction l as [|tk l IH]; [cbn; lia|].
    destruct tk as [s|s|].
    - rewrite ctl_tags_raw. cbn [length]. lia.
    - rewrite ctl_tags_tag by reflexivity. cbn [length]. lia.
    - rewrite ctl_tags_tag by reflexivity. cbn [length]. lia.
  Qed.

  (* ---------------------------------------------------------------- 1. totality *)

  Lemma parse_nodes_total : forall f t p inp acc, (length inp < f)%nat ->
    exists err p' rest out, parse_nodes T E f t p inp acc = Some (err, p', rest, out)
                            /\ (length rest <= length inp)%nat.
  Proof.
    induction f as [|f IH]; intros t p inp acc Hlen; [lia|].
    destruct inp as [|tk rest0].
    { rewrite parse_nodes_nil.
      destruct (negb (reached t p) || eq_zero t); eexists _, _, _, _; split; try reflexivity; lia. }
    cbn [length] in Hlen.
    assert (Htag : is_ctl tk = true ->
      exists err p' rest out, parse_nodes T E (S f) t p (tk :: rest0) acc = Some (err, p', rest, out)
                              /\ (length rest <= length (tk :: rest0))%nat).
    { intros Hc. rewrite (parse_nodes_tag _ _ _ _ _ _ Hc).
      destruct (negb (reached t p) || eq_zero t).
      2:{ eexists _, _, _, _; split; [reflexivity|lia]. }
      unfold tag_step.
      destruct (process_tag T E (tok_text tk)) as [n|k mk|k|] eqn:Hpt.
      - destruct (IH t p rest0 (acc ++ [n]) ltac:(lia)) as (e & q & r & o & Hr & Hl).
        exists e, q, r, o. split; [exact Hr|cbn [length]; lia].
      - destruct (IH p (inc_k k p) rest0 [] ltac:(lia)) as (e & q & r & o & Hr & Hl).
        rewrite Hr. destruct e.
        + eexists _, _, _, _; split; [reflexivity|cbn [length]; lia].
        + destruct (IH t q r (acc ++ [mk o]) ltac:(lia)) as (e2 & q2 & r2 & o2 & Hr2 & Hl2).
          exists e2, q2, r2, o2. split; [exact Hr2|cbn [length]; lia].
      - eexists _, _, _, _; split; [reflexivity|cbn [length]; lia].
      - eexists _, _, _, _; split; [reflexivity|cbn [length]; lia]. }
    destruct tk as [s|s|]; [|apply Htag; reflexivity|apply Htag; reflexivity].
    rewrite parse_nodes_raw.
    destruct (negb (reached t p) || eq_zero t).
    2:{ eexists _, _, _, _; split; [reflexivity|lia]. }
    destruct (IH t p rest0 (acc ++ [NRaw s]) ltac:(lia)) as (e & q & r & o & Hr & Hl).
    exists e, q, r, o. split; [exact Hr|cbn [length]; lia].
  Qed.

  Theorem parse_nodes_fuel : forall f t p inp acc, (length inp < f)%nat ->
    parse_nodes T E f t p inp acc <> None.
  Proof.
    intros f t p inp acc H.
    destruct (parse_nodes_total f t p inp acc H) as (e & q & r & o & Hr & _).
    rewrite Hr. discriminate.
  Qed.

  Lemma parse_clean_total : forall s, parse_clean T E s <> PFuel.
  Proof.
    intros s. unfold parse_clean.
    destruct (tokens s) as [toks|]; [|discriminate].
    destruct (parse_nodes_total (S (length toks)) zero_target zero_target toks [] ltac:(lia))
      as (e & q & r & o & Hr & _).
    rewrite Hr. destruct e; discriminate.
  Qed.

  Theorem parse_total : forall keep src, parse T E keep src <> PFuel.
  Proof. intros keep src. unfold parse. apply parse_clean_total. Qed.

  (* ---------------------------------------------------------------- 3. static text *)

  Theorem parse_static_text : forall s, find2 "{" "%" s = None ->
    parse_clean T E s = POk (match s with [] => [] | _ => [NRaw s] end).
  Proof.
    intros s Hf. unfold parse_clean, tokens. cbn [scan]. unfold scan_step. rewrite Hf.
    destruct s as [|c r].
    - reflexivity.
    - cbn [raw_tok length]. rewrite parse_nodes_raw.
      replace (negb (reached zero_target zero_target) || eq_zero zero_target) with true by reflexivity.
      rewrite parse_nodes_nil.
      replace (negb (reached zero_target zero_target) || eq_zero zero_target) with true by reflexivity.
      reflexivity.
  Qed.

  (* ---------------------------------------------------------------- 5. the accumulator *)

  Theorem parse_nodes_acc : forall f t p inp acc err p' rest out,
    parse_nodes T E f t p inp acc = Some (err, p', rest, out) -> exists more, out = acc ++ more.
  Proof.
    induction f as [|f IH]; intros t p inp acc err p' rest out H; [discriminate|].
    destruct inp as [|tk rest0].
    { rewrite parse_nodes_nil in H.
      destruct (negb (reached t p) || eq_zero t); inversion H; subst;
        exists []; rewrite app_nil_r; reflexivity. }
    assert (Htag : is_ctl tk = true -> exists more, out = acc ++ more).
    { intros Hc. rewrite (parse_nodes_tag _ _ _ _ _ _ Hc) in H.
      destruct (negb (reached t p) || eq_zero t).
      2:{ inversion H; subst. exists []. rewrite app_nil_r. reflexivity. }
      unfold tag_step in H.
      destruct (process_tag T E (tok_text tk)) as [n|k mk|k|] eqn:Hpt.
      - destruct (IH _ _ _ _ _ _ _ _ H) as [more Hm]. exists ([n] ++ more).
        rewrite app_assoc. exact Hm.
      - destruct (parse_nodes T E f p (inc_k k p) rest0 []) as [[[[e q] r] o]|] eqn:Hsub;
          [|discriminate].
        destruct e.
        + inversion H; subst. exists []. rewrite app_nil_r. reflexivity.
        + destruct (IH _ _ _ _ _ _ _ _ H) as [more Hm]. exists ([mk o] ++ more).
          rewrite app_assoc. exact Hm.
      - inversion H; subst. exists []. rewrite app_nil_r. reflexivity.
      - inversion H; subst. exists []. rewrite app_nil_r. reflexivity. }
    destruct tk as [s|s|]; [|apply Htag; reflexivity|apply Htag; reflexivity].
    rewrite parse_nodes_raw in H.
    destruct (negb (reached t p) || eq_zero t).
    2:{ inversion H; subst. exists []. rewrite app_nil_r. reflexivity. }
    destruct (IH _ _ _ _ _ _ _ _ H) as [more Hm]. exists ([NRaw s] ++ more).
    rewrite app_assoc. exact Hm.
  Qed.

  (* raw text is never altered: a raw token at the head contributes exactly its bytes *)
  Theorem parse_nodes_raw_kept : forall f t p s inp acc err p' rest out,
    (negb (reached t p) || eq_zero t) = true ->
    parse_nodes T E (S f) t p (TRawT s :: inp) acc = Some (err, p', rest, out) ->
    exists more, out = acc ++ NRaw s :: more.
  Proof.
    intros f t p s inp acc err p' rest out Hc H.
    rewrite parse_nodes_raw, Hc in H.
    destruct (parse_nodes_acc _ _ _ _ _ _ _ _ _ H) as [more Hm].
    exists more. rewrite Hm, <- app_assoc. reflexivity.
  Qed.

  (* ---------------------------------------------------------------- 4. flat templates *)

  Definition flat_node (tk : tok) : node :=
    match tk with
    | TRawT s => NRaw s
    | _ => match process_tag T E (tok_text tk) with CLeaf n => n | _ => NOther 0 end
    end.

  Definition is_flat (tk : tok) : Prop :=
    match tk with
    | TRawT _ => True
    | _ => exists n, process_tag T E (tok_text tk) = CLeaf n
    end.

  Lemma zero_loop : (negb (reached zero_target zero_target) || eq_zero zero_target) = true.
  Proof. reflexivity. Qed.

  Lemma parse_nodes_flat : forall toks f acc, (length toks < f)%nat -> Forall is_flat toks ->
    parse_nodes T E f zero_target zero_target toks acc
    = Some (false, zero_target, [], acc ++ map flat_node toks).
  Proof.
    induction toks as [|tk toks IH]; intros f acc Hlen Hflat.
    - destruct f as [|f]; [cbn [length] in Hlen; lia|].
      rewrite parse_nodes_nil, zero_loop. cbn [map]. rewrite app_nil_r. reflexivity.
    - destruct f as [|f]; [cbn [length] in Hlen; lia|].
      cbn [length] in Hlen.
      inversion Hflat as [|tk' toks' Htk Htoks]; subst tk' toks'.
      assert (Htag : is_ctl tk = true ->
        (exists n, process_tag T E (tok_text tk) = CLeaf n /\ flat_node tk = n) ->
        parse_nodes T E (S f) zero_target zero_target (tk :: toks) acc
        = Some (false, zero_target, [], acc ++ map flat_node (tk :: toks))).
      { intros Hc [n [Hpt Hfn]].
        rewrite (parse_nodes_tag _ _ _ _ _ _ Hc), zero_loop. unfold tag_step. rewrite Hpt.
        rewrite (IH f (acc ++ [n]) ltac:(lia) Htoks). cbn [map]. rewrite Hfn, <- app_assoc.
        reflexivity. }
      destruct tk as [s|s|].
      + rewrite parse_nodes_raw, zero_loop.
        rewrite (IH f (acc ++ [NRaw s]) ltac:(lia) Htoks). cbn [map flat_node].
        rewrite <- app_assoc. reflexivity.
      + apply Htag; [reflexivity|]. cbn [is_flat] in Htk. destruct Htk as [n Hpt].
        exists n. split; [exact Hpt|]. cbn [flat_node]. rewrite Hpt. reflexivity.
      + apply Htag; [reflexivity|]. cbn [is_flat] in Htk. destruct Htk as [n Hpt].
        exists n. split; [exact Hpt|]. cbn [flat_node]. rewrite Hpt. reflexivity.
  Qed.

  Theorem parse_flat : forall s toks, tokens s = Some toks -> Forall is_flat toks ->
    parse_clean T E s = POk (map flat_node toks).
  Proof.
    intros s toks Ht Hflat. unfold parse_clean. rewrite Ht.
    rewrite (parse_nodes_flat toks (S (length toks)) [] ltac:(lia) Hflat). reflexivity.
  Qed.

  (* ---------------------------------------------------------------- 2. the skeleton *)

  (* more fuel than tags changes nothing *)
  Lemma parse_tpl_fuel_irrelevant : forall f1 f2 t p inp,
    (length inp < f1)%nat -> (length inp < f2)%nat -> parse_tpl f1 t p inp = parse_tpl f2 t p inp.
  Proof.
    induction f1 as [|f1 IH]; intros f2 t p inp H1 H2; [lia|].
    destruct f2 as [|f2]; [lia|].
    rewrite !parse_tpl_S.
    destruct (negb (reached t p) || eq_zero t); [|reflexivity].
    destruct inp as [|tg rest0]; [reflexivity|].
    cbn [length] in H1, H2.
    assert (Hopen : forall p1,
      match
        match parse_tpl f1 p p1 rest0 with
        | Some (err, p2, rest') => Some (p2, rest', false, err)
        | None => None
        end
      with
      | None => None
      | Some (p', rest', up, err) =>
        if err then finish t p' rest' true
        else if up then finish t p' rest' false
        else parse_tpl f1 t p' rest'
      end =
      match
        match parse_tpl f2 p p1 rest0 with
        | Some (err, p2, rest') => Some (p2, rest', false, err)
        | None => None
        end
      with
      | None => None
      | Some (p', rest', up, err) =>
        if err then finish t p' rest' true
        else if up then finish t p' rest' false
        else parse_tpl f2 t p' rest'
      end).
    { intros p1. rewrite (IH f2 p p1 rest0 ltac:(lia) ltac:(lia)).
      destruct (parse_tpl_total f2 p p1 rest0 ltac:(lia)) as (e & q & r & Hr & Hl).
      rewrite Hr. destruct e; [reflexivity|]. apply IH; lia. }
    destruct tg; cbn [process_ctl];
      first [ apply Hopen | apply IH; lia | reflexivity ].
  Qed.

  Lemma classify_leaf b n : process_tag T E b = CLeaf n ->
    forall rec p rest, process_ctl rec p (classify T E b) rest = Some (p, rest, false, false).
  Proof.
    intros Hpt rec p rest. unfold classify. rewrite Hpt.
    destruct n as [raw|raw pfx sfx ne ms|c ch|k c ch|k ci ch|key val src sep ch
                  |cnt ini lim sep iS lS cO nO ch|d|d| |var src ok ins sS ms|var iF ini co arg
                  |arg ch|fl on|tpls| |typ]; try reflexivity.
    - destruct k; reflexivity.
    - destruct typ as [|q|q]; try reflexivity.
      repeat (match goal with q : positive |- _ => destruct q end; try reflexivity).
  Qed.

  Lemma classify_bad b : process_tag T E b = CBad -> classify T E b = Bad.
  Proof. intros Hpt. unfold classify. rewrite Hpt. reflexivity. Qed.

  Lemma classify_end b k : process_tag T E b = CEnd k ->
    classify T E b = match k with KIf => EndIf | KFor => EndFor | KSwitch => EndSwitch end.
  Proof. intros Hpt. unfold classify. rewrite Hpt. destruct k; reflexivity. Qed.

  Lemma classify_open b k mk : process_tag T E b = COpen k mk ->
    classify T E b = match k with KIf => OpenIf | KFor => OpenFor | KSwitch => OpenSwitch end.
  Proof. intros Hpt. unfold classify. rewrite Hpt. destruct k; reflexivity. Qed.

  Lemma loop_off t p : (negb (reached t p) || eq_zero t) = false -> negb (reached t p) = false.
  Proof. intros H. apply orb_false_iff in H. destruct H as [H _]. exact H. Qed.

  (* the two recursions in lock step *)
  Lemma parse_nodes_skel_strong : forall f t p inp acc, (length inp < f)%nat ->
    exists err p' rest out,
      parse_nodes T E f t p inp acc = Some (err, p', rest, out)
      /\ parse_tpl f t p (ctl_tags (classify T E) inp) = Some (err, p', ctl_tags (classify T E) rest)
      /\ (length rest <= length inp)%nat.
  Proof.
    induction f as [|f IH]; intros t p inp acc Hlen; [lia|].
    destruct inp as [|tk rest0].
    { rewrite parse_nodes_nil. cbn [ctl_tags flat_map]. rewrite parse_tpl_S. unfold finish.
      destruct (negb (reached t p) || eq_zero t) eqn:Hc.
      - eexists _, _, _, _. split; [reflexivity|]. split; [reflexivity|lia].
      - rewrite (loop_off _ _ Hc). eexists _, _, _, _. split; [reflexivity|].
        split; [reflexivity|lia]. }
    cbn [length] in Hlen.
    assert (Htag : is_ctl tk = true ->
      exists err p' rest out,
        parse_nodes T E (S f) t p (tk :: rest0) acc = Some (err, p', rest, out)
        /\ parse_tpl (S f) t p (ctl_tags (classify T E) (tk :: rest0))
           = Some (err, p', ctl_tags (classify T E) rest)
        /\ (length rest <= length (tk :: rest0))%nat).
    { intros Hct. rewrite (parse_nodes_tag _ _ _ _ _ _ Hct), (ctl_tags_tag _ _ _ Hct).
      rewrite parse_tpl_S. unfold finish.
      destruct (negb (reached t p) || eq_zero t) eqn:Hc.
      2:{ rewrite (loop_off _ _ Hc). eexists _, _, _, _. split; [reflexivity|].
          split; [rewrite (ctl_tags_tag _ _ _ Hct); reflexivity|lia]. }
      unfold tag_step.
      destruct (process_tag T E (tok_text tk)) as [n|k mk|k|] eqn:Hpt.
      - (* leaf *)
        rewrite (classify_leaf _ _ Hpt).
        destruct (IH t p rest0 (acc ++ [n]) ltac:(lia)) as (e & q & r & o & H1 & H2 & H3).
        exists e, q, r, o. split; [exact H1|]. split; [exact H2|cbn [length]; lia].
      - (* opener *)
        rewrite (classify_open _ _ _ Hpt).
        destruct (IH p (inc_k k p) rest0 [] ltac:(lia)) as (e & q & r & o & H1 & H2 & H3).
        rewrite H1.
        assert (Hdive :
          match k with
          | KIf => process_ctl (parse_tpl f) p OpenIf (ctl_tags (classify T E) rest0)
          | KFor => process_ctl (parse_tpl f) p OpenFor (ctl_tags (classify T E) rest0)
          | KSwitch => process_ctl (parse_tpl f) p OpenSwitch (ctl_tags (classify T E) rest0)
          end = Some (q, ctl_tags (classify T E) r, false, e)).
        { destruct k; cbn [process_ctl inc_k] in *; rewrite H2; reflexivity. }
        assert (Hdive' :
          process_ctl (parse_tpl f) p
            match k with KIf => OpenIf | KFor => OpenFor | KSwitch => OpenSwitch end
            (ctl_tags (classify T E) rest0) = Some (q, ctl_tags (classify T E) r, false, e)).
        { destruct k; exact Hdive. }
        rewrite Hdive'.
        destruct e.
        + eexists _, _, _, _. split; [reflexivity|]. split; [reflexivity|cbn [length]; lia].
        + destruct (IH t q r (acc ++ [mk o]) ltac:(lia)) as (e2 & q2 & r2 & o2 & K1 & K2 & K3).
          exists e2, q2, r2, o2. split; [exact K1|]. split; [exact K2|cbn [length]; lia].
      - (* closer *)
        rewrite (classify_end _ _ Hpt).
        destruct k; cbn [process_ctl dec_k orb];
          eexists _, _, _, _; (split; [reflexivity|]); (split; [reflexivity|cbn [length]; lia]).
      - (* erroneous tag *)
        rewrite (classify_bad _ Hpt). cbn [process_ctl orb].
        eexists _, _, _, _. split; [reflexivity|]. split; [reflexivity|cbn [length]; lia]. }
    destruct tk as [s|s|]; [|apply Htag; reflexivity|apply Htag; reflexivity].
    rewrite parse_nodes_raw, ctl_tags_raw.
    destruct (negb (reached t p) || eq_zero t) eqn:Hc.
    - destruct (IH t p rest0 (acc ++ [NRaw s]) ltac:(lia)) as (e & q & r & o & H1 & H2 & H3).
      exists e, q, r, o. split; [exact H1|]. split; [|cbn [length]; lia].
      pose proof (ctl_tags_length (classify T E) rest0) as Hl.
      rewrite (parse_tpl_fuel_irrelevant (S f) f) by lia. exact H2.
    - eexists _, _, _, _. split; [reflexivity|]. split; [|lia].
      rewrite parse_tpl_S, Hc. unfold finish. rewrite (loop_off _ _ Hc), ctl_tags_raw. reflexivity.
  Qed.

  Theorem parse_nodes_skel : forall f t p inp acc, (length inp < f)%nat ->
    match parse_nodes T E f t p inp acc, parse_tpl f t p (ctl_tags (classify T E) inp) with
    | Some (err, p', rest, _), Some (err', p'', rest') =>
        err = err' /\ p' = p'' /\ rest' = ctl_tags (classify T E) rest
    | _, _ => False
    end.
  Proof.
    intros f t p inp acc Hlen.
    destruct (parse_nodes_skel_strong f t p inp acc Hlen) as (e & q & r & o & H1 & H2 & _).
    rewrite H1, H2. repeat split.
  Qed.

  Theorem parse_refines_skel : forall s,
    (exists t, parse_clean T E s = POk t) <-> parse_ok (classify T E) s = true.
  Proof.
    intros s. unfold parse_clean, parse_ok.
    destruct (tokens s) as [toks|].
    2:{ split; [intros [t H]; discriminate|discriminate]. }
    destruct (parse_nodes_skel_strong (S (length toks)) zero_target zero_target toks [] ltac:(lia))
      as (e & q & r & o & H1 & H2 & _).
    rewrite H1. unfold parse_skel.
    pose proof (ctl_tags_length (classify T E) toks) as Hl.
    rewrite (parse_tpl_fuel_irrelevant (S (length (ctl_tags (classify T E) toks))) (S (length toks)))
      by lia.
    rewrite H2. destruct e; cbn [negb].
    - split; [intros [t H]; discriminate|discriminate].
    - split; [reflexivity|]. intros _. exists o. reflexivity.
  Qed.

  Theorem parse_accepts_iff_balanced : forall src,
    (exists t, parse_clean T E src = POk t) <->
    exists toks, tokens src = Some toks
                 /\ concat (map tok_text toks) = src
                 /\ balanced (ctl_tags (classify T E) toks) = true.
  Proof.
    intros src. rewrite parse_refines_skel. apply parse_ok_spec.
  Qed.

End ParserModel.

(* ---------------------------------------------------------------- 6. the committed table *)

Example pinned_table_ok : retab_ok DT.Gen.RegexTable.pinned = true.
Proof. vm_compute. reflexivity. Qed.

(* a{%= x %}b : raw text, one print tag, raw text *)
Example pinned_parse_print :
  parse DT.Gen.RegexTable.pinned (mkPenv [] [] []) false
    ["a"; "{"; "%"; "="; " "; "x"; " "; "%"; "}"; "b"]
  = POk [NRaw ["a"]; NTpl ["x"] [] [] false []; NRaw ["b"]].
Proof. vm_compute. reflexivity. Qed.

(* {% if a == 1 %}x : the block is never closed *)
Example pinned_parse_unclosed :
  parse DT.Gen.RegexTable.pinned (mkPenv [] [] []) false
    ["{"; "%"; " "; "i"; "f"; " "; "a"; " "; "="; "="; " "; "1"; " "; "%"; "}"; "x"]
  = PErr.
Proof. vm_compute. reflexivity. Qed.

(* ... and with its closer it is a condition node with one true-branch *)
Example pinned_parse_closed :
  parse DT.Gen.RegexTable.pinned (mkPenv [] [] []) false
    ["{"; "%"; " "; "i"; "f"; " "; "a"; " "; "="; "="; " "; "1"; " "; "%"; "}"; "x";
     "{"; "%"; " "; "e"; "n"; "d"; "i"; "f"; " "; "%"; "}"]
  = POk [NCond (mkCond ["a"] ["1"] false true OpEq [] [] LcNone)
               [NBlock BTrue no_case [NRaw ["x"]]]].
Proof. vm_compute. reflexivity. Qed.
