(* C20 — proofs about the rounding modifiers (Model/Round.v against Spec/RoundSpec.v). *)
From Coq Require Import ZArith Reals Bool List Lia Lra SpecFloat.
From Flocq Require Import Core.Core IEEE754.BinarySingleNaN.
From DT Require Import Model.Round Spec.RoundSpec.
Import ListNotations.
Local Open Scope R_scope.

Local Notation fin := (@is_finite 53 1024).
Local Notation val := (@B2R 53 1024).

Lemma f64_exp_fexp : SpecFloat.fexp 53 1024 = f64_exp.
Proof. reflexivity. Qed.

Lemma val_is_f64 : forall x : f64, is_f64 (val x).
Proof. intros x. unfold is_f64. rewrite <- f64_exp_fexp. apply generic_format_B2R. Qed.

(* ------------------------------------------------------------------ *)
(* integer modes                                                       *)
(* ------------------------------------------------------------------ *)

Lemma nearbyint_value : forall md (x : f64),
  val (@Bnearbyint 53 1024 Hemax1024 md x) = IZR (round_mode md (val x)).
Proof.
  intros md x.
  destruct (Bnearbyint_correct 53 1024 Hemax1024 md x) as [H _].
  rewrite H. apply round_FIX_IZR.
Qed.

Lemma nearbyint_finite : forall md (x : f64),
  fin (@Bnearbyint 53 1024 Hemax1024 md x) = fin x.
Proof.
  intros md x.
  destruct (Bnearbyint_correct 53 1024 Hemax1024 md x) as [_ [H _]]. exact H.
Qed.

Lemma floor_exact : forall x : f64, fin x = true -> val (go_floor x) = IZR (real_floor (val x)).
Proof. intros x _. exact (nearbyint_value mode_DN x). Qed.

Lemma ceil_exact : forall x : f64, fin x = true -> val (go_ceil x) = IZR (real_ceil (val x)).
Proof. intros x _. exact (nearbyint_value mode_UP x). Qed.

Lemma trunc_exact : forall x : f64, fin x = true -> val (go_trunc x) = IZR (real_trunc (val x)).
Proof. intros x _. exact (nearbyint_value mode_ZR x). Qed.

Lemma round_exact_ZnearestA : forall x : f64, fin x = true -> val (go_round x) = IZR (ZnearestA (val x)).
Proof. intros x _. exact (nearbyint_value mode_NA x). Qed.

(* Flocq's nearest-with-ties-away is the textbook "floor (r + 1/2) for r >= 0,
   ceil (r - 1/2) for r < 0" *)
Lemma ZnearestA_half_away : forall r : R, ZnearestA r = round_half_away r.
Proof.
  intros r. unfold ZnearestA, Znearest, round_half_away.
  pose proof (Zfloor_lb r) as Hlb. pose proof (Zfloor_ub r) as Hub.
  set (f := Zfloor r) in *.
  destruct (Rle_bool_spec 0 r) as [Hr | Hr].
  - (* r >= 0 *)
    destruct (Rcompare_spec (r - IZR f) (/ 2)) as [Hd | Hd | Hd].
    + symmetry. apply Zfloor_imp. rewrite plus_IZR. lra.
    + assert (Hf : (0 <= f)%Z).
      { assert (-1 < f)%Z by (apply lt_IZR; lra). lia. }
      apply Z.leb_le in Hf. rewrite Hf.
      rewrite Zceil_floor_neq by (fold f; lra). fold f.
      symmetry. apply Zfloor_imp. rewrite !plus_IZR. lra.
    + rewrite Zceil_floor_neq by (fold f; lra). fold f.
      symmetry. apply Zfloor_imp. rewrite !plus_IZR. lra.
  - (* r < 0 *)
    destruct (Rcompare_spec (r - IZR f) (/ 2)) as [Hd | Hd | Hd].
    + symmetry. apply Zceil_imp. rewrite minus_IZR. lra.
    + assert (Hf : (0 <=? f)%Z = false).
      { apply Z.leb_gt. apply lt_IZR. lra. }
      rewrite Hf. symmetry. apply Zceil_imp. rewrite minus_IZR. lra.
    + rewrite Zceil_floor_neq by (fold f; lra). fold f.
      symmetry. apply Zceil_imp. replace (f + 1 - 1)%Z with f by lia. rewrite plus_IZR. lra.
Qed.

Lemma round_exact : forall x : f64, fin x = true -> val (go_round x) = IZR (round_half_away (val x)).
Proof. intros x Hx. rewrite <- ZnearestA_half_away. exact (round_exact_ZnearestA x Hx). Qed.

(* the integer modes of roundHelper ignore the argument, keep finiteness and the sign *)
Lemma int_modes_total : forall (m : rmode) (prec : Z) (x : f64),
  is_prec_mode m = false ->
  fin (round_helper m prec x) = fin x /\
  (is_nan (round_helper m prec x) = false -> Bsign (round_helper m prec x) = Bsign x).
Proof.
  intros m prec x Hm.
  destruct m; try discriminate Hm; cbn [round_helper];
    unfold go_round, go_ceil, go_floor;
    match goal with |- context [@Bnearbyint _ _ _ ?md _] =>
      destruct (Bnearbyint_correct 53 1024 Hemax1024 md x) as [_ [H1 H2]] end;
    split; assumption.
Qed.

Lemma int_modes_value : forall (prec : Z) (x : f64), fin x = true ->
  val (round_helper Round prec x) = IZR (round_half_away (val x)) /\
  val (round_helper Ceil prec x) = IZR (real_ceil (val x)) /\
  val (round_helper Floor prec x) = IZR (real_floor (val x)).
Proof.
  intros prec x Hx. cbn [round_helper].
  repeat split; [apply round_exact | apply ceil_exact | apply floor_exact]; exact Hx.
Qed.

(* ------------------------------------------------------------------ *)
(* precision modes: prec = 0                                           *)
(* ------------------------------------------------------------------ *)

Lemma prec0_identity : forall (m : rmode) (x : f64),
  is_prec_mode m = true -> round_helper m 0 x = x.
Proof. intros m x Hm. destruct m; try discriminate Hm; reflexivity. Qed.

(* ------------------------------------------------------------------ *)
(* math.Pow10 is exact up to 10^22                                     *)
(* ------------------------------------------------------------------ *)

(* equality of two radix-2 floats, decided on integers after aligning the exponents *)
Lemma F2R_eq_align : forall (za zc : Z) (ea ec : Z),
  (za * 2 ^ (ea - Z.min ea ec) = zc * 2 ^ (ec - Z.min ea ec))%Z ->
  F2R (Float radix2 zc ec) = F2R (Float radix2 za ea).
Proof.
  intros za zc ea ec H.
  set (k := Z.min ea ec) in *.
  rewrite (F2R_change_exp radix2 k zc ec) by (unfold k; lia).
  rewrite (F2R_change_exp radix2 k za ea) by (unfold k; lia).
  change (Zpower radix2) with (Z.pow 2). rewrite H. reflexivity.
Qed.

Lemma F2R_mult_align : forall (za zb zc : Z) (ea eb ec : Z),
  (za * zb * 2 ^ (ea + eb - Z.min (ea + eb) ec) = zc * 2 ^ (ec - Z.min (ea + eb) ec))%Z ->
  F2R (Float radix2 zc ec) = F2R (Float radix2 za ea) * F2R (Float radix2 zb eb).
Proof.
  intros za zb zc ea eb ec H.
  rewrite (F2R_eq_align (za * zb) zc (ea + eb) ec H).
  unfold F2R. cbn [Fnum Fexp]. rewrite mult_IZR, bpow_plus. ring.
Qed.

Definition pow10_chk (p : Z) : bool :=
  match B2SF (pow10 p) with
  | S754_finite false m e => (10 ^ p * 2 ^ (0 - Z.min 0 e) =? Z.pos m * 2 ^ (e - Z.min 0 e))%Z
  | _ => false
  end.

Lemma pow10_chk_sweep : forallb pow10_chk (map Z.of_nat (seq 0 23)) = true.
Proof. vm_compute. reflexivity. Qed.

Lemma pow10_chk_ok : forall p : Z, (0 <= p <= 22)%Z -> pow10_chk p = true.
Proof.
  intros p Hp.
  assert (Hin : In p (map Z.of_nat (seq 0 23))).
  { rewrite <- (Z2Nat.id p) by lia. apply in_map. apply in_seq. lia. }
  exact (proj1 (forallb_forall _ _) pow10_chk_sweep p Hin).
Qed.

Lemma pow10_exact : forall p : Z, (0 <= p <= 22)%Z ->
  val (pow10 p) = pow10R p /\ fin (pow10 p) = true.
Proof.
  intros p Hp. pose proof (pow10_chk_ok p Hp) as H. unfold pow10_chk in H.
  rewrite <- SF2R_B2SF, <- is_finite_SF_B2SF.
  destruct (B2SF (pow10 p)) as [s | s | | s m e]; try discriminate H.
  destruct s; try discriminate H.
  apply Z.eqb_eq in H.
  split; [| reflexivity].
  unfold SF2R. cbn [cond_Zopp]. rewrite (F2R_eq_align _ _ _ _ H).
  unfold pow10R, F2R. cbn [Fnum Fexp bpow]. ring.
Qed.

Lemma pow10R_ge_1 : forall p : Z, (0 <= p)%Z -> 1 <= pow10R p.
Proof.
  intros p Hp. unfold pow10R. apply IZR_le.
  assert (0 < 10 ^ p)%Z by (apply Z.pow_pos_nonneg; lia). lia.
Qed.

(* ------------------------------------------------------------------ *)
(* the final division never overflows and is correctly rounded         *)
(* ------------------------------------------------------------------ *)

Lemma fdiv_pow10 : forall (t : f64) (p : Z), (0 <= p <= 22)%Z ->
  val (fdiv t (pow10 p)) = round_NE (val t / pow10R p) /\
  fin (fdiv t (pow10 p)) = fin t.
Proof.
  intros t p Hp.
  destruct (pow10_exact p Hp) as [HP _].
  pose proof (pow10R_ge_1 p (proj1 Hp)) as H1.
  pose proof (Bdiv_correct 53 1024 Hprec53 Hemax1024 mode_NE t (pow10 p)) as H.
  rewrite HP in H. specialize (H ltac:(lra)).
  rewrite Rlt_bool_true in H.
  - destruct H as [Hv [Hf _]]. split; [exact Hv | exact Hf].
  - apply Rle_lt_trans with (Rabs (val t)); [| apply abs_B2R_lt_emax].
    apply abs_round_le_generic.
    + apply fexp_correct. reflexivity.
    + apply valid_rnd_round_mode.
    + apply generic_format_abs, generic_format_B2R.
    + unfold Rdiv. rewrite Rabs_mult.
      assert (Hinv : 0 < / pow10R p <= 1).
      { split; [apply Rinv_0_lt_compat; lra|].
        rewrite <- Rinv_1. apply Rinv_le_contravar; lra. }
      rewrite (Rabs_pos_eq (/ pow10R p)) by lra.
      pose proof (Rabs_pos (val t)). nra.
Qed.

(* ------------------------------------------------------------------ *)
(* exact products                                                      *)
(* ------------------------------------------------------------------ *)

Lemma fmul_exact_finite : forall a b : f64,
  fin a = true -> fin b = true ->
  val (fmul a b) = val a * val b -> fin (fmul a b) = true.
Proof.
  intros a b Ha Hb Hex.
  pose proof (Bmult_correct 53 1024 Hprec53 Hemax1024 mode_NE a b) as H.
  destruct (Rlt_bool (Rabs (round radix2 (SpecFloat.fexp 53 1024) (round_mode mode_NE) (val a * val b)))
                     (bpow radix2 1024)) eqn:E.
  - destruct H as [_ [H _]]. unfold fmul. rewrite H, Ha, Hb. reflexivity.
  - exfalso.
    assert (H0 : val (fmul a b) = 0).
    { rewrite <- SF2R_B2SF. unfold fmul. rewrite H. reflexivity. }
    rewrite <- Hex, H0 in E.
    rewrite round_0 in E by apply valid_rnd_round_mode.
    rewrite Rabs_R0 in E.
    rewrite Rlt_bool_true in E by apply bpow_gt_0. discriminate E.
Qed.

Lemma fmul_exact_b_correct : forall a b : f64,
  fmul_exact_b a b = true -> val (fmul a b) = val a * val b.
Proof.
  intros a b H. unfold fmul_exact_b in H.
  destruct a as [sa | sa | | sa ma ea Ha]; destruct b as [sb | sb | | sb mb eb Hb];
    cbn [B2SF] in H; try discriminate H;
    try (cbn [B2R]; rewrite ?Rmult_0_l, ?Rmult_0_r; reflexivity).
  set (c := fmul (B754_finite sa ma ea Ha) (B754_finite sb mb eb Hb)) in *.
  rewrite <- (SF2R_B2SF 53 1024 c).
  destruct (B2SF c) as [sc | sc | | sc mc ec]; try discriminate H.
  apply Z.eqb_eq in H.
  cbn [SF2R B2R]. apply F2R_mult_align. exact H.
Qed.

(* ------------------------------------------------------------------ *)
(* float64(int(v)) under the int64 guard                               *)
(* ------------------------------------------------------------------ *)

Lemma Btrunc_value : forall v : f64, Btrunc v = real_trunc (val v).
Proof.
  intros v. apply eq_IZR. rewrite Btrunc_correct by reflexivity. apply round_FIX_IZR.
Qed.

Lemma of_Z_exact : forall z : Z, is_f64 (IZR z) -> Rabs (IZR z) < bpow radix2 1024 ->
  val (of_Z z) = IZR z /\ fin (of_Z z) = true.
Proof.
  intros z Hfmt Hlt.
  pose proof (binary_normalize_correct 53 1024 Hprec53 Hemax1024 mode_NE z 0 false) as H.
  cbv zeta in H.
  assert (Hz : F2R (Float radix2 z 0) = IZR z).
  { unfold F2R. cbn [Fnum Fexp bpow]. ring. }
  rewrite Hz in H.
  rewrite round_generic in H by (try apply valid_rnd_round_mode; exact Hfmt).
  rewrite Rlt_bool_true in H by exact Hlt.
  destruct H as [Hv [Hf _]]. split; [exact Hv | exact Hf].
Qed.

Lemma float_of_int_exact : forall v : f64, in_int64_range v = true ->
  val (go_float_of_int v) = IZR (real_trunc (val v)) /\ fin (go_float_of_int v) = true.
Proof.
  intros v Hg. unfold go_float_of_int, go_int. rewrite Hg.
  rewrite Btrunc_value.
  pose proof (nearbyint_value mode_ZR v) as Ht. cbn [round_mode] in Ht.
  apply of_Z_exact.
  - unfold real_trunc. rewrite <- Ht. apply val_is_f64.
  - unfold real_trunc. rewrite <- Ht. apply abs_B2R_lt_emax.
Qed.

(* ------------------------------------------------------------------ *)
(* precision modes: correct whenever the scaling product is exact      *)
(* ------------------------------------------------------------------ *)

Lemma floor_prec_partial : forall (x : f64) (p : Z),
  fin x = true -> (1 <= p <= 22)%Z ->
  val (fmul (pow10 p) x) = val x * pow10R p ->
  val (round_helper FloorPrec p x) = prec_spec real_floor p (val x).
Proof.
  intros x p Hx Hp Hex.
  unfold round_helper. replace (p =? 0)%Z with false by (symmetry; apply Z.eqb_neq; lia).
  cbv zeta.
  destruct (fdiv_pow10 (go_floor (fmul (pow10 p) x)) p ltac:(lia)) as [Hv _].
  rewrite Hv. rewrite (nearbyint_value mode_DN). cbn [round_mode]. rewrite Hex.
  reflexivity.
Qed.

Lemma ceil_prec_partial : forall (x : f64) (p : Z),
  fin x = true -> (1 <= p <= 22)%Z ->
  val (fmul (pow10 p) x) = val x * pow10R p ->
  val (round_helper CeilPrec p x) = prec_spec real_ceil p (val x).
Proof.
  intros x p Hx Hp Hex.
  unfold round_helper. replace (p =? 0)%Z with false by (symmetry; apply Z.eqb_neq; lia).
  cbv zeta.
  destruct (fdiv_pow10 (go_ceil (fmul (pow10 p) x)) p ltac:(lia)) as [Hv _].
  rewrite Hv. rewrite (nearbyint_value mode_UP). cbn [round_mode]. rewrite Hex.
  reflexivity.
Qed.

Lemma trunc_prec_partial : forall (x : f64) (p : Z),
  fin x = true -> (1 <= p <= 22)%Z ->
  in_int64_range (fmul x (pow10 p)) = true ->
  val (fmul x (pow10 p)) = val x * pow10R p ->
  val (round_helper RoundPrec p x) = prec_spec real_trunc p (val x).
Proof.
  intros x p Hx Hp Hg Hex.
  unfold round_helper. replace (p =? 0)%Z with false by (symmetry; apply Z.eqb_neq; lia).
  cbv zeta.
  destruct (fdiv_pow10 (go_float_of_int (fmul x (pow10 p))) p ltac:(lia)) as [Hv _].
  rewrite Hv. rewrite (proj1 (float_of_int_exact _ Hg)). rewrite Hex.
  reflexivity.
Qed.

(* the result is finite in these cases *)
Lemma prec_partial_finite : forall (m : rmode) (x : f64) (p : Z),
  fin x = true -> (1 <= p <= 22)%Z ->
  match m with
  | RoundPrec => in_int64_range (fmul x (pow10 p)) = true
  | _ => val (fmul (pow10 p) x) = val x * pow10R p
  end ->
  fin (round_helper m p x) = true.
Proof.
  intros m x p Hx Hp H.
  destruct (pow10_exact p ltac:(lia)) as [HP HF].
  destruct m; cbn [round_helper]; unfold go_round, go_ceil, go_floor.
  - rewrite nearbyint_finite. exact Hx.
  - replace (p =? 0)%Z with false by (symmetry; apply Z.eqb_neq; lia). cbv zeta.
    rewrite (proj2 (fdiv_pow10 _ p ltac:(lia))).
    exact (proj2 (float_of_int_exact _ H)).
  - rewrite nearbyint_finite. exact Hx.
  - replace (p =? 0)%Z with false by (symmetry; apply Z.eqb_neq; lia). cbv zeta.
    rewrite (proj2 (fdiv_pow10 _ p ltac:(lia))). rewrite nearbyint_finite.
    apply fmul_exact_finite; [exact HF | exact Hx |]. rewrite H, HP. ring.
  - rewrite nearbyint_finite. exact Hx.
  - replace (p =? 0)%Z with false by (symmetry; apply Z.eqb_neq; lia). cbv zeta.
    rewrite (proj2 (fdiv_pow10 _ p ltac:(lia))). rewrite nearbyint_finite.
    apply fmul_exact_finite; [exact HF | exact Hx |]. rewrite H, HP. ring.
Qed.

(* the computable sufficient condition *)
Lemma floor_prec_partial_b : forall (x : f64) (p : Z),
  fin x = true -> (1 <= p <= 22)%Z ->
  fmul_exact_b (pow10 p) x = true ->
  val (round_helper FloorPrec p x) = prec_spec real_floor p (val x).
Proof.
  intros x p Hx Hp Hb. apply floor_prec_partial; try assumption.
  rewrite (fmul_exact_b_correct _ _ Hb), (proj1 (pow10_exact p ltac:(lia))). ring.
Qed.

Lemma ceil_prec_partial_b : forall (x : f64) (p : Z),
  fin x = true -> (1 <= p <= 22)%Z ->
  fmul_exact_b (pow10 p) x = true ->
  val (round_helper CeilPrec p x) = prec_spec real_ceil p (val x).
Proof.
  intros x p Hx Hp Hb. apply ceil_prec_partial; try assumption.
  rewrite (fmul_exact_b_correct _ _ Hb), (proj1 (pow10_exact p ltac:(lia))). ring.
Qed.

Lemma trunc_prec_partial_b : forall (x : f64) (p : Z),
  fin x = true -> (1 <= p <= 22)%Z ->
  in_int64_range (fmul x (pow10 p)) = true ->
  fmul_exact_b x (pow10 p) = true ->
  val (round_helper RoundPrec p x) = prec_spec real_trunc p (val x).
Proof.
  intros x p Hx Hp Hg Hb. apply trunc_prec_partial; try assumption.
  rewrite (fmul_exact_b_correct _ _ Hb), (proj1 (pow10_exact p ltac:(lia))). ring.
Qed.

(* ------------------------------------------------------------------ *)
(* the full statement is false: 1000000000000000.25 | floorPrec(2)     *)
(* ------------------------------------------------------------------ *)

(* "exact at the requested number of decimals" for every finite input *)
Definition floor_prec_full_statement : Prop :=
  forall (x : f64) (p : Z), fin x = true -> (1 <= p <= 15)%Z ->
  val (round_helper FloorPrec p x) = prec_spec real_floor p (val x).
Definition ceil_prec_full_statement : Prop :=
  forall (x : f64) (p : Z), fin x = true -> (1 <= p <= 15)%Z ->
  val (round_helper CeilPrec p x) = prec_spec real_ceil p (val x).
Definition trunc_prec_full_statement : Prop :=
  forall (x : f64) (p : Z), fin x = true -> (1 <= p <= 15)%Z ->
  in_int64_range (fmul x (pow10 p)) = true ->
  val (round_helper RoundPrec p x) = prec_spec real_trunc p (val x).

(* x = 1000000000000000.25 = 8000000000000002 / 8, a binary64 with two exact decimals *)
Definition witness_bits : Z := 0x430C6BF526340002.
Definition witness : f64 := of_bits witness_bits.
(* -x, for ceilPrec *)
Definition witness_neg : f64 := of_bits 0xC30C6BF526340002.

Lemma witness_finite : fin witness = true.
Proof. vm_compute. reflexivity. Qed.
Lemma witness_neg_finite : fin witness_neg = true.
Proof. vm_compute. reflexivity. Qed.

Lemma witness_value : val witness = 8000000000000002 / 8.
Proof.
  rewrite <- SF2R_B2SF.
  replace (B2SF witness) with (S754_finite false 8000000000000002 (-3)) by (vm_compute; reflexivity).
  unfold SF2R, F2R. cbn [cond_Zopp Fnum Fexp]. change (bpow radix2 (-3)) with (/ 8). lra.
Qed.

Lemma witness_neg_value : val witness_neg = - 8000000000000002 / 8.
Proof.
  rewrite <- SF2R_B2SF.
  replace (B2SF witness_neg) with (S754_finite true 8000000000000002 (-3)) by (vm_compute; reflexivity).
  unfold SF2R, F2R. cbn [cond_Zopp Fnum Fexp]. change (bpow radix2 (-3)) with (/ 8).
  change (IZR (- Z.pos 8000000000000002)) with (- 8000000000000002). lra.
Qed.

(* the specification value at the witness is the witness itself: x has two decimals already *)
Lemma witness_scaled : val witness * pow10R 2 = IZR 100000000000000025.
Proof. rewrite witness_value. unfold pow10R. change (10 ^ 2)%Z with 100%Z. lra. Qed.

Lemma witness_spec_floor : prec_spec real_floor 2 (val witness) = val witness.
Proof.
  unfold prec_spec, prec_value, real_floor. rewrite witness_scaled, Zfloor_IZR.
  replace (100000000000000025 / pow10R 2) with (val witness).
  - apply round_generic; [apply valid_rnd_N | apply val_is_f64].
  - rewrite witness_value. unfold pow10R. change (10 ^ 2)%Z with 100%Z. lra.
Qed.

Lemma witness_spec_trunc : prec_spec real_trunc 2 (val witness) = val witness.
Proof.
  unfold prec_spec, prec_value, real_trunc. rewrite witness_scaled, Ztrunc_IZR.
  replace (100000000000000025 / pow10R 2) with (val witness).
  - apply round_generic; [apply valid_rnd_N | apply val_is_f64].
  - rewrite witness_value. unfold pow10R. change (10 ^ 2)%Z with 100%Z. lra.
Qed.

Lemma witness_neg_spec_ceil : prec_spec real_ceil 2 (val witness_neg) = val witness_neg.
Proof.
  unfold prec_spec, prec_value, real_ceil.
  replace (val witness_neg * pow10R 2) with (IZR (-100000000000000025))
    by (rewrite witness_neg_value; unfold pow10R; change (10 ^ 2)%Z with 100%Z;
        change (IZR (-100000000000000025)) with (- 100000000000000025); lra).
  rewrite Zceil_IZR.
  replace (IZR (-100000000000000025) / pow10R 2) with (val witness_neg).
  - apply round_generic; [apply valid_rnd_N | apply val_is_f64].
  - rewrite witness_neg_value. unfold pow10R. change (10 ^ 2)%Z with 100%Z.
    change (IZR (-100000000000000025)) with (- 100000000000000025). lra.
Qed.

(* what the code computes: one ulp ABOVE the input (1000000000000000.375) *)
Lemma witness_code_bits : (round_bits FloorPrec 2 witness_bits = 0x430C6BF526340003)%Z.
Proof. vm_compute. reflexivity. Qed.

Lemma Bcompare_Gt_lt : forall a b : f64, fin a = true -> fin b = true ->
  Bcompare a b = Some Gt -> val b < val a.
Proof.
  intros a b Ha Hb H. rewrite (Bcompare_correct 53 1024 a b Ha Hb) in H.
  injection H as H. apply Rcompare_Gt_inv. exact H.
Qed.

Lemma witness_floor_above : val witness < val (round_helper FloorPrec 2 witness).
Proof. apply Bcompare_Gt_lt; vm_compute; reflexivity. Qed.

Lemma witness_trunc_above : val witness < val (round_helper RoundPrec 2 witness).
Proof. apply Bcompare_Gt_lt; vm_compute; reflexivity. Qed.

Lemma witness_ceil_below : val (round_helper CeilPrec 2 witness_neg) < val witness_neg.
Proof. apply Bcompare_Gt_lt; vm_compute; reflexivity. Qed.

Lemma floor_prec_refuted : ~ floor_prec_full_statement.
Proof.
  intros H. specialize (H witness 2%Z witness_finite ltac:(lia)).
  rewrite witness_spec_floor in H.
  pose proof witness_floor_above as Hlt. rewrite H in Hlt. exact (Rlt_irrefl _ Hlt).
Qed.

Lemma ceil_prec_refuted : ~ ceil_prec_full_statement.
Proof.
  intros H. specialize (H witness_neg 2%Z witness_neg_finite ltac:(lia)).
  rewrite witness_neg_spec_ceil in H.
  pose proof witness_ceil_below as Hlt. rewrite H in Hlt. exact (Rlt_irrefl _ Hlt).
Qed.

Lemma trunc_prec_refuted : ~ trunc_prec_full_statement.
Proof.
  intros H.
  specialize (H witness 2%Z witness_finite ltac:(lia) ltac:(vm_compute; reflexivity)).
  rewrite witness_spec_trunc in H.
  pose proof witness_trunc_above as Hlt. rewrite H in Hlt. exact (Rlt_irrefl _ Hlt).
Qed.

(* even the weakest reading fails: floorPrec can return MORE than its input,
   ceilPrec LESS than its input *)
Lemma floor_prec_not_below : exists x : f64, fin x = true /\ val x < val (round_helper FloorPrec 2 x).
Proof. exists witness. split; [exact witness_finite | exact witness_floor_above]. Qed.

Lemma ceil_prec_not_above : exists x : f64, fin x = true /\ val (round_helper CeilPrec 2 x) < val x.
Proof. exists witness_neg. split; [exact witness_neg_finite | exact witness_ceil_below]. Qed.
