(* E-mode: extraction of the byte-level model for bulk correspondence runs.
   Only ExtrOcamlBasic is used; N, Z, positive and byte stay extracted datatypes. *)
From Coq Require Import Extraction ExtrOcamlBasic.
From DT Require Import Model.Bytes Extract.Dispatch.

Extraction "model.ml" run_esc Byte.of_N Byte.to_N.
