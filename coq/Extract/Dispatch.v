(* The dispatcher of the byte-level model: what the E-mode driver is extracted from, and what the
   extraction cross-check evaluates inside Coq on a sample of every run. *)
From Coq Require Import NArith ZArith.
From DT Require Import Model.Bytes Model.EscURL Spec.DecURL Model.EscJSON Spec.DecJSON Model.Utf8 Model.EscJS Spec.DecJS Model.EscHTML Spec.DecHTML.

Definition opt_bytes (o : option bytes) : option bytes := o.

(* dispatcher: function id, iteration count, input *)
Definition run_esc (fn : N) (itr : Z) (s : bytes) : option bytes :=
  match fn with
  | 1 => Some (mod_url_encode itr s)
  | 2 => Some (mod_link_escape itr s)
  | 3 => Some (mod_json_escape itr s)
  | 4 => Some (mod_json_quote s)
  | 5 => Some (mod_html_escape itr s)
  | 6 => Some (mod_attr_escape itr s)
  | 7 => Some (mod_js_escape itr s)
  | 8 => Some (mod_css_escape itr s)
  | 101 => query_unescape s
  | 103 => Some (html_unescape s)
  | 104 => option_map utf8_encode_all (js_unescape s)
  | 105 => Some (utf8_encode_all (css_unescape s))
  | 102 => json_unquote s
  | _ => None
  end%N.

