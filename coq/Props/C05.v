(* C05 — a reset or pooled context behaves exactly like a new one. *)
From DT Require Import Model.Bytes Model.Value Model.Tree Model.Interp Proofs.StateFacts.

(* whatever state a context was left in (failed render, exit, open bound tag, aborted loop ...),
   Reset yields the state of a new context; only the event log records the released pooled objects *)
Theorem C05_reset_is_new_modulo_log : forall c,
  let r := ctx_reset c in
  vars r = vars ctx_new /\ chQB r = chQB ctx_new /\ chJQ r = chJQ ctx_new /\ chHE r = chHE ctx_new /\
  chUE r = chUE ctx_new /\ bufLC r = bufLC ctx_new /\ brkD r = brkD ctx_new /\ cerr r = cerr ctx_new /\
  bufB r = bufB ctx_new /\ dfr r = dfr ctx_new /\ ipv r = ipv ctx_new /\ wd r = wd ctx_new.
Proof. exact reset_is_new_modulo_log. Qed.
Print Assumptions C05_reset_is_new_modulo_log.

(* the reset state does not depend on anything but the pooled objects still held and the log *)
Theorem C05_reset_forgets : forall c1 c2, ipv c1 = ipv c2 -> elog c1 = elog c2 -> ctx_reset c1 = ctx_reset c2.
Proof. exact reset_forgets. Qed.
Print Assumptions C05_reset_forgets.

(* ---- histories: setter / render / reset steps on one context (Proofs/HistoryProofs.v) ---- *)
From Coq Require Import String.
From DT Require Import Model.Mods Model.VCase Proofs.HistoryProofs.

(* a reset context with its log cleared IS a new context, whatever state it was in *)
Theorem C05_reset_then_clear_is_new : forall c, clear_log (ctx_reset (clear_log c)) = ctx_new.
Proof. exact reset_then_clear_is_new. Qed.
Print Assumptions C05_reset_then_clear_is_new.

(* whatever happened before a reset (failed renders, exits, open bound tags, aborted loops: all
   inside [pre], unconstrained), the steps after it are judged exactly as on a new context.
   [final_ctx hc pre c = Some c'] only says that no render of [pre] left the model (the harness
   sets such a history aside: C05_history_set_aside) *)
Theorem C05_history_after_reset : forall hc pre evs post c c',
  final_ctx hc pre c = Some c' ->
  check_history hc (pre ++ HReset evs :: post) c =
  check_history hc pre c ++ [reset_verdict c' evs] ++ check_history hc post ctx_new.
Proof. exact history_after_reset. Qed.
Print Assumptions C05_history_after_reset.

Theorem C05_history_set_aside : forall hc pre rest c,
  final_ctx hc pre c = None -> check_history hc (pre ++ rest) c = check_history hc pre c.
Proof. exact history_set_aside. Qed.
Print Assumptions C05_history_set_aside.

(* the unconditional form fails exactly for that reason (a tree outside the model: [HSkip]) *)
Theorem C05_history_after_reset_unconditional_refuted : ~ history_after_reset_full_statement.
Proof. exact history_after_reset_refuted. Qed.
Print Assumptions C05_history_after_reset_unconditional_refuted.

Theorem C05_context_after_reset_is_new : forall hc pre evs c c',
  final_ctx hc pre c = Some c' -> final_ctx hc (pre ++ [HReset evs]) c = Some ctx_new.
Proof. exact final_ctx_after_reset. Qed.
Print Assumptions C05_context_after_reset_is_new.

(* a render never reads the event log: on contexts that differ in the log only, output, error
   and resulting context agree (but for the log), and both runs add the same events *)
Theorem C05_log_does_not_influence_rendering : forall flits lookup budget depth t c1 c2 w,
  same_but_log c1 c2 ->
  out_same_but_log c1 c2 (render flits lookup budget depth t c1 w) (render flits lookup budget depth t c2 w).
Proof. exact log_does_not_influence_rendering. Qed.
Print Assumptions C05_log_does_not_influence_rendering.

Theorem C05_log_does_not_influence_nodes : forall flits lookup budget inc ls c1 c2 w,
  (forall t l c, inc t (push l c) = pushInc l (inc t c)) ->
  same_but_log c1 c2 ->
  out_same_but_log c1 c2 (run_nodes flits lookup budget inc ls c1 w) (run_nodes flits lookup budget inc ls c2 w).
Proof. exact log_does_not_influence_nodes. Qed.
Print Assumptions C05_log_does_not_influence_nodes.

(* the equational form: more events below the log change nothing but the log *)
Theorem C05_render_commutes_with_log : forall flits lookup budget depth t l c w,
  render flits lookup budget depth t (push l c) w = pushO l (render flits lookup budget depth t c w).
Proof. exact render_push. Qed.
Print Assumptions C05_render_commutes_with_log.

(* non-vacuity: a failing render, an exit inside an open jsonquote tag, a reset; the render after
   the reset is the render on a new context; without the reset the left-over state shows *)
Example C05_history_example :
  check_history hc_ex (pre_ex ++ [HReset []; HRender t_quotes (Bs """q""") 0 []]) ctx_new = [HOk; HOk; HOk; HOk] /\
  check_history hc_ex (pre_ex ++ [HRender t_quotes (Bs """q""") 0 []]) ctx_new = [HOk; HOk; HBad "5c22715c22" 15 0] /\
  (match final_ctx hc_ex pre_ex ctx_new with Some c => chJQ c = true /\ List.length (vars c) = 1%nat | None => False end) /\
  final_ctx hc_ex (pre_ex ++ [HReset []]) ctx_new = Some ctx_new /\
  render [] (reg_lookup []) 10 8 t_quotes ctx_new (wr_new None 0) =
  render [] (reg_lookup []) 10 8 t_quotes (clear_log (ctx_reset (clear_log ctx_new))) (wr_new None 0).
Proof. exact history_reset_example. Qed.

(* ---- histories with renders through a failing writer (HRenderF) ----
   The theorems above ([final_ctx], [check_history]) quantify over histories that contain such steps
   too: whatever a faulted render left behind, the steps after a Reset are judged exactly as on a
   new context (C05_history_after_reset, C05_context_after_reset_is_new).  The Reset itself: *)
Theorem C05_reset_after_failed_render : forall c,
  dfr (ctx_reset (clear_log c)) = [] /\ ipv (ctx_reset (clear_log c)) = [] /\
  rev (elog (ctx_reset (clear_log c))) = map EvRelease (ipv c) /\
  clear_log (ctx_reset (clear_log c)) = ctx_new.
Proof. exact reset_after_failed_render. Qed.
Print Assumptions C05_reset_after_failed_render.

Example C05_history_fault_example :
  check_history hc_ex steps_fault ctx_new = [HOk; HOk; HOk; HOk; HOk] /\
  (match final_ctx hc_ex (firstn 2 steps_fault) ctx_new with
   | Some c => dfr c = [Bs "d1"%string] /\ ipv c = [Bs "p1"%string] /\
               forallb (fun ev => match ev with EvRun _ _ => false | _ => true end) (elog c) = true
   | None => False
   end) /\
  hist_pools hc_ex (firstn 2 steps_fault) ctx_new = [Bs "p1"%string] /\
  final_ctx hc_ex (firstn 3 steps_fault) ctx_new = Some ctx_new.
Proof. exact history_fault_example. Qed.
