(* C05 — a reset or pooled context behaves exactly like a new one. *)
From DT Require Import Model.Bytes Model.Value Model.Tree Model.Interp Proofs.StateFacts.

(* whatever state a context was left in (failed render, exit, open bound tag, aborted loop ...),
   Reset yields the state of a new context; only the event log records the released pooled objects *)
Theorem C05_reset_is_new_modulo_log : forall c,
  let r := ctx_reset c in
  vars r = vars ctx_new /\ chQB r = chQB ctx_new /\ chJQ r = chJQ ctx_new /\ chHE r = chHE ctx_new /\
  chUE r = chUE ctx_new /\ bufLC r = bufLC ctx_new /\ brkD r = brkD ctx_new /\ cerr r = cerr ctx_new /\
  bufB r = bufB ctx_new /\ dfr r = dfr ctx_new /\ ipv r = ipv ctx_new /\ wd r = wd ctx_new.
Proof. exact reset_is_new_modulo_log. Qed.
Print Assumptions C05_reset_is_new_modulo_log.

(* the reset state does not depend on anything but the pooled objects still held and the log *)
Theorem C05_reset_forgets : forall c1 c2, ipv c1 = ipv c2 -> elog c1 = elog c2 -> ctx_reset c1 = ctx_reset c2.
Proof. exact reset_forgets. Qed.
Print Assumptions C05_reset_forgets.
