(* C14 — break, continue and lazybreak end exactly the loops they name. *)
From DT Require Import Model.Bytes Model.Value Model.Tree Model.Interp Proofs.InterpFacts.

Theorem C14_break_signal : forall flits lookup budget inc d c w,
  write_node flits lookup budget inc (NBreak d) c w = Out (set_brkD d (set_cerr None c)) w (Some EBreak).
Proof. exact break_signal. Qed.
Print Assumptions C14_break_signal.
Theorem C14_lazybreak_signal : forall flits lookup budget inc d c w,
  write_node flits lookup budget inc (NLBreak d) c w = Out (set_brkD d (set_cerr None c)) w (Some ELBreak).
Proof. exact lazybreak_signal. Qed.
Print Assumptions C14_lazybreak_signal.
Theorem C14_continue_signal : forall flits lookup budget inc c w,
  write_node flits lookup budget inc NContinue c w = Out (set_cerr None c) w (Some ECont).
Proof. exact continue_signal. Qed.
Print Assumptions C14_continue_signal.
