(* C14 — break, continue and lazybreak end exactly the loops they name. *)
From DT Require Import Model.Bytes Model.Value Model.Tree Model.Interp Proofs.InterpFacts.

Theorem C14_break_signal : forall flits lookup budget inc d c w,
  write_node flits lookup budget inc (NBreak d) c w = Out (set_brkD (Z.max d (brkD c)) (set_cerr None c)) w (Some EBreak).
Proof. exact break_signal. Qed.
Print Assumptions C14_break_signal.
Theorem C14_lazybreak_signal : forall flits lookup budget inc d c w,
  write_node flits lookup budget inc (NLBreak d) c w = Out (set_brkD (Z.max d (brkD c)) (set_cerr None c)) w (Some ELBreak).
Proof. exact lazybreak_signal. Qed.
Print Assumptions C14_lazybreak_signal.
Theorem C14_continue_signal : forall flits lookup budget inc c w,
  write_node flits lookup budget inc NContinue c w = Out (set_cerr None c) w (Some ECont).
Proof. exact continue_signal. Qed.
Print Assumptions C14_continue_signal.

(* ---- refinement of the reference semantics: control signals (Proofs/RefineNodes.v) ---- *)
From Coq Require Import String.
From DT Require Import Model.Mods Spec.Ast Spec.RefEval Spec.Compile Proofs.FlatProofs Proofs.RefineBase
  Proofs.RefineCond Proofs.RefineList Proofs.RefineNodes Proofs.RefineFindings.
Local Open Scope Z_scope.

Theorem C14_break_refines :
  forall flits lookup budget inc rlookup rinc L (lz : bool) n cnd,
    node_ref flits lookup budget inc rlookup rinc L (if lz then NLBreak n else NBreak n) (ABreak lz n false cnd).
Proof. exact break_ref. Qed.
Print Assumptions C14_break_refines.

Theorem C14_break_if_refines :
  forall flits lookup budget inc rlookup rinc L (lz : bool) n cnd,
    node_ref flits lookup budget inc rlookup rinc L
      (NCond (c_cond cnd) [if lz then NLBreak n else NBreak n]) (ABreak lz n true cnd).
Proof. exact break_if_ref. Qed.
Print Assumptions C14_break_if_refines.

Theorem C14_continue_refines :
  forall flits lookup budget inc rlookup rinc L cnd,
    node_ref flits lookup budget inc rlookup rinc L NContinue (AContinue false cnd).
Proof. exact continue_ref. Qed.
Print Assumptions C14_continue_refines.

Theorem C14_continue_if_refines :
  forall flits lookup budget inc rlookup rinc L cnd,
    node_ref flits lookup budget inc rlookup rinc L (NCond (c_cond cnd) [NContinue]) (AContinue true cnd).
Proof. exact continue_if_ref. Qed.
Print Assumptions C14_continue_if_refines.

(* (how the loops consume the signals and the depth: C03_cloop_refines / C03_rloop_refines) *)

(* a control instruction inside a for-else branch names the ENCLOSING loops: the inner loop hands
   the signal on, in the interpreter and (now) in the reference semantics alike *)
Theorem C14_break_in_for_else_agrees :
  mout t_break_in_else ctx_new = Some (B "ac"%string, None) /\ rout t_break_in_else ctx_new = (B "ac"%string, SNone).
Proof. exact break_in_for_else_agrees. Qed.
Print Assumptions C14_break_in_for_else_agrees.

(* the depth form: break 2 in the else branch of an inner loop without iterations ends both
   enclosing loops (the outer one at its next iteration check, as with any break 2) *)
Theorem C14_break2_in_for_else_agrees :
  mout t_break2_in_else ctx_new = Some (B "abz!"%string, None) /\ rout t_break2_in_else ctx_new = (B "abz!"%string, SNone).
Proof. exact break2_in_for_else_agrees. Qed.
Print Assumptions C14_break2_in_for_else_agrees.

(* still excluded, with witnesses: a lazybreak directly inside a bound tag at template level; and,
   justifying the invariant's non-negative pending depth, a context with a negative one (which no
   run can build any more: a break takes the maximum with the pending depth) *)

Theorem C14_lazybreak_in_region_at_top_disagrees :
  mout t_lazy_region ctx_new = Some ([], Some ELBreak) /\ rout t_lazy_region ctx_new = (B "A"%string, SLazy).
Proof. exact F2_lazybreak_in_region_at_top. Qed.
Print Assumptions C14_lazybreak_in_region_at_top_disagrees.

Theorem C14_negative_pending_depth_disagrees :
  mbrk t_neg c_neg = Some (0, Some EWrongLoopLim) /\ rbrk t_neg c_neg = (-1, SErr EWrongLoopLim).
Proof. exact F9_negative_pending_depth. Qed.
Print Assumptions C14_negative_pending_depth_disagrees.

(* a later break with a smaller (even negative) depth does not cancel a pending lazybreak 2 *)
Theorem C14_break_keeps_pending_depth :
  mout t_lazy_then_break ctx_new = Some (B "abz"%string, None) /\ rout t_lazy_then_break ctx_new = (B "abz"%string, SNone).
Proof. exact break_keeps_pending_depth. Qed.
Print Assumptions C14_break_keeps_pending_depth.

(* ---- break inside an if-ok block reaches the enclosing loop ---- *)
Theorem C14_break_inside_ifok :
  forall flits lookup budget inc k (ci : condinfo) ki1 ki2 d r1 r2 rest c w,
    cHlp ci = Interp.n_vok -> oIns k = n_static ->
    exists c',
      write_node flits lookup budget inc
        (NCondOK k ci (NBlock BTrue ki1 (NBreak d :: r1) :: NBlock BFalse ki2 (NBreak d :: r2) :: rest)) c w =
      Out c' w (Some EBreak) /\ d <= brkD c'.
Proof. exact break_inside_ifok. Qed.
Print Assumptions C14_break_inside_ifok.

Theorem C14_break_inside_ifok_example :
  mout t_break_in_ifok c_ifok = Some (B "az"%string, None) /\ rout t_break_in_ifok c_ifok = (B "az"%string, SNone).
Proof. exact break_in_ifok_agrees. Qed.
Print Assumptions C14_break_inside_ifok_example.

(* ---- for-else hands control on (Proofs/SpecFacts.v) ---- *)
From DT Require Import Proofs.SpecFacts.

Theorem C14_run_else_hands_on : forall elsef saved e acc o e1 s,
  elsef e = (o, e1, s) -> s <> SNone -> run_else elsef true saved e acc 0 = (acc ++ o, e1, s).
Proof. exact run_else_hands_on. Qed.
Print Assumptions C14_run_else_hands_on.

Theorem C14_cloop_no_trip_hands_on : forall bodyf elsef saved sep var cop step limv fuel e acc cur o e1 s,
  cloop_allows cop cur limv = Some false ->
  elsef (loop_done e 0) = (o, e1, s) -> s <> SNone ->
  cloop_ref bodyf elsef true saved sep var cop step limv fuel e acc 0 cur =
  (acc ++ o, set_ebrk (Z.max (e_brk e1) saved) e1, s).
Proof. exact cloop_no_trip_hands_on. Qed.
Print Assumptions C14_cloop_no_trip_hands_on.

Theorem C14_rloop_no_element_hands_on : forall bodyf elsef saved sep key val e acc o e1 s,
  elsef (loop_done e 0) = (o, e1, s) -> s <> SNone ->
  rloop_ref bodyf elsef true saved sep key val [] e acc 0 0 = (acc ++ o, set_ebrk (Z.max (e_brk e1) saved) e1, s).
Proof. exact rloop_no_element_hands_on. Qed.
Print Assumptions C14_rloop_no_element_hands_on.

(* the loop items *)
Theorem C14_counter_loop_else_signal :
  forall flits rlookup budget rinc var init lim il ll cop step sep body els e v0 limv o e1 s,
    bound_of (set_ebrk 0 e) il init = inl (Some v0) -> bound_of (set_ebrk 0 e) ll lim = inl (Some limv) ->
    cloop_allows cop v0 limv = Some false ->
    top_with (ref_eval flits rlookup budget rinc) els (set_ebrk 0 e) [] = (o, e1, s) -> s <> SNone ->
    ref_eval flits rlookup budget rinc (ACLoop var init lim il ll cop step sep body els true) e =
    (o, set_ebrk (Z.max (e_brk e1) (e_brk e)) e1, s).
Proof. exact counter_loop_else_signal. Qed.
Print Assumptions C14_counter_loop_else_signal.

Theorem C14_range_loop_else_signal :
  forall flits rlookup budget rinc key val src sep body els e k rest o e1 s,
    split_dot src = k :: rest -> env_find k (ev e) = None ->
    top_with (ref_eval flits rlookup budget rinc) els (set_ebrk 0 e) [] = (o, e1, s) -> s <> SNone ->
    ref_eval flits rlookup budget rinc (ARLoop key val src sep body els true) e =
    (o, set_ebrk (Z.max (e_brk e1) (e_brk e)) e1, s).
Proof. exact range_loop_else_signal. Qed.
Print Assumptions C14_range_loop_else_signal.

Example C14_for_else_signal_example :
  ref_eval [] (fun _ => None) 10 (fun _ _ => None)
           (ACLoop (Sb "i"%string) (Sb "0"%string) (Sb "0"%string) true true OpLt OpInc [] [] [AText (Sb "x"%string); ABreak false 2 false no_cond; AText (Sb "y"%string)] true)
           e_loop = (Sb "x"%string, set_ebrk 2 e_loop, SBrk) /\
  ref_eval [] (fun _ => None) 10 (fun _ _ => None)
           (ARLoop [] (Sb "v"%string) (Sb "nothing"%string) [] [] [AExit] true) e_loop = ([], e_loop, SExit) /\
  cloop_allows OpLt 0 0 = Some false.
Proof. exact for_else_signal_example. Qed.
