(* C19 — steady-state rendering performs no heap allocation: the slot/buffer-reuse logic. *)
From Coq Require Import List Arith.
Import ListNotations.
From DT Require Import Model.Alloc Proofs.AllocProofs.

(* for every demand sequence and every initial store: after one run and a Reset, the same run
   takes no growth branch and leaves the capacity unchanged *)
Theorem C19_second_run_no_growth : forall d s,
  let s1 := run d s in
  s_grows (run d (reset s1)) = s_grows s1 /\ s_cap (run d (reset s1)) = s_cap s1.
Proof. exact second_run_no_growth. Qed.
Print Assumptions C19_second_run_no_growth.

Theorem C19_smaller_run_no_growth : forall d d' s,
  (forall n', In n' d' -> exists n, In n d /\ n' <= n) ->
  s_grows (run d' (reset (run d s))) = s_grows (run d s).
Proof. exact smaller_run_no_growth. Qed.
Print Assumptions C19_smaller_run_no_growth.

Example C19_example : s_grows (run [1; 3; 2] (mkStore 0 0 0)) = 2 /\ s_grows (run [1; 3; 2] (reset (run [1; 3; 2] (mkStore 0 0 0)))) = 2.
Proof. split; reflexivity. Qed.
