(* C07 — JSON escaping: a quoted value is a valid JSON string literal that decodes to
   exactly the original bytes, and no active byte survives unescaped.
   This file holds statements only; every proof is an [exact] of a lemma. *)
From DT Require Import Model.Bytes Model.EscURL Model.EscJSON Spec.DecJSON Proofs.JSONProofs.

(* decoding the quoted literal (RFC 8259 section 7) returns the original bytes —
   for every byte string, incl. controls, invalid UTF-8 and the empty string *)
Theorem C07_roundtrip : forall s : bytes, json_unquote (json_quote s) = Some s.
Proof. exact json_roundtrip. Qed.
Print Assumptions C07_roundtrip.

(* the quote modifier: quote byte, one escape pass, quote byte *)
Theorem C07_quote : forall s : bytes, mod_json_quote s = """"%byte :: json_escape s ++ [""""%byte].
Proof. exact json_quote_shape. Qed.
Print Assumptions C07_quote.

(* alphabet: no raw quote, no raw byte below 0x20, every backslash starts a valid escape *)
Theorem C07_no_active_byte : forall s : bytes, json_body_safe (json_escape s) = true.
Proof. exact json_escape_safe. Qed.
Print Assumptions C07_no_active_byte.

(* j repeated n times = n-fold application, decodable n times (quotes put around each layer) *)
Theorem C07_iter : forall (n : nat) (s : bytes), unquote_n n (repeat_app json_escape n s) = Some s.
Proof. exact json_iter_roundtrip. Qed.
Print Assumptions C07_iter.

(* the modifier exactly as rendered (empty input, repeat count) *)
Theorem C07_mod : forall (itr : Z) (s : bytes), (0 <= itr)%Z ->
  unquote_n (Z.to_nat itr) (mod_json_escape itr s) = Some s.
Proof. exact mod_json_roundtrip. Qed.
Print Assumptions C07_mod.

(* every token is the input byte itself or consists of bytes in 0x20..0x7e only:
   escaping never creates a byte >= 0x80 or a control byte *)
Theorem C07_ascii_only_tokens :
  forall b : byte, bytes_eqb (json_tok b) [b] || forallb (in_range 32 126) (json_tok b) = true.
Proof. exact tok_ascii_ok. Qed.
Print Assumptions C07_ascii_only_tokens.

(* non-vacuity: all token shapes, incl. a repaired control (0x1f) and a byte >= 0x80 *)
Example C07_example :
  json_quote ["a"; """"; "\"; x0a; x0c; "<"; x1f; xff]%byte =
  [""""; "a"; "\"; """"; "\"; "\"; "\"; "n"; "\"; "u"; "0"; "0"; "0"; "c"; "\"; "u"; "0"; "0"; "3"; "c";
   "\"; "u"; "0"; "0"; "1"; "f"; xff; """"]%byte.
Proof. reflexivity. Qed.

(* the decoder is not trivial: a surrogate pair combines, a raw control is rejected *)
Example C07_example_decoder :
  json_unquote [""""; "\"; "u"; "D"; "8"; "3"; "d"; "\"; "u"; "d"; "E"; "0"; "0"; """"]%byte
    = Some [xf0; x9f; x98; x80]%byte
  /\ json_unquote [""""; x1f; """"]%byte = None
  /\ json_unquote [""""; """"]%byte = Some [].
Proof. repeat split; reflexivity. Qed.
