(* C09 — URL encoding emits only safe characters and decodes to the original bytes.
   This file holds statements only; every proof is an [exact] of a lemma. *)
From DT Require Import Model.Bytes Model.EscURL Spec.DecURL Proofs.URLProofs.

(* alphabet: letters, digits, - . _ + and %XX with upper-case hex — for every byte string *)
Theorem C09_alphabet : forall s : bytes, url_alphabet (url_encode s) = true.
Proof. exact url_alphabet_ok. Qed.
Print Assumptions C09_alphabet.

(* query-string decoding returns exactly the original bytes — for every byte string, incl. invalid UTF-8 *)
Theorem C09_roundtrip : forall s : bytes, query_unescape (url_encode s) = Some s.
Proof. exact url_roundtrip. Qed.
Print Assumptions C09_roundtrip.

(* u repeated n times (uu, uuu ...) = n-fold application, decodable n times *)
Theorem C09_iter : forall (n : nat) (s : bytes), unescape_n n (repeat_app url_encode n s) = Some s.
Proof. exact url_iter_roundtrip. Qed.
Print Assumptions C09_iter.

Theorem C09_iter_alphabet : forall (n : nat) (s : bytes), url_alphabet (repeat_app url_encode (S n) s) = true.
Proof. exact url_iter_alphabet. Qed.
Print Assumptions C09_iter_alphabet.

(* the modifier exactly as rendered (empty input, repeat count) *)
Theorem C09_mod : forall (itr : Z) (s : bytes), (0 <= itr)%Z ->
  unescape_n (Z.to_nat itr) (mod_url_encode itr s) = Some s.
Proof. exact mod_url_roundtrip. Qed.
Print Assumptions C09_mod.

(* differs from RFC 3986 "unreserved" (what url.QueryEscape passes) at '~' only *)
Theorem C09_agrees_with_stdlib_shape :
  forall b, url_unreserved b = rfc3986_unreserved b && negb (beqb b "~"%byte).
Proof. exact url_unreserved_vs_rfc. Qed.
Print Assumptions C09_agrees_with_stdlib_shape.

(* link escape: no space, no double quote that is not preceded by a backslash *)
Theorem C09_link : forall s : bytes, link_safe false (link_escape s) = true.
Proof. intros s. exact (link_escape_safe s false). Qed.
Print Assumptions C09_link.

(* non-vacuity: a concrete non-trivial input exercises all three token shapes *)
Example C09_example :
  url_encode ["a"; " "; "/"; "~"; xff]%byte = ["a"; "+"; "%"; "2"; "F"; "%"; "7"; "E"; "%"; "F"; "F"]%byte.
Proof. reflexivity. Qed.
