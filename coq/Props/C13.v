(* C13 — rendering never panics or hangs inside dyntpl: error conditions surface as errors. *)
From DT Require Import Model.Bytes Model.Value Model.Tree Model.Mods Model.Interp Proofs.SurfaceFacts.
Local Open Scope Z_scope.

Theorem C13_unknown_node_is_error : forall flits lookup budget inc t c w,
  write_node flits lookup budget inc (NOther t) c w = Out (set_cerr None c) w (Some EUnknownCtl).
Proof. exact unknown_node_is_error. Qed.
Print Assumptions C13_unknown_node_is_error.

Theorem C13_missing_template_is_error : forall flits lookup budget inc names c w,
  lookup names = None -> write_node flits lookup budget inc (NInclude names) c w = Out (set_cerr None c) w (Some ETplNotFound).
Proof. exact missing_template_is_error. Qed.
Print Assumptions C13_missing_template_is_error.

Theorem C13_unknown_helper_is_error : forall flits lookup budget inc ci child c w,
  cHlp ci <> [] -> cLC ci = LcNone -> cond_known (cHlp ci) = false ->
  write_node flits lookup budget inc (NCond ci child) c w = Out (set_cerr None c) w (Some ECondHlpNotFound).
Proof. exact unknown_helper_is_error. Qed.
Print Assumptions C13_unknown_helper_is_error.

Theorem C13_len_without_argument_is_error : forall flits lookup budget inc ci child c w,
  cHlp ci <> [] -> cLC ci <> LcNone -> cHlpArg ci = [] ->
  write_node flits lookup budget inc (NCond ci child) c w = Out (set_cerr None c) w (Some EModNoArgs).
Proof. exact len_without_argument_is_error. Qed.
Print Assumptions C13_len_without_argument_is_error.

Theorem C13_pure_mod_cases : forall bl id v args,
  (exists v', pure_mod bl id v args = POk v') \/ (exists e, pure_mod bl id v args = PErr e) \/ pure_mod bl id v args = PImpure.
Proof. exact pure_mod_cases. Qed.
Print Assumptions C13_pure_mod_cases.
