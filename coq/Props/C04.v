(* C04 — lookups always see the latest registration; Parse returns its own source's tree.
   Model: Model/Registry.v (db.go after the repair of set / getTreeByHash);
   specification: Spec/RegistrySpec.v (registrations = groups of names sharing one template).
   This file holds statements only; every proof is an [exact] of a lemma.

   [inj_on hash U]: the checksum tells apart the sources of the universe U
                    (crc64 is not injective in general — this is a hypothesis, see the refutations).
   [ops_in U ops]:  every source parsed or registered by the history is in U. *)
From DT Require Import Model.Bytes Model.Registry Spec.RegistrySpec Proofs.RegistryProofs.

(* Parse always yields a tree that renders its own source, whatever was parsed, registered
   or replaced before *)
Theorem C04_parse_own_source :
  forall (hash : bytes -> N) (U : list bytes),
    (forall a b, In a U -> In b U -> hash a = hash b -> a = b) ->
    forall (ops : list rop) (src : bytes), ops_in U ops -> In src U ->
    snd (db_step hash (run_db hash db_empty ops) (OParse src)) = ObsSrc src.
Proof. exact parse_own_source. Qed.
Print Assumptions C04_parse_own_source.

(* the hypothesis is satisfiable *)
Example C04_hash_inj_satisfiable :
  forall a b, In a [srcA; srcB] -> In b [srcA; srcB] -> first_byte_hash a = first_byte_hash b -> a = b.
Proof. exact first_byte_hash_inj. Qed.

(* the defect the repair removes: without the `hsum == h` test in getTreeByHash, the history
   register A under k; register B under k; Parse A   observes B *)
Theorem C04_parse_needs_validation_example :
  run_ops_unchecked first_byte_hash db_empty
    [ORegister no_id key_k srcA; ORegister no_id key_k srcB; OParse srcA]
  = [ObsUnit; ObsUnit; ObsSrc srcB].
Proof. exact unchecked_returns_foreign_tree. Qed.
Print Assumptions C04_parse_needs_validation_example.

(* ... and with the test the same history observes A *)
Example C04_parse_validated_example :
  run_ops first_byte_hash db_empty
    [ORegister no_id key_k srcA; ORegister no_id key_k srcB; OParse srcA]
  = [ObsUnit; ObsUnit; ObsSrc srcA].
Proof. exact checked_returns_own_tree. Qed.

(* refinement: EVERY observation (Parse, by key, by id, key with fallback, include name list)
   of EVERY history equals the specification's — no pairing discipline on names is needed *)
Theorem C04_lookup_refines :
  forall (hash : bytes -> N) (U : list bytes),
    (forall a b, In a U -> In b U -> hash a = hash b -> a = b) ->
    forall ops : list rop, ops_in U ops ->
    run_ops hash db_empty ops = spec_run spec_empty ops.
Proof. exact refines. Qed.
Print Assumptions C04_lookup_refines.

(* the same with the weakest universe: the sources of the history itself *)
Theorem C04_lookup_refines_own_sources :
  forall (hash : bytes -> N) (ops : list rop),
    (forall a b, In a (ops_srcs ops) -> In b (ops_srcs ops) -> hash a = hash b -> a = b) ->
    run_ops hash db_empty ops = spec_run spec_empty ops.
Proof. exact refines_own_sources. Qed.
Print Assumptions C04_lookup_refines_own_sources.

(* restricted to the lookup observations *)
Theorem C04_lookup_refines_lookups :
  forall (hash : bytes -> N) (ops : list rop),
    (forall a b, In a (ops_srcs ops) -> In b (ops_srcs ops) -> hash a = hash b -> a = b) ->
    lookup_obs ops (run_ops hash db_empty ops) = lookup_obs ops (spec_run spec_empty ops).
Proof. exact refines_lookups. Qed.
Print Assumptions C04_lookup_refines_lookups.

(* REFUTED: the refinement for an arbitrary checksum, even restricted to lookups — a collision
   makes Parse hand out a foreign tree, which RegisterTpl then stores *)
Definition C04_lookup_refines_full_statement : Prop :=
  forall (hash : bytes -> N) (ops : list rop),
    lookup_obs ops (run_ops hash db_empty ops) = lookup_obs ops (spec_run spec_empty ops).
Theorem C04_lookup_refines_refuted : ~ C04_lookup_refines_full_statement.
Proof. exact refines_any_hash_refuted. Qed.
Print Assumptions C04_lookup_refines_refuted.

Definition C04_parse_own_source_full_statement : Prop :=
  forall (hash : bytes -> N) (ops : list rop) (src : bytes),
    snd (db_step hash (run_db hash db_empty ops) (OParse src)) = ObsSrc src.
Theorem C04_parse_own_source_refuted : ~ C04_parse_own_source_full_statement.
Proof. exact parse_any_hash_refuted. Qed.
Print Assumptions C04_parse_own_source_refuted.

(* a lookup right after a registration sees it, by each name that was given *)
Theorem C04_lookup_after_register :
  forall (hash : bytes -> N) (U : list bytes),
    (forall a b, In a U -> In b U -> hash a = hash b -> a = b) ->
    forall (ops : list rop) (id : Z) (key src : bytes), ops_in U ops -> In src U ->
    let d := fst (db_step hash (run_db hash db_empty ops) (ORegister id key src)) in
    (key_given key = true -> snd (db_step hash d (ORenderKey key)) = ObsSrc src) /\
    (id_given id = true -> snd (db_step hash d (ORenderID id)) = ObsSrc src).
Proof. exact lookup_after_register. Qed.
Print Assumptions C04_lookup_after_register.

(* a lookup of a name never registered observes not-found and leaves the registry unchanged
   (any checksum; "-1" and negative ids count as never registered) *)
Theorem C04_not_found_is_silent :
  forall (hash : bytes -> N) (ops : list rop),
    let d := run_db hash db_empty ops in
    (forall k, registers_key k ops = false ->
       db_step hash d (ORenderKey k) = (d, ObsNotFound)) /\
    (forall i, registers_id i ops = false ->
       db_step hash d (ORenderID i) = (d, ObsNotFound)) /\
    (forall k fb, registers_key k ops = false -> registers_key fb ops = false ->
       db_step hash d (ORenderFallback k fb) = (d, ObsNotFound)) /\
    (forall names, forallb (fun k => negb (registers_key k ops)) names = true ->
       db_step hash d (OInclude names) = (d, ObsNotFound)).
Proof. exact not_found_silent. Qed.
Print Assumptions C04_not_found_is_silent.

(* the representation invariant holds for every reachable registry:
   registration i is slot i and renders the same source; a name is bound to slot i exactly when
   registration i owns it; all index entries (also the hash index) are in range; "-1" and
   negative ids are never indexed; every stored tree carries the checksum of its own source *)
Theorem C04_inv :
  forall (hash : bytes -> N) (U : list bytes),
    (forall a b, In a U -> In b U -> hash a = hash b -> a = b) ->
    forall ops : list rop, ops_in U ops ->
    rep hash U (run_db hash db_empty ops) (spec_state spec_empty ops).
Proof. exact reachable_rep. Qed.
Print Assumptions C04_inv.

(* the part of the invariant that does not depend on the checksum holds for any checksum *)
Theorem C04_inv_struct :
  forall (hash : bytes -> N) (ops : list rop), db_wf (run_db hash db_empty ops).
Proof. exact reachable_wf. Qed.
Print Assumptions C04_inv_struct.

Theorem C04_inv_in_range :
  forall hash U d gs, rep hash U d gs ->
    (forall k i, assoc bytes_eqb k (idxKey d) = Some i -> i < length (slots d)) /\
    (forall j i, assoc Z.eqb j (idxID d) = Some i -> i < length (slots d)) /\
    (forall h i, assoc N.eqb h (idxHash d) = Some i -> i < length (slots d)).
Proof. exact rep_in_range. Qed.
Print Assumptions C04_inv_in_range.

(* NOT an invariant: "the hash index never points to a slot holding a different checksum".
   A -> B on one key leaves A's checksum pointing at the slot that now holds B. *)
Example C04_stale_hash_entry :
  let d := run_db first_byte_hash db_empty [ORegister no_id key_k srcA; ORegister no_id key_k srcB] in
  assoc N.eqb (first_byte_hash srcA) (idxHash d) = Some 0 /\
  option_map (fun p => t_src (p_tree p)) (nth_error (slots d) 0) = Some srcB.
Proof. exact stale_hash_entry_exists. Qed.

(* names registered together are names of one registration: the reading "a name renders the last
   source registered under that very name" is refuted by RegisterTpl(1,k,A); RegisterTplID(1,B) *)
Example C04_naive_two_maps_refuted :
  let ops := [ORegister 1 key_k srcA; ORegister 1 no_key srcB] in
  snd (db_step first_byte_hash (run_db first_byte_hash db_empty ops) (ORenderKey key_k)) = ObsSrc srcB /\
  snd (spec_step (spec_state spec_empty ops) (ORenderKey key_k)) = ObsSrc srcB /\
  naive_last_key key_k ops ObsNotFound = ObsSrc srcA.
Proof. exact naive_two_maps_refuted. Qed.

(* non-vacuity: replace-and-restore A -> B -> A on one key; one source under two names; by id
   alone after a paired registration; re-pairing that leaves an orphan slot *)
Example C04_example_histories :
  let ops :=
    [ORegister no_id key_k srcA; ORenderKey key_k;
     ORegister no_id key_k srcB; ORenderKey key_k; OParse srcA;
     ORegister no_id key_k srcA; ORenderKey key_k; OParse srcB;
     ORegister no_id key_j srcA; ORegister no_id key_j srcB; OParse srcA; ORenderKey key_k; ORenderKey key_j;
     ORegister 1 key_k srcB; ORegister 1 no_key srcA; ORenderKey key_k; ORenderID 1;
     ORegister 1 key_j srcB; ORenderKey key_k; ORenderKey key_j; ORenderID 1;
     ORenderFallback [x00] key_j; OInclude [[x00]; key_k]; ORenderID 7; ORenderKey no_key] in
  run_ops first_byte_hash db_empty ops = spec_run spec_empty ops /\
  run_ops first_byte_hash db_empty ops =
    [ObsUnit; ObsSrc srcA;
     ObsUnit; ObsSrc srcB; ObsSrc srcA;
     ObsUnit; ObsSrc srcA; ObsSrc srcB;
     ObsUnit; ObsUnit; ObsSrc srcA; ObsSrc srcA; ObsSrc srcB;
     ObsUnit; ObsUnit; ObsSrc srcA; ObsSrc srcA;
     ObsUnit; ObsSrc srcA; ObsSrc srcB; ObsSrc srcB;
     ObsSrc srcB; ObsSrc srcA; ObsNotFound; ObsNotFound].
Proof. vm_compute. split; reflexivity. Qed.
