(* C15 — a variable always reads back its most recent assignment. *)
From DT Require Import Model.Bytes Model.Value Model.Tree Model.Interp Proofs.InterpFacts.

(* after any setter the name is found, and its slot is the setter's image of the old slot (or the
   fresh slot when the name was new): whatever representation the name held before *)
Theorem C15_find_after_put : forall k f fresh c,
  (forall s, s_key (f s) = s_key s) -> s_key fresh = k ->
  exists s', find_var k (vars (put_slot k f fresh c)) = Some s' /\
             (s' = fresh \/ exists s, find_var k (vars c) = Some s /\ s' = f s).
Proof. exact find_var_put. Qed.
Print Assumptions C15_find_after_put.
