(* C15 — a variable always reads back its most recent assignment. *)
From DT Require Import Model.Bytes Model.Value Model.Tree Model.Interp Proofs.InterpFacts.

(* after any setter the name is found, and its slot is the setter's image of the old slot (or the
   fresh slot when the name was new): whatever representation the name held before *)
Theorem C15_find_after_put : forall k f fresh c,
  (forall s, s_key (f s) = s_key s) -> s_key fresh = k ->
  exists s', find_var k (vars (put_slot k f fresh c)) = Some s' /\
             (s' = fresh \/ exists s, find_var k (vars c) = Some s /\ s' = f s).
Proof. exact find_var_put. Qed.
Print Assumptions C15_find_after_put.

(* ---- refinement of the reference semantics: assignments (Proofs/RefineBase.v, RefineNodes.v) ---- *)
From Coq Require Import String.
From DT Require Import Model.Mods Spec.Ast Spec.RefEval Spec.Compile Proofs.FlatProofs Proofs.RefineBase
  Proofs.RefineList Proofs.RefineNodes Proofs.RefineFindings.
Local Open Scope Z_scope.

(* every setter, seen through the abstraction, is the reference assignment: the entry of the name
   is replaced in place (or appended), whatever representation was live before *)
Theorem C15_set_is_env_set : forall k v st c,
  abs (ctx_set k v st c) = env_set k (deref (bufLC c) v) st (abs c).
Proof. exact abs_ctx_set. Qed.
Print Assumptions C15_set_is_env_set.

Theorem C15_set_bytes_is_env_set : forall k b c,
  b <> [] -> abs (ctx_set_bytes k b c) = env_set k (VBytes b) true (abs c).
Proof. exact abs_ctx_set_bytes. Qed.
Print Assumptions C15_set_bytes_is_env_set.

Theorem C15_set_counter_is_env_set : forall k n c,
  abs (ctx_set_counter k n c) = env_set k (VInt n) true (abs c).
Proof. exact abs_ctx_set_counter. Qed.
Print Assumptions C15_set_counter_is_env_set.

(* {% ctx var = src|mods... %} and {% ctx var = "lit" %} *)
Theorem C15_ctx_refines :
  forall flits lookup budget inc rlookup rinc L var src ok (lit : bool) mods,
    (lit = true -> src <> []) ->
    node_ref flits lookup budget inc rlookup rinc L
      (NCtx var src ok b_static lit (if lit then [] else map c_mod mods)) (ACtx var src ok lit mods).
Proof. exact ctx_ref. Qed.
Print Assumptions C15_ctx_refines.

(* {% counter var = n %}, {% counter var++ %}, {% counter var+n %} ... *)
Theorem C15_counter_refines :
  forall flits lookup budget inc rlookup rinc L var (is_init : bool) cop arg,
    node_ref flits lookup budget inc rlookup rinc L
      (NCounter var is_init (if is_init then arg else 0) (if is_init then OpUnk else cop) (if is_init then 0 else arg))
      (ACounter var is_init cop arg).
Proof. exact counter_ref. Qed.
Print Assumptions C15_counter_refines.

(* a ctx node never stores a counter cell: every slot that holds one afterwards held it before *)
Theorem C15_ctx_node_no_new_cell :
  forall flits lookup budget inc var src ok ins st mods c w c' w' e,
    write_node flits lookup budget inc (NCtx var src ok ins st mods) c w = Out c' w' e ->
    forall s' j, In s' (vars c') -> s_val s' = VCell j -> In s' (vars c).
Proof. exact ctx_node_no_new_cell. Qed.
Print Assumptions C15_ctx_node_no_new_cell.

(* {% ctx x = i %} with i the live counter of a loop: x becomes a counter variable holding a copy
   of the number (it no longer follows the counter), and no slot gains a cell *)
Theorem C15_ctx_copies_loop_cell :
  forall flits lookup budget inc var src ins c w i,
    ctx_get (set_cerr None c) src = (set_cerr None c, VCell i) ->
    exists c' s,
      write_node flits lookup budget inc (NCtx var src [] ins false []) c w = Out c' w None /\
      find_var var (vars c') = Some s /\
      s_val s = VNil /\ s_buf s = [] /\ s_cntrF s = true /\ s_cntr s = nth i (bufLC c) 0 /\
      var_value s [] = VInt (nth i (bufLC c) 0) /\
      forall s' j, In s' (vars c') -> s_val s' = VCell j -> In s' (vars c).
Proof. exact ctx_copies_loop_cell. Qed.
Print Assumptions C15_ctx_copies_loop_cell.

(* end to end: assigned in each iteration, printed after the loop, the variable has the value of
   the last iteration on both sides (it used to follow the counter to its final value) *)
Theorem C15_ctx_copies_loop_counter_example :
  mout t_alias ctx_new = Some (B "2"%string, None) /\ rout t_alias ctx_new = (B "2"%string, SNone) /\
  mvar t_alias ctx_new "x" = Some (mkEntry (VInt 2) true) /\ rvar t_alias ctx_new "x" = Some (mkEntry (VInt 2) true).
Proof. exact ctx_copies_loop_counter. Qed.
Print Assumptions C15_ctx_copies_loop_counter_example.

(* still excluded, with a witness: an empty literal leaves the variable nil *)
Theorem C15_empty_literal_disagrees :
  mout t_empty_lit ctx_new = Some (B "N"%string, None) /\ rout t_empty_lit ctx_new = (B "Y"%string, SNone).
Proof. exact F6_empty_literal_assignment. Qed.
Print Assumptions C15_empty_literal_disagrees.

(* ---- the ok flag of a ctx assignment ---- *)

(* a non-literal assignment with an ok variable whose source and modifier chain evaluate: the ok
   variable receives "the value is not void" (not nil, not an empty string / byte value); when the
   value is void nothing else is assigned: every other variable, the target included, is untouched *)
Theorem C15_ok_flag_iff_nonempty :
  forall flits lookup budget inc var src ok ins mods c w c1 v c2 v2,
    ok <> [] ->
    ctx_get (set_cerr None c) src = (c1, v) -> cerr c1 = None ->
    run_mods (w_n w) c1 mods v = ChOk c2 v2 -> cerr c2 = None ->
    exists c',
      write_node flits lookup budget inc (NCtx var src ok ins false mods) c w = Out c' w None /\
      (var <> ok \/ is_void v2 = true ->
       exists s, find_var ok (vars c') = Some s /\ s_val s = VBool (negb (is_void v2)) /\ s_static s = true /\
                 var_value s [] = VBool (negb (is_void v2))) /\
      (is_void v2 = true -> forall k, k <> ok -> find_var k (vars c') = find_var k (vars c)).
Proof. exact ctx_ok_flag. Qed.
Print Assumptions C15_ok_flag_iff_nonempty.

(* the reference side: the same two assignments *)
Theorem C15_ref_ok_flag : forall flits rlookup budget rinc var src ok mods e v v2,
  env_get e src = Some v -> apply_mods e mods v = ChV v2 ->
  ref_eval flits rlookup budget rinc (ACtx var src ok false mods) e =
  (let e1 := match ok with [] => e | _ :: _ => env_set ok (VBool (negb (is_void v2))) true e end in
   ([], if is_void v2 then e1 else env_set var v2 true e1, SNone)).
Proof. exact ref_ctx_ok_flag. Qed.
Print Assumptions C15_ref_ok_flag.

From DT Require Import Proofs.RefineMain.
Example C15_void_source_example :
  forallb (wf_supported true) t_void_source = true /\
  mout t_void_source c_void = Some (B "prefalse"%string, None) /\ rout t_void_source c_void = (B "prefalse"%string, SNone).
Proof. exact void_source_assigns_nothing. Qed.

(* ---- counter steps on any integer, in the reference semantics (Proofs/SpecFacts.v) ---- *)
From DT Require Import Proofs.SpecFacts.

Theorem C15_counter_init : forall flits rlookup budget rinc var cop arg e,
  ref_eval flits rlookup budget rinc (ACounter var true cop arg) e = ([], env_set var (VInt arg) true e, SNone).
Proof. exact counter_init. Qed.
Print Assumptions C15_counter_init.

(* whatever produced the integer n (a counter tag, a setter, a loop counter ...) *)
Theorem C15_counter_step : forall flits rlookup budget rinc var cop arg e v n,
  env_get e var = Some v -> conv_int [] v = Some n ->
  ref_eval flits rlookup budget rinc (ACounter var false cop arg) e =
  ([], env_set var (VInt (match cop with OpInc => n + arg | _ => n - arg end)) true e, SNone).
Proof. exact counter_step. Qed.
Print Assumptions C15_counter_step.

(* and the name reads back what was assigned *)
Theorem C15_env_set_reads_back : forall k v st e, env_find k (ev (env_set k v st e)) = Some (mkEntry v st).
Proof. exact env_find_env_set. Qed.
Print Assumptions C15_env_set_reads_back.

Example C15_counter_example :
  let re := ref_eval [] (fun _ => None) 10 (fun _ _ => None) in
  let '(_, e1, _) := re (ACounter (Sb "k"%string) true OpUnk 7) e_loop in
  let '(_, e2, _) := re (ACounter (Sb "k"%string) false OpInc 2) e1 in
  let '(_, e3, _) := re (ACounter (Sb "n"%string) false OpInc 1) e2 in
  let '(_, e4, _) := re (ACounter (Sb "n"%string) false OpDec 3) e3 in
  env_find (Sb "k"%string) (ev e4) = Some (mkEntry (VInt 9) true) /\ env_find (Sb "n"%string) (ev e4) = Some (mkEntry (VInt 3) true).
Proof. exact counter_example. Qed.
