(* C06 — concurrent renders and re-registrations are safe and atomic: the protocol level.
   The two assumptions that make the steps of Model/Sched.v atomic and the tree immutable are
   re-checked from /repo's source on every run (Gen/SrcFactsCheck.v: db_methods_locked,
   render_path_readonly); data-race freedom itself is the Go runtime's and is sampled with -race. *)
From Coq Require Import List.
Import ListNotations.
From DT Require Import Model.Sched Proofs.SchedProofs.

(* in EVERY interleaving a render returns exactly the version that was current at its own lookup,
   whatever happens between its lookup and its end (also re-registrations of its own name) *)
Theorem C06_render_is_some_version : forall pre mid t n,
  (forall m, ~ In (Lookup t m) mid) ->
  In (t, last_set n pre None) (done (exec (pre ++ Lookup t n :: mid ++ [Finish t]) g0)).
Proof. exact render_is_version_at_lookup. Qed.
Print Assumptions C06_render_is_some_version.

(* after a re-registration has returned, every later lookup sees it (until the next one) *)
Theorem C06_new_version_after_set : forall pre mid n v,
  (forall v', ~ In (Set_ n v') mid) -> last_set n (pre ++ Set_ n v :: mid) None = Some v.
Proof. exact lookup_after_set_sees_it. Qed.
Print Assumptions C06_new_version_after_set.

(* what a lookup returns was published for that very name: never a mixture, never another name's *)
Theorem C06_result_was_published : forall sched n acc v,
  last_set n sched acc = Some v -> acc = Some v \/ In (Set_ n v) sched.
Proof. exact result_was_published. Qed.
Print Assumptions C06_result_was_published.

Example C06_example :
  done (exec [Set_ 0 1; Lookup 7 0; Set_ 0 2; Work 7; Lookup 8 0; Finish 7; Finish 8] g0) = [(8, Some 2); (7, Some 1)].
Proof. reflexivity. Qed.
