(* C18 — deferred functions and pooled objects are settled exactly once. *)
From DT Require Import Model.Bytes Model.Value Model.Tree Model.Interp Proofs.StateFacts.

(* running the deferred list: every registered function runs exactly once, in registration order,
   stamped with the number of writes made so far; afterwards the list is empty *)
Theorem C18_deferred_once_in_order : forall c n,
  elog (run_deferred c n) = rev (map (fun t => EvRun t n) (dfr c)) ++ elog c /\ dfr (run_deferred c n) = [].
Proof. exact run_deferred_spec. Qed.
Print Assumptions C18_deferred_once_in_order.

(* Reset: one release per pooled object held, in acquisition order; nothing stays held *)
Theorem C18_pool_released_at_reset : forall c,
  ctx_reset c = mkCtx [] false false false false [] 0%Z None false [] [] 0 (rev (map EvRelease (ipv c)) ++ elog c).
Proof. exact reset_state. Qed.
Print Assumptions C18_pool_released_at_reset.
