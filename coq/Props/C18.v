(* C18 — deferred functions and pooled objects are settled exactly once. *)
From DT Require Import Model.Bytes Model.Value Model.Tree Model.Interp Proofs.StateFacts.

(* running the deferred list: every registered function runs exactly once, in registration order,
   stamped with the number of writes made so far; afterwards the list is empty *)
Theorem C18_deferred_once_in_order : forall c n,
  elog (run_deferred c n) = rev (map (fun t => EvRun t n) (dfr c)) ++ elog c /\ dfr (run_deferred c n) = [].
Proof. exact run_deferred_spec. Qed.
Print Assumptions C18_deferred_once_in_order.

(* Reset: one release per pooled object held, in acquisition order; nothing stays held *)
Theorem C18_pool_released_at_reset : forall c,
  ctx_reset c = mkCtx [] false false false false [] 0%Z None false [] [] 0 (rev (map EvRelease (ipv c)) ++ elog c).
Proof. exact reset_state. Qed.
Print Assumptions C18_pool_released_at_reset.

(* ---- over whole renders and histories (Proofs/HistoryProofs.v) ---- *)
From Coq Require Import String.
From DT Require Import Model.Mods Model.VCase Proofs.HistoryProofs.

(* an included template (include depth > 0 on entry) never runs deferred functions: the include
   depth is restored, the log gains no EvRun, the deferred list only grows -- by exactly the
   EvDefer events logged -- and so do the pooled objects *)
Theorem C18_deferred_run_at_depth_zero_only : forall flits lookup budget depth t c c' o e,
  (0 < wd c)%nat -> render_inc flits lookup budget depth t c = Some (c', o, e) ->
  wd c' = wd c /\
  exists evs, elog c' = evs ++ elog c /\ no_run evs /\
              dfr c' = dfr c ++ defers evs /\ ipv c' = ipv c ++ acquires evs.
Proof. exact included_never_runs_deferred. Qed.
Print Assumptions C18_deferred_run_at_depth_zero_only.

(* the same for write() itself, for any include renderer with that property *)
Theorem C18_inner_write_never_runs_deferred : forall flits lookup budget inc,
  (forall t c c' o e, inc t c = Some (c', o, e) -> FrameIn c c') ->
  forall t c w c' w' e,
    (0 < wd c)%nat -> write_tpl flits lookup budget inc t c w = Out c' w' e -> Frame c c'.
Proof. exact write_tpl_inner. Qed.
Print Assumptions C18_inner_write_never_runs_deferred.

(* the outermost render: on success every deferred function -- pending from before or registered
   during the render at any include depth ([defers evs]: the EvDefer events, in order) -- runs
   exactly once, in registration order, after the last node (stamped with the number of writes),
   and the list is empty afterwards; on an error none runs and all stay registered *)
Theorem C18_deferred_each_once : forall flits lookup budget depth t c w c' w' e,
  wd c = O -> render flits lookup budget depth t c w = Out c' w' e ->
  exists evs, no_run evs /\ wd c' = O /\ ipv c' = ipv c ++ acquires evs /\
    match e with
    | None => elog c' = rev (map (fun t => EvRun t (w_n w')) (dfr c ++ defers evs)) ++ evs ++ elog c /\ dfr c' = []
    | Some _ => elog c' = evs ++ elog c /\ dfr c' = dfr c ++ defers evs
    end.
Proof. exact render_deferred. Qed.
Print Assumptions C18_deferred_each_once.

(* between two resets the context holds exactly the pooled objects its renders acquired ... *)
Theorem C18_pools_held_between_resets : forall hc steps c c',
  forallb (fun s => negb (is_reset s)) steps = true -> wd c = O ->
  final_ctx hc steps c = Some c' ->
  ipv c' = ipv c ++ hist_pools hc steps c /\ wd c' = O.
Proof. exact pools_held. Qed.
Print Assumptions C18_pools_held_between_resets.

(* ... and the reset that ends the segment gives each of them back exactly once, in acquisition
   order, and nothing else; afterwards nothing is held *)
Theorem C18_reset_releases_each_once : forall hc mid c',
  forallb (fun s => negb (is_reset s)) mid = true ->
  final_ctx hc mid ctx_new = Some c' ->
  rev (elog (ctx_reset (clear_log c'))) = map EvRelease (hist_pools hc mid ctx_new) /\
  ipv (ctx_reset (clear_log c')) = [].
Proof. exact acquired_released_at_reset. Qed.
Print Assumptions C18_reset_releases_each_once.

Example C18_bookkeeping_example :
  check_history hc_ex steps_bk ctx_new = [HOk; HOk; HOk; HOk] /\
  hist_pools hc_ex (firstn 2 steps_bk) ctx_new = [Bs "p1"].
Proof. exact history_bookkeeping_example. Qed.

(* ---- renders through a failing writer (HRenderF steps) ----
   C18_pools_held_between_resets and C18_reset_releases_each_once quantify over histories that
   contain faulted renders too: pooled objects acquired by a render that failed are held, and the
   next Reset gives each back exactly once.  What is specific to a failed render: *)

(* the writer fails during a render: the writer error is returned, NO deferred function runs, the
   functions registered so far stay pending, what was acquired stays held *)
Theorem C18_faulted_render_keeps_deferred : forall flits lookup budget depth t c w c' w' e,
  wd c = O -> w_failed w = false ->
  render flits lookup budget depth t c w = Out c' w' e -> w_failed w' = true ->
  e = Some EWriter /\
  exists evs, no_run evs /\ elog c' = evs ++ elog c /\ dfr c' = dfr c ++ defers evs /\
              ipv c' = ipv c ++ acquires evs /\ wd c' = O.
Proof. exact faulted_render_keeps_deferred. Qed.
Print Assumptions C18_faulted_render_keeps_deferred.

(* any error of the outermost render: nothing deferred runs *)
Theorem C18_failed_render_runs_no_deferred : forall flits lookup budget depth t c w c' w' x,
  wd c = O -> render flits lookup budget depth t c w = Out c' w' (Some x) ->
  exists evs, no_run evs /\ elog c' = evs ++ elog c /\ dfr c' = dfr c ++ defers evs /\ ipv c' = ipv c ++ acquires evs.
Proof. exact failed_render_runs_no_deferred. Qed.
Print Assumptions C18_failed_render_runs_no_deferred.

(* the next Reset drops the pending functions without running them (the log gains releases only)
   and gives every pooled object back exactly once *)
Theorem C18_reset_drops_pending_deferred : forall c,
  dfr (ctx_reset (clear_log c)) = [] /\ ipv (ctx_reset (clear_log c)) = [] /\
  rev (elog (ctx_reset (clear_log c))) = map EvRelease (ipv c) /\
  clear_log (ctx_reset (clear_log c)) = ctx_new.
Proof. exact reset_after_failed_render. Qed.
Print Assumptions C18_reset_drops_pending_deferred.

Example C18_history_fault_example :
  check_history hc_ex steps_fault ctx_new = [HOk; HOk; HOk; HOk; HOk] /\
  (match final_ctx hc_ex (firstn 2 steps_fault) ctx_new with
   | Some c => dfr c = [Bs "d1"%string] /\ ipv c = [Bs "p1"%string] /\
               forallb (fun ev => match ev with EvRun _ _ => false | _ => true end) (elog c) = true
   | None => False
   end) /\
  hist_pools hc_ex (firstn 2 steps_fault) ctx_new = [Bs "p1"%string] /\
  final_ctx hc_ex (firstn 3 steps_fault) ctx_new = Some ctx_new.
Proof. exact history_fault_example. Qed.
