(* C16 — include behaves like inlining; exit stops its template immediately. *)
From DT Require Import Model.Bytes Model.Value Model.Tree Model.Interp Proofs.InterpFacts.

(* exit: nothing after it is evaluated, the template reports success with exactly the output
   produced before it — for every prefix and suffix of the template *)
Theorem C16_exit_is_success : forall flits lookup budget inc pre post c w c1 w1,
  run_nodes flits lookup budget inc pre (set_wd (S (wd c)) c) w = Out c1 w1 None ->
  exists c2, write_tpl flits lookup budget inc (pre ++ NExit :: post) c w = Out c2 w1 None.
Proof. exact exit_is_success. Qed.
Print Assumptions C16_exit_is_success.

(* ---- refinement of the reference semantics: include, exit, whole renders
        (Proofs/RefineNodes.v, RefineRender.v) ---- *)
From DT Require Import Model.Mods Spec.Ast Spec.RefEval Spec.Compile Proofs.FlatProofs Proofs.RefineBase
  Proofs.RefineList Proofs.RefineNodes Proofs.RefineMain Proofs.RefineRender.

(* include: the first registered name, rendered in place on the including template's variables
   and escape region; template-not-found otherwise *)
Theorem C16_include_refines :
  forall flits lookup budget inc rlookup rinc L names,
    lookup_ok lookup rlookup -> inc_ok inc rlookup rinc L ->
    node_ref flits lookup budget inc rlookup rinc L (NInclude names) (AInclude names).
Proof. exact include_ref. Qed.
Print Assumptions C16_include_refines.

Theorem C16_exit_refines :
  forall flits lookup budget inc rlookup rinc L,
    node_ref flits lookup budget inc rlookup rinc L NExit AExit.
Proof. exact exit_ref. Qed.
Print Assumptions C16_exit_refines.

(* the include hypothesis holds for the model's own renderer against the reference one, at every
   include depth: included templates are evaluated in place *)
Theorem C16_include_is_inlining :
  forall flits lookup budget rlookup,
    lookup_ok lookup rlookup ->
    (forall names t, rlookup names = Some t -> forallb (wf_supported true) t = true) ->
    forall depth L,
      inc_ok (render_inc flits lookup budget depth) rlookup (ref_inc flits rlookup budget depth) L.
Proof. exact inc_ok_depth. Qed.
Print Assumptions C16_include_is_inlining.

(* Write(w, key, ctx): the whole render agrees with the reference render; exit (also inside an
   included template) ends the template it stands in, successfully *)
Theorem C16_render_refines :
  forall flits lookup budget rlookup,
    lookup_ok lookup rlookup ->
    (forall names t, rlookup names = Some t -> forallb (wf_supported true) t = true) ->
    forall depth items c w,
      forallb (wf_supported true) items = true -> Inv [] c -> w_fail w = None ->
      forall o e1 s,
        ref_items flits rlookup budget (ref_inc flits rlookup budget depth) items (abs c) = (o, e1, s) -> sig_dom s ->
      exists c' w',
        render flits lookup budget depth (compile_tpl items) c w = Out c' w' (ref_err s) /\
        wr_bytes w' = wr_bytes w ++ o /\ w_fail w' = None /\ post [] s c' e1.
Proof. exact render_refines. Qed.
Print Assumptions C16_render_refines.

(* ---- exit inside an if-ok block ---- *)
From Coq Require Import String.
From DT Require Import Proofs.RefineFindings.
Theorem C16_exit_inside_ifok :
  forall flits lookup budget inc k (ci : condinfo) ki1 ki2 r1 r2 rest c w,
    cHlp ci = Interp.n_vok -> oIns k = n_static ->
    exists c',
      write_node flits lookup budget inc
        (NCondOK k ci (NBlock BTrue ki1 (NExit :: r1) :: NBlock BFalse ki2 (NExit :: r2) :: rest)) c w =
      Out c' w (Some EInterrupt).
Proof. exact exit_inside_ifok. Qed.
Print Assumptions C16_exit_inside_ifok.

Theorem C16_exit_inside_ifok_example :
  mout t_exit_in_ifok c_ifok = Some (B "bob"%string, Some EInterrupt) /\ rout t_exit_in_ifok c_ifok = (B "bob"%string, SExit).
Proof. exact exit_in_ifok_agrees. Qed.
Print Assumptions C16_exit_inside_ifok_example.

(* ---- include depth and budget are only termination devices (Proofs/FuelProofs.v) ---- *)
From DT Require Import Proofs.FuelProofs.

(* the include renderer answers at least as often with more depth and more budget, with the same
   answers *)
Theorem C16_render_inc_monotone : forall flits lookup d d' b b',
  (b <= b')%nat -> (d <= d')%nat ->
  inc_le (render_inc flits lookup b d) (render_inc flits lookup b' d').
Proof. exact render_inc_le. Qed.
Print Assumptions C16_render_inc_monotone.

(* Write(): an Out result at include depth d (and budget b) is the result at every larger depth
   (and budget) *)
Theorem C16_depth_monotone : forall flits lookup b b' d d' t c w c' w' e,
  (b <= b')%nat -> (d <= d')%nat ->
  render flits lookup b d t c w = Out c' w' e -> render flits lookup b' d' t c w = Out c' w' e.
Proof. exact render_monotone. Qed.
Print Assumptions C16_depth_monotone.

(* (the budget through includes: the same theorem with d = d') *)
Theorem C16_render_budget_monotone : forall flits lookup b b' d t c w c' w' e,
  (b <= b')%nat ->
  render flits lookup b d t c w = Out c' w' e -> render flits lookup b' d t c w = Out c' w' e.
Proof. exact render_budget_monotone. Qed.
Print Assumptions C16_render_budget_monotone.

(* the reference side *)
Theorem C16_ref_inc_monotone : forall flits rlookup d d' b b',
  (b <= b')%nat -> (d <= d')%nat ->
  rinc_le (ref_inc flits rlookup b d) (ref_inc flits rlookup b' d').
Proof. exact ref_inc_le. Qed.
Print Assumptions C16_ref_inc_monotone.

Theorem C16_ref_render_monotone : forall flits rlookup b b' d d' t e o e1 eo,
  (b <= b')%nat -> (d <= d')%nat ->
  ref_render flits rlookup b d t e = (o, e1, eo, true) -> ref_render flits rlookup b' d' t e = (o, e1, eo, true).
Proof. exact ref_render_monotone. Qed.
Print Assumptions C16_ref_render_monotone.

(* whole renders: if the reference render answers at (budget b, depth d), Write() answers Out at
   every (b', d') above, and agrees *)
Theorem C16_render_refines_any_larger_fuel : forall flits lookup rlookup,
  lookup_ok lookup rlookup ->
  (forall names t, rlookup names = Some t -> forallb (wf_supported true) t = true) ->
  forall b b' d d' items c w, (b <= b')%nat -> (d <= d')%nat ->
  forallb (wf_supported true) items = true -> Inv [] c -> w_fail w = None ->
  forall o e1 s, ref_items flits rlookup b (ref_inc flits rlookup b d) items (abs c) = (o, e1, s) -> sig_dom s ->
  exists c' w', render flits lookup b' d' (compile_tpl items) c w = Out c' w' (ref_err s) /\
                wr_bytes w' = wr_bytes w ++ o /\ w_fail w' = None /\ post [] s c' e1.
Proof. exact render_refines_any_larger_fuel. Qed.
Print Assumptions C16_render_refines_any_larger_fuel.
