(* C16 — include behaves like inlining; exit stops its template immediately. *)
From DT Require Import Model.Bytes Model.Value Model.Tree Model.Interp Proofs.InterpFacts.

(* exit: nothing after it is evaluated, the template reports success with exactly the output
   produced before it — for every prefix and suffix of the template *)
Theorem C16_exit_is_success : forall flits lookup budget inc pre post c w c1 w1,
  run_nodes flits lookup budget inc pre (set_wd (S (wd c)) c) w = Out c1 w1 None ->
  exists c2, write_tpl flits lookup budget inc (pre ++ NExit :: post) c w = Out c2 w1 None.
Proof. exact exit_is_success. Qed.
Print Assumptions C16_exit_is_success.
