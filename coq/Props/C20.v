(* C20 — the rounding modifiers (round, ceil, floor, roundPrec, ceilPrec, floorPrec).
   This file holds statements only; every proof is an [exact] of a lemma of Proofs/RoundProofs.v.
   Floats are Flocq's binary64 (BinarySingleNaN.binary_float 53 1024); B2R is the exact real
   value of a float.  Print Assumptions lists the axioms of Coq's standard library of real
   numbers that Flocq depends on (classical Dedekind reals, functional extensionality);
   the development declares none. *)
From Coq Require Import ZArith Reals.
From Flocq Require Import Core.Core IEEE754.BinarySingleNaN.
From DT Require Import Model.Round Spec.RoundSpec Proofs.RoundProofs.

(* ---- integer modes: the result is EXACTLY the integer floor / ceil / round / trunc
        of the real value of the input, for every finite float64 ---- *)
Theorem C20_floor_exact : forall x : f64, is_finite x = true ->
  B2R (go_floor x) = IZR (Zfloor (B2R x)).
Proof. exact floor_exact. Qed.
Print Assumptions C20_floor_exact.

Theorem C20_ceil_exact : forall x : f64, is_finite x = true ->
  B2R (go_ceil x) = IZR (Zceil (B2R x)).
Proof. exact ceil_exact. Qed.
Print Assumptions C20_ceil_exact.

Theorem C20_trunc_exact : forall x : f64, is_finite x = true ->
  B2R (go_trunc x) = IZR (Ztrunc (B2R x)).
Proof. exact trunc_exact. Qed.
Print Assumptions C20_trunc_exact.

(* round: half away from zero, i.e. floor (r + 1/2) for r >= 0 and ceil (r - 1/2) for r < 0 *)
Theorem C20_round_exact : forall x : f64, is_finite x = true ->
  B2R (go_round x) = IZR (round_half_away (B2R x)).
Proof. exact round_exact. Qed.
Print Assumptions C20_round_exact.

(* the same with Flocq's own nearest-ties-away, and the two agree on every real *)
Theorem C20_round_exact_ZnearestA : forall x : f64, is_finite x = true ->
  B2R (go_round x) = IZR (ZnearestA (B2R x)).
Proof. exact round_exact_ZnearestA. Qed.
Print Assumptions C20_round_exact_ZnearestA.

Theorem C20_half_away_is_ZnearestA : forall r : R, ZnearestA r = round_half_away r.
Proof. exact ZnearestA_half_away. Qed.
Print Assumptions C20_half_away_is_ZnearestA.

(* the modifiers as dispatched by roundHelper: the argument is ignored, the result is finite
   iff the input is, and the sign is kept (so ceil(-0.5) = -0) *)
Theorem C20_int_modes : forall (prec : Z) (x : f64), is_finite x = true ->
  B2R (round_helper Round prec x) = IZR (round_half_away (B2R x)) /\
  B2R (round_helper Ceil prec x) = IZR (Zceil (B2R x)) /\
  B2R (round_helper Floor prec x) = IZR (Zfloor (B2R x)).
Proof. exact int_modes_value. Qed.
Print Assumptions C20_int_modes.

Theorem C20_int_modes_total : forall (m : rmode) (prec : Z) (x : f64),
  is_prec_mode m = false ->
  is_finite (round_helper m prec x) = is_finite x /\
  (is_nan (round_helper m prec x) = false -> Bsign (round_helper m prec x) = Bsign x).
Proof. exact int_modes_total. Qed.
Print Assumptions C20_int_modes_total.

(* ---- precision modes ---- *)
(* prec = 0 (or no argument): the value is returned unchanged, bit for bit *)
Theorem C20_prec0_identity : forall (m : rmode) (x : f64),
  is_prec_mode m = true -> round_helper m 0 x = x.
Proof. exact prec0_identity. Qed.
Print Assumptions C20_prec0_identity.

(* math.Pow10 as modelled is exact up to 10^22 *)
Theorem C20_pow10_exact : forall p : Z, (0 <= p <= 22)%Z ->
  B2R (pow10 p) = IZR (10 ^ p) /\ is_finite (pow10 p) = true.
Proof. exact pow10_exact. Qed.
Print Assumptions C20_pow10_exact.

(* The property as worded ("exact at the requested number of decimals"): the result is the
   float64 nearest to  floor (x * 10^p) / 10^p.  It is FALSE for the code. *)
Definition C20_round_prec_full_statement : Prop :=
  forall (x : f64) (p : Z), is_finite x = true -> (1 <= p <= 15)%Z ->
  B2R (round_helper FloorPrec p x)
  = round_NE (IZR (Zfloor (B2R x * IZR (10 ^ p))) / IZR (10 ^ p)).

(* witness: x = 1000000000000000.25 (bits 0x430C6BF526340002), p = 2.  x has two decimals, so
   the right answer is x; the code computes 100 * x = 100000000000000025, which float64
   rounds to ...032, and returns 1000000000000000.375 (bits ...0003) *)
Theorem C20_round_prec_refuted : ~ C20_round_prec_full_statement.
Proof. exact floor_prec_refuted. Qed.
Print Assumptions C20_round_prec_refuted.

Example C20_witness_bits :
  (round_bits FloorPrec 2 0x430C6BF526340002 = 0x430C6BF526340003)%Z.
Proof. vm_compute. reflexivity. Qed.

Theorem C20_witness_spec_value :
  round_NE (IZR (Zfloor (B2R witness * IZR (10 ^ 2))) / IZR (10 ^ 2)) = B2R witness.
Proof. exact witness_spec_floor. Qed.
Print Assumptions C20_witness_spec_value.

(* not even "floorPrec never exceeds its input" / "ceilPrec is never below its input" holds *)
Theorem C20_floor_prec_exceeds_input :
  exists x : f64, is_finite x = true /\ (B2R x < B2R (round_helper FloorPrec 2 x))%R.
Proof. exact floor_prec_not_below. Qed.
Print Assumptions C20_floor_prec_exceeds_input.

Theorem C20_ceil_prec_below_input :
  exists x : f64, is_finite x = true /\ (B2R (round_helper CeilPrec 2 x) < B2R x)%R.
Proof. exact ceil_prec_not_above. Qed.
Print Assumptions C20_ceil_prec_below_input.

(* the same failure for ceilPrec (at -x) and roundPrec (truncation, at x, inside the int64 guard) *)
Theorem C20_ceil_prec_refuted : ~ ceil_prec_full_statement.
Proof. exact ceil_prec_refuted. Qed.
Print Assumptions C20_ceil_prec_refuted.

Theorem C20_trunc_prec_refuted : ~ trunc_prec_full_statement.
Proof. exact trunc_prec_refuted. Qed.
Print Assumptions C20_trunc_prec_refuted.

(* What does hold: whenever the scaling product 10^p * x is exact, the result is the
   correctly rounded decimal value (10^p up to 10^22, no overflow possible). *)
Theorem C20_round_prec_partial : forall (x : f64) (p : Z),
  is_finite x = true -> (1 <= p <= 22)%Z ->
  B2R (fmul (pow10 p) x) = (B2R x * IZR (10 ^ p))%R ->
  B2R (round_helper FloorPrec p x)
  = round_NE (IZR (Zfloor (B2R x * IZR (10 ^ p))) / IZR (10 ^ p)).
Proof. exact floor_prec_partial. Qed.
Print Assumptions C20_round_prec_partial.

(* a computable sufficient condition: fmul_exact_b compares the integer significands *)
Theorem C20_round_prec_partial_computable : forall (x : f64) (p : Z),
  is_finite x = true -> (1 <= p <= 22)%Z ->
  fmul_exact_b (pow10 p) x = true ->
  B2R (round_helper FloorPrec p x)
  = round_NE (IZR (Zfloor (B2R x * IZR (10 ^ p))) / IZR (10 ^ p)).
Proof. exact floor_prec_partial_b. Qed.
Print Assumptions C20_round_prec_partial_computable.

Theorem C20_exact_product_test : forall a b : f64,
  fmul_exact_b a b = true -> B2R (fmul a b) = (B2R a * B2R b)%R.
Proof. exact fmul_exact_b_correct. Qed.
Print Assumptions C20_exact_product_test.

Theorem C20_ceil_prec_partial : forall (x : f64) (p : Z),
  is_finite x = true -> (1 <= p <= 22)%Z ->
  fmul_exact_b (pow10 p) x = true ->
  B2R (round_helper CeilPrec p x)
  = round_NE (IZR (Zceil (B2R x * IZR (10 ^ p))) / IZR (10 ^ p)).
Proof. exact ceil_prec_partial_b. Qed.
Print Assumptions C20_ceil_prec_partial.

(* roundPrec truncates through int64: additionally |x * 10^p| must fit (in_int64_range) *)
Theorem C20_trunc_prec_partial : forall (x : f64) (p : Z),
  is_finite x = true -> (1 <= p <= 22)%Z ->
  in_int64_range (fmul x (pow10 p)) = true ->
  fmul_exact_b x (pow10 p) = true ->
  B2R (round_helper RoundPrec p x)
  = round_NE (IZR (Ztrunc (B2R x * IZR (10 ^ p))) / IZR (10 ^ p)).
Proof. exact trunc_prec_partial_b. Qed.
Print Assumptions C20_trunc_prec_partial.

(* in those cases the result is finite *)
Theorem C20_prec_partial_finite : forall (m : rmode) (x : f64) (p : Z),
  is_finite x = true -> (1 <= p <= 22)%Z ->
  match m with
  | RoundPrec => in_int64_range (fmul x (pow10 p)) = true
  | _ => B2R (fmul (pow10 p) x) = (B2R x * IZR (10 ^ p))%R
  end ->
  is_finite (round_helper m p x) = true.
Proof. exact prec_partial_finite. Qed.
Print Assumptions C20_prec_partial_finite.

(* ---- examples on IEEE bit patterns (non-vacuity; all by computation) ---- *)
Local Open Scope Z_scope.
(* floor(-2.5) = -3 *)
Example C20_ex_floor : round_bits Floor 0 0xC004000000000000 = 0xC008000000000000.
Proof. vm_compute. reflexivity. Qed.
(* ceil(-2.5) = -2 *)
Example C20_ex_ceil : round_bits Ceil 0 0xC004000000000000 = 0xC000000000000000.
Proof. vm_compute. reflexivity. Qed.
(* round(2.5) = 3, round(-2.5) = -3 *)
Example C20_ex_round_pos : round_bits Round 0 0x4004000000000000 = 0x4008000000000000.
Proof. vm_compute. reflexivity. Qed.
Example C20_ex_round_neg : round_bits Round 0 0xC004000000000000 = 0xC008000000000000.
Proof. vm_compute. reflexivity. Qed.
(* 3.1415|floorPrec(3) = 3.141, 3.1415|ceilPrec(3) = 3.142, 3.1415|roundPrec(3) = 3.141 *)
Example C20_ex_floor_prec : round_bits FloorPrec 3 0x400921CAC083126F = 0x400920C49BA5E354.
Proof. vm_compute. reflexivity. Qed.
Example C20_ex_ceil_prec : round_bits CeilPrec 3 0x400921CAC083126F = 0x400922D0E5604189.
Proof. vm_compute. reflexivity. Qed.
Example C20_ex_round_prec : round_bits RoundPrec 3 0x400921CAC083126F = 0x400920C49BA5E354.
Proof. vm_compute. reflexivity. Qed.
(* -0.001|roundPrec(2) = +0 (the int conversion loses the sign), -0.001|ceilPrec(2) = -0 *)
Example C20_ex_round_prec_zero : round_bits RoundPrec 2 0xBF50624DD2F1A9FC = 0.
Proof. vm_compute. reflexivity. Qed.
Example C20_ex_ceil_prec_negzero : round_bits CeilPrec 2 0xBF50624DD2F1A9FC = 0x8000000000000000.
Proof. vm_compute. reflexivity. Qed.
(* the exact-product hypothesis is satisfiable: 0.5|floorPrec(3): 1000 * 0.5 = 500 exactly *)
Example C20_ex_exact_product :
  fmul_exact_b (pow10 3) (of_bits 0x3FE0000000000000) = true /\
  round_bits FloorPrec 3 0x3FE0000000000000 = 0x3FE0000000000000.
Proof. vm_compute. split; reflexivity. Qed.
(* ... and fails at the witness *)
Example C20_ex_inexact_product : fmul_exact_b (pow10 2) witness = false.
Proof. vm_compute. reflexivity. Qed.

(* ================================================================== *)
(* C20 — the arithmetic modifiers (add, sub, mul, div, abs, inc, dec, sqrt, max, min):
   "return the float64 result of the named operation on value and argument, whichever numeric
   type or numeric string the operands arrive as".  Model: Model/Arith.v; every proof is an
   [exact] of a lemma of Proofs/ArithProofs.v.  round_NE r (Spec/RoundSpec.v) is the binary64
   nearest to the real r, ties to even; 2^1024 is the overflow threshold.
   Not modelled: strconv.ParseFloat (numeric strings), NaN payloads. *)
From DT Require Import Model.Arith Proofs.ArithProofs.
Local Open Scope R_scope.

(* round_NE is literally Flocq's round-to-nearest-even in the binary64 format *)
Theorem C20_round_NE_is_flocq : forall r : R,
  round_NE r = round radix2 (FLT_exp (3 - 1024 - 53) 53) (round_mode mode_NE) r.
Proof. exact round_NE_flocq. Qed.
Print Assumptions C20_round_NE_is_flocq.

(* ---- 1. + - * / sqrt are the correctly rounded real operation ---- *)
Theorem C20_add_correct : forall x y : f64, is_finite x = true -> is_finite y = true ->
  Rabs (round_NE (B2R x + B2R y)) < bpow radix2 1024 ->
  B2R (fadd x y) = round_NE (B2R x + B2R y) /\ is_finite (fadd x y) = true.
Proof. exact add_correct. Qed.
Print Assumptions C20_add_correct.

Theorem C20_sub_correct : forall x y : f64, is_finite x = true -> is_finite y = true ->
  Rabs (round_NE (B2R x - B2R y)) < bpow radix2 1024 ->
  B2R (fsub x y) = round_NE (B2R x - B2R y) /\ is_finite (fsub x y) = true.
Proof. exact sub_correct. Qed.
Print Assumptions C20_sub_correct.

Theorem C20_mul_correct : forall x y : f64, is_finite x = true -> is_finite y = true ->
  Rabs (round_NE (B2R x * B2R y)) < bpow radix2 1024 ->
  B2R (fmul x y) = round_NE (B2R x * B2R y) /\ is_finite (fmul x y) = true.
Proof. exact mul_correct. Qed.
Print Assumptions C20_mul_correct.

(* divisor non-zero (which makes it finite); x / +-0 is below *)
Theorem C20_div_correct : forall x y : f64, is_finite x = true -> B2R y <> 0 ->
  Rabs (round_NE (B2R x / B2R y)) < bpow radix2 1024 ->
  B2R (fdiv x y) = round_NE (B2R x / B2R y) /\ is_finite (fdiv x y) = true.
Proof. exact div_correct. Qed.
Print Assumptions C20_div_correct.

Theorem C20_div_by_zero : forall (x : f64) (s : bool), is_finite x = true -> B2R x <> 0 ->
  fdiv x (B754_zero s) = B754_infinity (xorb (Bsign x) s).
Proof. exact div_by_zero. Qed.
Print Assumptions C20_div_by_zero.

(* sqrt cannot overflow.  The value equation holds for every x (for x < 0 both sides are 0: the
   real sqrt by convention, the float because it is NaN); the other clauses say when the
   result is a number, and that sqrt(-0) = -0 *)
Theorem C20_sqrt_correct : forall x : f64,
  B2R (fsqrt x) = round_NE (sqrt (B2R x)) /\
  (is_finite x = true -> Bsign x = false -> is_finite (fsqrt x) = true) /\
  (is_nan (fsqrt x) = false -> Bsign (fsqrt x) = Bsign x).
Proof. exact sqrt_correct. Qed.
Print Assumptions C20_sqrt_correct.

Theorem C20_sqrt_negative : forall x : f64, is_finite x = true -> B2R x < 0 -> fsqrt x = B754_nan.
Proof. exact sqrt_negative. Qed.
Print Assumptions C20_sqrt_negative.

Theorem C20_sqrt_closed :
  fsqrt (B754_zero true) = B754_zero true /\ fsqrt (B754_zero false) = B754_zero false /\
  fsqrt (B754_infinity false) = B754_infinity false /\ fsqrt (B754_infinity true) = B754_nan /\
  fsqrt B754_nan = B754_nan.
Proof. exact sqrt_closed. Qed.
Print Assumptions C20_sqrt_closed.

(* ---- 2. the complementary case: the infinity of the right sign ---- *)
Theorem C20_add_overflow : forall x y : f64, is_finite x = true -> is_finite y = true ->
  bpow radix2 1024 <= Rabs (round_NE (B2R x + B2R y)) ->
  fadd x y = B754_infinity (Bsign x) /\ Bsign x = Bsign y.
Proof. exact add_overflow. Qed.
Print Assumptions C20_add_overflow.

Theorem C20_add_overflow_weak : forall x y : f64, is_finite x = true -> is_finite y = true ->
  bpow radix2 1024 <= Rabs (round_NE (B2R x + B2R y)) ->
  is_finite (fadd x y) = false /\ is_nan (fadd x y) = false.
Proof. exact add_overflow_weak. Qed.
Print Assumptions C20_add_overflow_weak.

Theorem C20_sub_overflow : forall x y : f64, is_finite x = true -> is_finite y = true ->
  bpow radix2 1024 <= Rabs (round_NE (B2R x - B2R y)) ->
  fsub x y = B754_infinity (Bsign x) /\ Bsign x = negb (Bsign y).
Proof. exact sub_overflow. Qed.
Print Assumptions C20_sub_overflow.

Theorem C20_mul_overflow : forall x y : f64,
  bpow radix2 1024 <= Rabs (round_NE (B2R x * B2R y)) ->
  fmul x y = B754_infinity (xorb (Bsign x) (Bsign y)).
Proof. exact mul_overflow. Qed.
Print Assumptions C20_mul_overflow.

Theorem C20_div_overflow : forall x y : f64, B2R y <> 0 ->
  bpow radix2 1024 <= Rabs (round_NE (B2R x / B2R y)) ->
  fdiv x y = B754_infinity (xorb (Bsign x) (Bsign y)).
Proof. exact div_overflow. Qed.
Print Assumptions C20_div_overflow.

(* ---- 3. inc / dec are x + 1 / x - 1 with the float 1, and they never overflow ---- *)
Theorem C20_inc_dec : forall x y : f64,
  math_op AInc x y = fadd x (of_Z 1) /\ math_op ADec x y = fsub x (of_Z 1) /\
  B2R (of_Z 1) = 1 /\ is_finite (of_Z 1) = true.
Proof. exact inc_dec. Qed.
Print Assumptions C20_inc_dec.

Theorem C20_inc_correct : forall x y : f64, is_finite x = true ->
  B2R (math_op AInc x y) = round_NE (B2R x + 1) /\ is_finite (math_op AInc x y) = true.
Proof. exact inc_correct. Qed.
Print Assumptions C20_inc_correct.

Theorem C20_dec_correct : forall x y : f64, is_finite x = true ->
  B2R (math_op ADec x y) = round_NE (B2R x - 1) /\ is_finite (math_op ADec x y) = true.
Proof. exact dec_correct. Qed.
Print Assumptions C20_dec_correct.

(* ---- 4. abs: exact; the Go test f < 0 keeps NaN and -0 as they are ---- *)
Theorem C20_abs_exact : forall x : f64, is_nan_b x = false -> B2R (go_abs x) = Rabs (B2R x).
Proof. exact abs_exact. Qed.
Print Assumptions C20_abs_exact.

Theorem C20_abs_closed :
  go_abs B754_nan = B754_nan /\ go_abs (B754_zero true) = B754_zero true /\
  go_abs (B754_zero false) = B754_zero false /\
  go_abs (B754_infinity true) = B754_infinity false /\
  go_abs (B754_infinity false) = B754_infinity false.
Proof. exact abs_closed. Qed.
Print Assumptions C20_abs_closed.

(* everywhere except at -0 it is the IEEE abs (sign bit cleared) *)
Theorem C20_abs_is_Babs : forall x : f64, x <> B754_zero true -> go_abs x = Babs x.
Proof. exact abs_is_Babs. Qed.
Print Assumptions C20_abs_is_Babs.

Theorem C20_abs_total : forall x : f64,
  is_finite (go_abs x) = is_finite x /\ is_nan (go_abs x) = is_nan x /\
  (x <> B754_zero true -> Bsign (go_abs x) = false).
Proof. exact abs_total. Qed.
Print Assumptions C20_abs_total.

(* ---- 5. max / min ---- *)
(* finite operands (two zeros included: both sides are 0; their sign is the next theorem):
   the real maximum / minimum, and the result is one of the operands *)
Theorem C20_max_min_spec : forall x y : f64, is_finite x = true -> is_finite y = true ->
  B2R (go_max x y) = Rmax (B2R x) (B2R y) /\ B2R (go_min x y) = Rmin (B2R x) (B2R y) /\
  is_finite (go_max x y) = true /\ is_finite (go_min x y) = true /\
  (go_max x y = x \/ go_max x y = y) /\ (go_min x y = x \/ go_min x y = y).
Proof. exact max_min_value. Qed.
Print Assumptions C20_max_min_spec.

(* math.Max / math.Min on signed zeros: max prefers +0, min prefers -0 *)
Theorem C20_max_min_zeros :
  go_max (B754_zero false) (B754_zero true) = B754_zero false /\
  go_max (B754_zero true) (B754_zero false) = B754_zero false /\
  go_max (B754_zero true) (B754_zero true) = B754_zero true /\
  go_max (B754_zero false) (B754_zero false) = B754_zero false /\
  go_min (B754_zero false) (B754_zero true) = B754_zero true /\
  go_min (B754_zero true) (B754_zero false) = B754_zero true /\
  go_min (B754_zero true) (B754_zero true) = B754_zero true /\
  go_min (B754_zero false) (B754_zero false) = B754_zero false.
Proof. exact max_min_zeros. Qed.
Print Assumptions C20_max_min_zeros.

(* +Inf wins max and -Inf wins min even against NaN; otherwise NaN propagates *)
Theorem C20_max_min_special : forall x : f64,
  go_max (B754_infinity false) x = B754_infinity false /\
  go_max x (B754_infinity false) = B754_infinity false /\
  go_min (B754_infinity true) x = B754_infinity true /\
  go_min x (B754_infinity true) = B754_infinity true /\
  (is_pos_inf x = false -> go_max B754_nan x = B754_nan /\ go_max x B754_nan = B754_nan) /\
  (is_neg_inf x = false -> go_min B754_nan x = B754_nan /\ go_min x B754_nan = B754_nan).
Proof. exact max_min_special. Qed.
Print Assumptions C20_max_min_special.

(* the other infinity loses to every number *)
Theorem C20_max_min_losing_inf : forall y : f64, is_nan_b y = false ->
  go_max (B754_infinity true) y = y /\ go_max y (B754_infinity true) = y /\
  go_min (B754_infinity false) y = y /\ go_min y (B754_infinity false) = y.
Proof. exact max_min_losing_inf. Qed.
Print Assumptions C20_max_min_losing_inf.

(* ---- 6. integer operands: float64(z) ---- *)
Theorem C20_conv_int_exact : forall z : Z, (Z.abs z <= 2 ^ 53)%Z ->
  B2R (conv_int z) = IZR z /\ is_finite (conv_int z) = true.
Proof. exact conv_int_exact. Qed.
Print Assumptions C20_conv_int_exact.

(* every int64 and uint64 converts to the nearest binary64 *)
Theorem C20_conv_int_rounds : forall z : Z, (Z.abs z < 2 ^ 64)%Z ->
  B2R (conv_int z) = round_NE (IZR z) /\ is_finite (conv_int z) = true.
Proof. exact conv_int_rounds. Qed.
Print Assumptions C20_conv_int_rounds.

(* ---- 7. + and * are commutative as floats, hence bit for bit (one NaN; the sign rules of
        zeros and infinities are symmetric) ---- *)
Theorem C20_add_comm : forall x y : f64, to_bits (fadd x y) = to_bits (fadd y x).
Proof. exact fadd_comm_bits. Qed.
Print Assumptions C20_add_comm.

Theorem C20_mul_comm : forall x y : f64, to_bits (fmul x y) = to_bits (fmul y x).
Proof. exact fmul_comm_bits. Qed.
Print Assumptions C20_mul_comm.

Theorem C20_add_comm_eq : forall x y : f64, fadd x y = fadd y x.
Proof. exact fadd_comm. Qed.
Print Assumptions C20_add_comm_eq.

Theorem C20_mul_comm_eq : forall x y : f64, fmul x y = fmul y x.
Proof. exact fmul_comm. Qed.
Print Assumptions C20_mul_comm_eq.

(* ---- 8. examples on IEEE bit patterns through arith_bits (non-vacuity; by computation).
        Operation codes: 1 add, 2 sub, 3 mul, 4 div, 5 abs, 6 inc, 7 dec, 8 sqrt, 9 max, 10 min ---- *)
Local Open Scope Z_scope.
(* 0.1 + 0.2 = 0.30000000000000004 *)
Example C20_ex_add : arith_bits 1 0x3FB999999999999A 0x3FC999999999999A = Some 0x3FD3333333333334.
Proof. vm_compute. reflexivity. Qed.
(* 0.3 - 0.1 = 0.19999999999999998 *)
Example C20_ex_sub : arith_bits 2 0x3FD3333333333333 0x3FB999999999999A = Some 0x3FC9999999999999.
Proof. vm_compute. reflexivity. Qed.
(* 0.1 * 3 = 0.30000000000000004 *)
Example C20_ex_mul : arith_bits 3 0x3FB999999999999A 0x4008000000000000 = Some 0x3FD3333333333334.
Proof. vm_compute. reflexivity. Qed.
(* 1 / 3 = 0.3333333333333333 *)
Example C20_ex_div : arith_bits 4 0x3FF0000000000000 0x4008000000000000 = Some 0x3FD5555555555555.
Proof. vm_compute. reflexivity. Qed.
(* sqrt 2 = 1.4142135623730951 *)
Example C20_ex_sqrt : arith_bits 8 0x4000000000000000 0 = Some 0x3FF6A09E667F3BCD.
Proof. vm_compute. reflexivity. Qed.
(* 2^53 + 1 = 2^53 (tie, to even), by add and by inc; -2^53 - 1 = -2^53 by dec *)
Example C20_ex_tie_add : arith_bits 1 0x4340000000000000 0x3FF0000000000000 = Some 0x4340000000000000.
Proof. vm_compute. reflexivity. Qed.
Example C20_ex_tie_inc : arith_bits 6 0x4340000000000000 0 = Some 0x4340000000000000.
Proof. vm_compute. reflexivity. Qed.
Example C20_ex_tie_dec : arith_bits 7 0xC340000000000000 0 = Some 0xC340000000000000.
Proof. vm_compute. reflexivity. Qed.
(* max(+0,-0) = max(-0,+0) = +0, min(+0,-0) = -0 *)
Example C20_ex_max_zeros : arith_bits 9 0 0x8000000000000000 = Some 0 /\ arith_bits 9 0x8000000000000000 0 = Some 0.
Proof. vm_compute. split; reflexivity. Qed.
Example C20_ex_min_zeros : arith_bits 10 0 0x8000000000000000 = Some 0x8000000000000000.
Proof. vm_compute. reflexivity. Qed.
(* abs(-0) = -0 (the code tests f < 0), abs(-2.5) = 2.5 *)
Example C20_ex_abs_negzero : arith_bits 5 0x8000000000000000 0 = Some 0x8000000000000000.
Proof. vm_compute. reflexivity. Qed.
Example C20_ex_abs : arith_bits 5 0xC004000000000000 0 = Some 0x4004000000000000.
Proof. vm_compute. reflexivity. Qed.
(* sqrt(-1) = NaN, MaxFloat64 + MaxFloat64 = +Inf, 1 / 0 = +Inf, 0 / 0 = NaN *)
Example C20_ex_sqrt_neg : arith_bits 8 0xBFF0000000000000 0 = Some 0x7FF8000000000000.
Proof. vm_compute. reflexivity. Qed.
Example C20_ex_add_overflow : arith_bits 1 0x7FEFFFFFFFFFFFFF 0x7FEFFFFFFFFFFFFF = Some 0x7FF0000000000000.
Proof. vm_compute. reflexivity. Qed.
Example C20_ex_div_zero : arith_bits 4 0x3FF0000000000000 0 = Some 0x7FF0000000000000 /\ arith_bits 4 0 0 = Some 0x7FF8000000000000.
Proof. vm_compute. split; reflexivity. Qed.
(* max(NaN, +Inf) = +Inf, max(NaN, 1) = NaN *)
Example C20_ex_max_nan : arith_bits 9 0x7FF8000000000000 0x7FF0000000000000 = Some 0x7FF0000000000000 /\
  arith_bits 9 0x7FF8000000000000 0x3FF0000000000000 = Some 0x7FF8000000000000.
Proof. vm_compute. split; reflexivity. Qed.
(* float64(2^53 + 1) = 2^53, float64(MaxUint64) = 2^64, float64(MinInt64) = -2^63 *)
Example C20_ex_conv_int : to_bits (conv_int 9007199254740993) = 0x4340000000000000 /\
  to_bits (conv_int 18446744073709551615) = 0x43F0000000000000 /\
  to_bits (conv_int (-9223372036854775808)) = 0xC3E0000000000000.
Proof. vm_compute. repeat split. Qed.
(* an unknown operation code is rejected *)
Example C20_ex_bad_op : arith_bits 11 0 0 = None.
Proof. vm_compute. reflexivity. Qed.
