(* C20 — the rounding modifiers (round, ceil, floor, roundPrec, ceilPrec, floorPrec).
   This file holds statements only; every proof is an [exact] of a lemma of Proofs/RoundProofs.v.
   Floats are Flocq's binary64 (BinarySingleNaN.binary_float 53 1024); B2R is the exact real
   value of a float.  Print Assumptions lists the axioms of Coq's standard library of real
   numbers that Flocq depends on (classical Dedekind reals, functional extensionality);
   the development declares none. *)
From Coq Require Import ZArith Reals.
From Flocq Require Import Core.Core IEEE754.BinarySingleNaN.
From DT Require Import Model.Round Spec.RoundSpec Proofs.RoundProofs.

(* ---- integer modes: the result is EXACTLY the integer floor / ceil / round / trunc
        of the real value of the input, for every finite float64 ---- *)
Theorem C20_floor_exact : forall x : f64, is_finite x = true ->
  B2R (go_floor x) = IZR (Zfloor (B2R x)).
Proof. exact floor_exact. Qed.
Print Assumptions C20_floor_exact.

Theorem C20_ceil_exact : forall x : f64, is_finite x = true ->
  B2R (go_ceil x) = IZR (Zceil (B2R x)).
Proof. exact ceil_exact. Qed.
Print Assumptions C20_ceil_exact.

Theorem C20_trunc_exact : forall x : f64, is_finite x = true ->
  B2R (go_trunc x) = IZR (Ztrunc (B2R x)).
Proof. exact trunc_exact. Qed.
Print Assumptions C20_trunc_exact.

(* round: half away from zero, i.e. floor (r + 1/2) for r >= 0 and ceil (r - 1/2) for r < 0 *)
Theorem C20_round_exact : forall x : f64, is_finite x = true ->
  B2R (go_round x) = IZR (round_half_away (B2R x)).
Proof. exact round_exact. Qed.
Print Assumptions C20_round_exact.

(* the same with Flocq's own nearest-ties-away, and the two agree on every real *)
Theorem C20_round_exact_ZnearestA : forall x : f64, is_finite x = true ->
  B2R (go_round x) = IZR (ZnearestA (B2R x)).
Proof. exact round_exact_ZnearestA. Qed.
Print Assumptions C20_round_exact_ZnearestA.

Theorem C20_half_away_is_ZnearestA : forall r : R, ZnearestA r = round_half_away r.
Proof. exact ZnearestA_half_away. Qed.
Print Assumptions C20_half_away_is_ZnearestA.

(* the modifiers as dispatched by roundHelper: the argument is ignored, the result is finite
   iff the input is, and the sign is kept (so ceil(-0.5) = -0) *)
Theorem C20_int_modes : forall (prec : Z) (x : f64), is_finite x = true ->
  B2R (round_helper Round prec x) = IZR (round_half_away (B2R x)) /\
  B2R (round_helper Ceil prec x) = IZR (Zceil (B2R x)) /\
  B2R (round_helper Floor prec x) = IZR (Zfloor (B2R x)).
Proof. exact int_modes_value. Qed.
Print Assumptions C20_int_modes.

Theorem C20_int_modes_total : forall (m : rmode) (prec : Z) (x : f64),
  is_prec_mode m = false ->
  is_finite (round_helper m prec x) = is_finite x /\
  (is_nan (round_helper m prec x) = false -> Bsign (round_helper m prec x) = Bsign x).
Proof. exact int_modes_total. Qed.
Print Assumptions C20_int_modes_total.

(* ---- precision modes ---- *)
(* prec = 0 (or no argument): the value is returned unchanged, bit for bit *)
Theorem C20_prec0_identity : forall (m : rmode) (x : f64),
  is_prec_mode m = true -> round_helper m 0 x = x.
Proof. exact prec0_identity. Qed.
Print Assumptions C20_prec0_identity.

(* math.Pow10 as modelled is exact up to 10^22 *)
Theorem C20_pow10_exact : forall p : Z, (0 <= p <= 22)%Z ->
  B2R (pow10 p) = IZR (10 ^ p) /\ is_finite (pow10 p) = true.
Proof. exact pow10_exact. Qed.
Print Assumptions C20_pow10_exact.

(* The property as worded ("exact at the requested number of decimals"): the result is the
   float64 nearest to  floor (x * 10^p) / 10^p.  It is FALSE for the code. *)
Definition C20_round_prec_full_statement : Prop :=
  forall (x : f64) (p : Z), is_finite x = true -> (1 <= p <= 15)%Z ->
  B2R (round_helper FloorPrec p x)
  = round_NE (IZR (Zfloor (B2R x * IZR (10 ^ p))) / IZR (10 ^ p)).

(* witness: x = 1000000000000000.25 (bits 0x430C6BF526340002), p = 2.  x has two decimals, so
   the right answer is x; the code computes 100 * x = 100000000000000025, which float64
   rounds to ...032, and returns 1000000000000000.375 (bits ...0003) *)
Theorem C20_round_prec_refuted : ~ C20_round_prec_full_statement.
Proof. exact floor_prec_refuted. Qed.
Print Assumptions C20_round_prec_refuted.

Example C20_witness_bits :
  (round_bits FloorPrec 2 0x430C6BF526340002 = 0x430C6BF526340003)%Z.
Proof. vm_compute. reflexivity. Qed.

Theorem C20_witness_spec_value :
  round_NE (IZR (Zfloor (B2R witness * IZR (10 ^ 2))) / IZR (10 ^ 2)) = B2R witness.
Proof. exact witness_spec_floor. Qed.
Print Assumptions C20_witness_spec_value.

(* not even "floorPrec never exceeds its input" / "ceilPrec is never below its input" holds *)
Theorem C20_floor_prec_exceeds_input :
  exists x : f64, is_finite x = true /\ (B2R x < B2R (round_helper FloorPrec 2 x))%R.
Proof. exact floor_prec_not_below. Qed.
Print Assumptions C20_floor_prec_exceeds_input.

Theorem C20_ceil_prec_below_input :
  exists x : f64, is_finite x = true /\ (B2R (round_helper CeilPrec 2 x) < B2R x)%R.
Proof. exact ceil_prec_not_above. Qed.
Print Assumptions C20_ceil_prec_below_input.

(* the same failure for ceilPrec (at -x) and roundPrec (truncation, at x, inside the int64 guard) *)
Theorem C20_ceil_prec_refuted : ~ ceil_prec_full_statement.
Proof. exact ceil_prec_refuted. Qed.
Print Assumptions C20_ceil_prec_refuted.

Theorem C20_trunc_prec_refuted : ~ trunc_prec_full_statement.
Proof. exact trunc_prec_refuted. Qed.
Print Assumptions C20_trunc_prec_refuted.

(* What does hold: whenever the scaling product 10^p * x is exact, the result is the
   correctly rounded decimal value (10^p up to 10^22, no overflow possible). *)
Theorem C20_round_prec_partial : forall (x : f64) (p : Z),
  is_finite x = true -> (1 <= p <= 22)%Z ->
  B2R (fmul (pow10 p) x) = (B2R x * IZR (10 ^ p))%R ->
  B2R (round_helper FloorPrec p x)
  = round_NE (IZR (Zfloor (B2R x * IZR (10 ^ p))) / IZR (10 ^ p)).
Proof. exact floor_prec_partial. Qed.
Print Assumptions C20_round_prec_partial.

(* a computable sufficient condition: fmul_exact_b compares the integer significands *)
Theorem C20_round_prec_partial_computable : forall (x : f64) (p : Z),
  is_finite x = true -> (1 <= p <= 22)%Z ->
  fmul_exact_b (pow10 p) x = true ->
  B2R (round_helper FloorPrec p x)
  = round_NE (IZR (Zfloor (B2R x * IZR (10 ^ p))) / IZR (10 ^ p)).
Proof. exact floor_prec_partial_b. Qed.
Print Assumptions C20_round_prec_partial_computable.

Theorem C20_exact_product_test : forall a b : f64,
  fmul_exact_b a b = true -> B2R (fmul a b) = (B2R a * B2R b)%R.
Proof. exact fmul_exact_b_correct. Qed.
Print Assumptions C20_exact_product_test.

Theorem C20_ceil_prec_partial : forall (x : f64) (p : Z),
  is_finite x = true -> (1 <= p <= 22)%Z ->
  fmul_exact_b (pow10 p) x = true ->
  B2R (round_helper CeilPrec p x)
  = round_NE (IZR (Zceil (B2R x * IZR (10 ^ p))) / IZR (10 ^ p)).
Proof. exact ceil_prec_partial_b. Qed.
Print Assumptions C20_ceil_prec_partial.

(* roundPrec truncates through int64: additionally |x * 10^p| must fit (in_int64_range) *)
Theorem C20_trunc_prec_partial : forall (x : f64) (p : Z),
  is_finite x = true -> (1 <= p <= 22)%Z ->
  in_int64_range (fmul x (pow10 p)) = true ->
  fmul_exact_b x (pow10 p) = true ->
  B2R (round_helper RoundPrec p x)
  = round_NE (IZR (Ztrunc (B2R x * IZR (10 ^ p))) / IZR (10 ^ p)).
Proof. exact trunc_prec_partial_b. Qed.
Print Assumptions C20_trunc_prec_partial.

(* in those cases the result is finite *)
Theorem C20_prec_partial_finite : forall (m : rmode) (x : f64) (p : Z),
  is_finite x = true -> (1 <= p <= 22)%Z ->
  match m with
  | RoundPrec => in_int64_range (fmul x (pow10 p)) = true
  | _ => B2R (fmul (pow10 p) x) = (B2R x * IZR (10 ^ p))%R
  end ->
  is_finite (round_helper m p x) = true.
Proof. exact prec_partial_finite. Qed.
Print Assumptions C20_prec_partial_finite.

(* ---- examples on IEEE bit patterns (non-vacuity; all by computation) ---- *)
Local Open Scope Z_scope.
(* floor(-2.5) = -3 *)
Example C20_ex_floor : round_bits Floor 0 0xC004000000000000 = 0xC008000000000000.
Proof. vm_compute. reflexivity. Qed.
(* ceil(-2.5) = -2 *)
Example C20_ex_ceil : round_bits Ceil 0 0xC004000000000000 = 0xC000000000000000.
Proof. vm_compute. reflexivity. Qed.
(* round(2.5) = 3, round(-2.5) = -3 *)
Example C20_ex_round_pos : round_bits Round 0 0x4004000000000000 = 0x4008000000000000.
Proof. vm_compute. reflexivity. Qed.
Example C20_ex_round_neg : round_bits Round 0 0xC004000000000000 = 0xC008000000000000.
Proof. vm_compute. reflexivity. Qed.
(* 3.1415|floorPrec(3) = 3.141, 3.1415|ceilPrec(3) = 3.142, 3.1415|roundPrec(3) = 3.141 *)
Example C20_ex_floor_prec : round_bits FloorPrec 3 0x400921CAC083126F = 0x400920C49BA5E354.
Proof. vm_compute. reflexivity. Qed.
Example C20_ex_ceil_prec : round_bits CeilPrec 3 0x400921CAC083126F = 0x400922D0E5604189.
Proof. vm_compute. reflexivity. Qed.
Example C20_ex_round_prec : round_bits RoundPrec 3 0x400921CAC083126F = 0x400920C49BA5E354.
Proof. vm_compute. reflexivity. Qed.
(* -0.001|roundPrec(2) = +0 (the int conversion loses the sign), -0.001|ceilPrec(2) = -0 *)
Example C20_ex_round_prec_zero : round_bits RoundPrec 2 0xBF50624DD2F1A9FC = 0.
Proof. vm_compute. reflexivity. Qed.
Example C20_ex_ceil_prec_negzero : round_bits CeilPrec 2 0xBF50624DD2F1A9FC = 0x8000000000000000.
Proof. vm_compute. reflexivity. Qed.
(* the exact-product hypothesis is satisfiable: 0.5|floorPrec(3): 1000 * 0.5 = 500 exactly *)
Example C20_ex_exact_product :
  fmul_exact_b (pow10 3) (of_bits 0x3FE0000000000000) = true /\
  round_bits FloorPrec 3 0x3FE0000000000000 = 0x3FE0000000000000.
Proof. vm_compute. split; reflexivity. Qed.
(* ... and fails at the witness *)
Example C20_ex_inexact_product : fmul_exact_b (pow10 2) witness = false.
Proof. vm_compute. reflexivity. Qed.
