(* C01 — static text and printed values reach the output unchanged and in order. *)
From DT Require Import Model.Bytes Model.Value Model.Tree Model.Interp Proofs.InterpFacts.

(* static text outside any bound tag reaches a healthy writer byte for byte, in one write *)
Theorem C01_raw_verbatim : forall flits lookup budget inc raw c w,
  w_fail w = None -> chJQ c = false -> chHE c = false -> chUE c = false ->
  exists w', write_node flits lookup budget inc (NRaw raw) c w = Out (set_cerr None c) w' None /\
             wr_bytes w' = wr_bytes w ++ raw /\ w_n w' = S (w_n w) /\ w_fail w' = None.
Proof. exact raw_verbatim. Qed.
Print Assumptions C01_raw_verbatim.

Theorem C01_raw_in_region : forall flits lookup budget inc raw c w,
  w_fail w = None ->
  exists w', write_node flits lookup budget inc (NRaw raw) c w = Out (set_cerr None c) w' None /\
             wr_bytes w' = wr_bytes w ++ region_text c raw.
Proof. exact raw_in_region. Qed.
Print Assumptions C01_raw_in_region.

(* ---- canonical integer text (strconv.AppendInt as modelled by print_Z) ---- *)
From DT Require Import Proofs.IntText.

(* the text of an integer parses back to that integer *)
Theorem C01_int_text_roundtrip : forall z : Z, parse_Z (print_Z z) = Some z.
Proof. exact print_parse_Z. Qed.
Print Assumptions C01_int_text_roundtrip.

(* "0" exactly for zero; otherwise '-' exactly for negatives, then a digit 1..9, then digits only *)
Theorem C01_int_text_canonical : forall z : Z,
  (z = 0%Z /\ print_Z z = ["0"%byte]) \/
  (exists d r, print_Z z = (if (z <? 0)%Z then ["-"%byte] else []) ++ d :: r /\
               is_digit19 d = true /\ forallb is_digit r = true).
Proof. exact print_Z_canonical. Qed.
Print Assumptions C01_int_text_canonical.

(* the same as an executable check *)
Theorem C01_int_text_canonical_b : forall z : Z, canonical_int_text (print_Z z) = true.
Proof. exact print_Z_canonical_b. Qed.
Print Assumptions C01_int_text_canonical_b.

Example C01_int_text_ex :
  print_Z (-1205)%Z = ["-";"1";"2";"0";"5"]%byte /\ parse_Z ["-";"1";"2";"0";"5"]%byte = Some (-1205)%Z /\
  canonical_int_text ["0";"7"]%byte = false /\ canonical_int_text ["-";"0"]%byte = false.
Proof. vm_compute. repeat split; reflexivity. Qed.

(* ---- flat templates: text, comments and plain prints (optional prefix/suffix) ---- *)
From DT Require Import Spec.Ast Spec.RefEval Spec.Compile Proofs.FlatProofs.

(* For every flat template, every context and every healthy writer, running the compiled tree
   (adjacent raw nodes merged) appends to the writer exactly the output of the reference
   semantics on the abstracted store [abs c], leaves the store unchanged, keeps the writer
   healthy, and ends with the error the reference semantics prescribes ([sig_ok]: none; or
   ErrUnknownType for a value without text; inside a counter-loop body (chQB) also
   ErrUnknownType where an a[i] index has no text, which the reference leaves unspecified). *)
Theorem C01_render_items :
  forall flits lookup budget inc rlookup rbudget rinc items c w,
    forallb flat_item items = true -> w_fail w = None ->
    exists c' w' eo out s,
      run_nodes flits lookup budget inc (compile_tpl items) c w = Out c' w' eo /\
      ref_items flits rlookup rbudget rinc items (abs c) = (out, abs c', s) /\
      wr_bytes w' = wr_bytes w ++ out /\ w_fail w' = None /\
      abs c' = abs c /\ sig_ok (chQB c) s eo.
Proof. exact render_flat_items. Qed.
Print Assumptions C01_render_items.

(* outside counter-loop bodies the reference semantics is total on flat templates *)
Theorem C01_render_items_noqb :
  forall flits lookup budget inc rlookup rbudget rinc items c w,
    forallb flat_item items = true -> w_fail w = None -> chQB c = false ->
    exists c' w' eo out s,
      run_nodes flits lookup budget inc (compile_tpl items) c w = Out c' w' eo /\
      ref_items flits rlookup rbudget rinc items (abs c) = (out, abs c', s) /\
      wr_bytes w' = wr_bytes w ++ out /\ w_fail w' = None /\
      ((s = SNone /\ eo = None) \/ (exists x, s = SErr x /\ eo = Some x)).
Proof. exact render_flat_items_noqb. Qed.
Print Assumptions C01_render_items_noqb.

(* the escapers of the bound tags are byte-wise: static text may be split or merged anywhere *)
Theorem C01_region_text_app : forall c a b, region_text c (a ++ b) = region_text c a ++ region_text c b.
Proof. exact region_text_app. Qed.
Print Assumptions C01_region_text_app.

(* non-vacuity: "Hi " (comment) "there " {%= user.name prefix < suffix > %} {%= n %} inside a
   jsonquote region, with user a struct variable and n a counter: two raw items merge into one
   node, three nodes run in five writes, and both sides give the text  Hi there <Bob>7  with the
   '<' of the prefix escaped by the region's JSON escaper *)
Example C01_render_items_ex :
  let items := [AText ["H";"i";" "]%byte; AComment ["x"]%byte; AText ["t";"h";"e";"r";"e";" "]%byte;
                APrint [] ["u";"s";"e";"r";".";"n";"a";"m";"e"]%byte [] ["<"]%byte [">"]%byte false;
                APrint [] ["n"]%byte [] [] [] false] in
  let c := set_flag FJson true
             (set_vars [mkSlot ["u";"s";"e";"r"]%byte (VStruct [(["n";"a";"m";"e"]%byte, VStr ["B";"o";"b"]%byte)]) [] false 0%Z false;
                        mkSlot ["n"]%byte VNil [] true 7%Z true] ctx_new) in
  let expected := (["H";"i";" ";"t";"h";"e";"r";"e";" "] ++ ["\";"u";"0";"0";"3";"c"] ++ ["B";"o";"b";">";"7"])%byte in
  forallb flat_item items = true /\
  length (compile_tpl items) = 3%nat /\
  (match run_nodes [] (fun _ => None) 0 (fun _ _ => None) (compile_tpl items) c (wr_new None 0) with
   | Out _ w' None => wr_bytes w' = expected /\ w_n w' = 5%nat
   | _ => False
   end) /\
  ref_items [] (fun _ => None) 0 (fun _ _ => None) items (abs c) = (expected, abs c, SNone).
Proof. vm_compute. repeat split; reflexivity. Qed.

(* ---- the parser's clean-up of the source (Model/Preproc.v, Proofs/PreprocProofs.v): comments and,
        unless formatting is kept, line breaks with their indentation are removed, nothing else ---- *)
From DT Require Import Model.Preproc Proofs.PreprocProofs.

(* the fuel of the comment scanner is never exhausted *)
Theorem C01_comments_fuel_suffices : forall s n, length s < n -> cut_comments_fuel n s = cut_comments s.
Proof. exact comments_fuel_suffices. Qed.
Print Assumptions C01_comments_fuel_suffices.

(* no '{' immediately followed by '#': nothing is a comment, and with keepFmt the parser sees the
   source unchanged *)
Theorem C01_no_comment_opener_identity : forall s, no_opener s = true -> cut_comments s = s.
Proof. exact no_opener_identity. Qed.
Print Assumptions C01_no_comment_opener_identity.

Theorem C01_keep_fmt_source_unchanged : forall s, no_opener s = true -> preprocess true s = s.
Proof. exact keep_fmt_without_opener. Qed.
Print Assumptions C01_keep_fmt_source_unchanged.

(* a comment after text without opener is removed, the text before it is kept as it is, the
   scan goes on behind it *)
Theorem C01_comment_removed : forall a c b,
  no_opener a = true -> forallb (fun x => negb (beqb x b_hash)) c = true ->
  cut_comments (a ++ [b_lbrace; b_hash] ++ c ++ [b_hash; b_rbrace] ++ b) = a ++ cut_comments b.
Proof. exact comment_removed. Qed.
Print Assumptions C01_comment_removed.

(* (no '{' in front at all is a special case of "no opener in front") *)
Theorem C01_no_lbrace_no_opener : forall a, forallb (fun x => negb (beqb x b_lbrace)) a = true -> no_opener a = true.
Proof. exact no_lbrace_no_opener. Qed.
Print Assumptions C01_no_lbrace_no_opener.

(* the no-match case of `{#[^#]*#}`: the first '#' after the opener is missing, is the last byte,
   or is not followed by '}': the '{' is kept and the scan resumes one byte later *)
Theorem C01_unterminated_comment_kept : forall r1,
  match after_hash r1 with
  | Some (e :: _) => beqb e b_rbrace = false
  | _ => True
  end ->
  cut_comments (b_lbrace :: b_hash :: r1) = b_lbrace :: cut_comments (b_hash :: r1).
Proof. exact unterminated_comment_kept. Qed.
Print Assumptions C01_unterminated_comment_kept.

Example C01_unterminated_comment_example :
  cut_comments ["{";"#";"a";"{";"#";"b";"#";"}";"c"]%byte = ["{";"#";"a";"c"]%byte.
Proof. exact unterminated_example. Qed.

(* one pass only (like ReplaceAll): removing a comment can form a new one from the bytes around it *)
Example C01_cut_comments_one_pass_example :
  cut_comments s_nested = ["{";"#";"x";"#";"}"]%byte /\ cut_comments (cut_comments s_nested) = [].
Proof. exact not_idempotent_example. Qed.

Theorem C01_cut_comments_not_idempotent : ~ (forall s, cut_comments (cut_comments s) = cut_comments s).
Proof. exact cut_comments_idempotent_refuted. Qed.
Print Assumptions C01_cut_comments_not_idempotent.

(* line breaks: none is left ... *)
Theorem C01_cut_fmt_no_line_feed : forall s k, ~ In b_lf (cut_fmt_go k s).
Proof. exact cut_fmt_go_no_lf. Qed.
Print Assumptions C01_cut_fmt_no_line_feed.

Theorem C01_cut_fmt_trimmed_no_line_feed : forall s, ~ In b_lf (cut_fmt s).
Proof. exact cut_fmt_no_lf. Qed.
Print Assumptions C01_cut_fmt_trimmed_no_line_feed.

(* ... text without line break is untouched ... *)
Theorem C01_cut_fmt_identity_without_line_feed : forall s, ~ In b_lf s -> cut_fmt_go false s = s.
Proof. exact cut_fmt_go_identity. Qed.
Print Assumptions C01_cut_fmt_identity_without_line_feed.

(* ... and a line break disappears together with the indentation after it, nothing else does *)
Theorem C01_cut_fmt_line_break_and_indentation : forall a ws c r,
  ~ In b_lf a -> Forall (fun x => is_re_space x = true) ws -> is_re_space c = false ->
  cut_fmt_go false (a ++ b_lf :: ws ++ c :: r) = a ++ c :: cut_fmt_go false r.
Proof. exact cut_fmt_line_break_and_indentation. Qed.
Print Assumptions C01_cut_fmt_line_break_and_indentation.

Theorem C01_cut_fmt_go_idempotent : forall k s, cut_fmt_go false (cut_fmt_go k s) = cut_fmt_go k s.
Proof. exact cut_fmt_go_idempotent. Qed.
Print Assumptions C01_cut_fmt_go_idempotent.

Theorem C01_trim_idempotent : forall s, trim (trim s) = trim s.
Proof. exact trim_idempotent. Qed.
Print Assumptions C01_trim_idempotent.

Theorem C01_cut_fmt_idempotent : forall s, cut_fmt (cut_fmt s) = cut_fmt s.
Proof. exact cut_fmt_idempotent. Qed.
Print Assumptions C01_cut_fmt_idempotent.

(* Trim(" \t\n"): the text is its trimmed part between two runs of such bytes, and the trimmed
   part neither starts nor ends with one *)
Theorem C01_trim_is_infix : forall s,
  exists p q, s = p ++ trim s ++ q /\ all_trim p /\ all_trim q /\
              starts_ok (trim s) = true /\ starts_ok (rev (trim s)) = true.
Proof. exact trim_is_infix. Qed.
Print Assumptions C01_trim_is_infix.

(* nothing is ever added or reordered by the clean-up *)
Theorem C01_cut_comments_sublist : forall s, subseq (cut_comments s) s.
Proof. exact cut_comments_subseq. Qed.
Print Assumptions C01_cut_comments_sublist.

Theorem C01_cut_fmt_go_sublist : forall s k, subseq (cut_fmt_go k s) s.
Proof. exact cut_fmt_go_subseq. Qed.
Print Assumptions C01_cut_fmt_go_sublist.

Theorem C01_trim_sublist : forall s, subseq (trim s) s.
Proof. exact trim_subseq. Qed.
Print Assumptions C01_trim_sublist.

Theorem C01_preprocess_sublist : forall k s, subseq (preprocess k s) s.
Proof. exact preprocess_subseq. Qed.
Print Assumptions C01_preprocess_sublist.

Theorem C01_text_view_sublist : forall k t, subseq (text_view k t) t.
Proof. exact text_view_subseq. Qed.
Print Assumptions C01_text_view_sublist.

(* ---- static text through the parser (Model/Parser.v, for every table of expressions) ---- *)
From DT Require Import Model.Regex Model.ParserRe Model.ParserSkel Model.Parser Proofs.ParserModelProofs.

(* a cleaned source without any tag is one raw node carrying exactly its bytes (none if empty) *)
Theorem C01_source_without_tags_is_one_raw_node : forall (T : retab) (E : penv) s,
  find2 "{"%byte "%"%byte s = None ->
  parse_clean T E s = POk (match s with [] => [] | _ => [NRaw s] end).
Proof. exact parse_static_text. Qed.
Print Assumptions C01_source_without_tags_is_one_raw_node.

(* a template without block tags becomes, node for node and in the order of the source, its
   pieces: every stretch of static text as a raw node with exactly its bytes, every tag as the
   node that tag stands for *)
Theorem C01_flat_template_keeps_order : forall (T : retab) (E : penv) s toks,
  tokens s = Some toks -> Forall (is_flat T E) toks ->
  parse_clean T E s = POk (map (flat_node T E) toks).
Proof. exact parse_flat. Qed.
Print Assumptions C01_flat_template_keeps_order.

(* at every level of nesting a stretch of static text is appended to the nodes built so far as a
   raw node with exactly its bytes, and nothing built before is touched *)
Theorem C01_static_text_appended_unchanged : forall (T : retab) (E : penv) f t p s inp acc err p' rest out,
  (negb (reached t p) || eq_zero t) = true ->
  parse_nodes T E (S f) t p (TRawT s :: inp) acc = Some (err, p', rest, out) ->
  exists more, out = acc ++ NRaw s :: more.
Proof. exact parse_nodes_raw_kept. Qed.
Print Assumptions C01_static_text_appended_unchanged.

(* from source bytes to output bytes: a source without tags is accepted and renders as itself *)
From DT Require Import Proofs.EndToEnd.
Theorem C01_static_source_renders_itself : forall (T : retab) (E : penv) flits lookup budget inc s c w,
  find2 "{"%byte "%"%byte s = None ->
  w_fail w = None -> chJQ c = false -> chHE c = false -> chUE c = false ->
  exists tree,
    parse_clean T E s = POk tree /\
    exists c' w', run_nodes flits lookup budget inc tree c w = Out c' w' None /\
                  wr_bytes w' = wr_bytes w ++ s /\ w_fail w' = None.
Proof. exact static_source_renders_itself. Qed.
Print Assumptions C01_static_source_renders_itself.

(* ---- the source clean-up of the parser model, for every table of expressions
        (Proofs/ParserCleanup.v): whatever the comment and format expressions of the code are,
        the clean-up only ever deletes bytes; without a comment and with the format kept it is
        the identity, and a source without comments and tags is parsed to itself ---- *)
From DT Require Import Proofs.ParserCleanup.

Theorem C01_parser_cleanup_only_deletes : forall (T : retab) keep s,
  subseq (preprocess_re T keep s) s.
Proof. exact preprocess_re_sublist. Qed.
Print Assumptions C01_parser_cleanup_only_deletes.

Theorem C01_parser_cleanup_identity : forall (T : retab) s,
  re_find (t_reCutComments T) s = None -> preprocess_re T true s = s.
Proof. exact preprocess_re_identity. Qed.
Print Assumptions C01_parser_cleanup_identity.

Theorem C01_source_without_comments_and_tags : forall (T : retab) (E : penv) s,
  re_find (t_reCutComments T) s = None -> find2 "{"%byte "%"%byte s = None ->
  parse T E true s = POk (match s with [] => [] | _ => [NRaw s] end).
Proof. exact parse_keepfmt_static. Qed.
Print Assumptions C01_source_without_comments_and_tags.

(* deleting the matches of ANY expression yields a sub-sequence of the text, and the text itself
   when nothing matches; the scan never stops for lack of fuel *)
Theorem C01_delete_matches_sublist : forall r s, subseq (delete_all r s) s.
Proof. exact delete_all_sublist. Qed.
Print Assumptions C01_delete_matches_sublist.

Theorem C01_delete_matches_fuel : forall r s f pos, (length s < f)%nat ->
  delete_all_go f r s pos = delete_all_go (S (length s)) r s pos.
Proof. exact delete_all_fuel. Qed.
Print Assumptions C01_delete_matches_fuel.
