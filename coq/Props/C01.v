(* C01 — static text and printed values reach the output unchanged and in order. *)
From DT Require Import Model.Bytes Model.Value Model.Tree Model.Interp Proofs.InterpFacts.

(* static text outside any bound tag reaches a healthy writer byte for byte, in one write *)
Theorem C01_raw_verbatim : forall flits lookup budget inc raw c w,
  w_fail w = None -> chJQ c = false -> chHE c = false -> chUE c = false ->
  exists w', write_node flits lookup budget inc (NRaw raw) c w = Out (set_cerr None c) w' None /\
             wr_bytes w' = wr_bytes w ++ raw /\ w_n w' = S (w_n w) /\ w_fail w' = None.
Proof. exact raw_verbatim. Qed.
Print Assumptions C01_raw_verbatim.

Theorem C01_raw_in_region : forall flits lookup budget inc raw c w,
  w_fail w = None ->
  exists w', write_node flits lookup budget inc (NRaw raw) c w = Out (set_cerr None c) w' None /\
             wr_bytes w' = wr_bytes w ++ region_text c raw.
Proof. exact raw_in_region. Qed.
Print Assumptions C01_raw_in_region.

(* ---- canonical integer text (strconv.AppendInt as modelled by print_Z) ---- *)
From DT Require Import Proofs.IntText.

(* the text of an integer parses back to that integer *)
Theorem C01_int_text_roundtrip : forall z : Z, parse_Z (print_Z z) = Some z.
Proof. exact print_parse_Z. Qed.
Print Assumptions C01_int_text_roundtrip.

(* "0" exactly for zero; otherwise '-' exactly for negatives, then a digit 1..9, then digits only *)
Theorem C01_int_text_canonical : forall z : Z,
  (z = 0%Z /\ print_Z z = ["0"%byte]) \/
  (exists d r, print_Z z = (if (z <? 0)%Z then ["-"%byte] else []) ++ d :: r /\
               is_digit19 d = true /\ forallb is_digit r = true).
Proof. exact print_Z_canonical. Qed.
Print Assumptions C01_int_text_canonical.

(* the same as an executable check *)
Theorem C01_int_text_canonical_b : forall z : Z, canonical_int_text (print_Z z) = true.
Proof. exact print_Z_canonical_b. Qed.
Print Assumptions C01_int_text_canonical_b.

Example C01_int_text_ex :
  print_Z (-1205)%Z = ["-";"1";"2";"0";"5"]%byte /\ parse_Z ["-";"1";"2";"0";"5"]%byte = Some (-1205)%Z /\
  canonical_int_text ["0";"7"]%byte = false /\ canonical_int_text ["-";"0"]%byte = false.
Proof. vm_compute. repeat split; reflexivity. Qed.

(* ---- flat templates: text, comments and plain prints (optional prefix/suffix) ---- *)
From DT Require Import Spec.Ast Spec.RefEval Spec.Compile Proofs.FlatProofs.

(* For every flat template, every context and every healthy writer, running the compiled tree
   (adjacent raw nodes merged) appends to the writer exactly the output of the reference
   semantics on the abstracted store [abs c], leaves the store unchanged, keeps the writer
   healthy, and ends with the error the reference semantics prescribes ([sig_ok]: none; or
   ErrUnknownType for a value without text; inside a counter-loop body (chQB) also
   ErrUnknownType where an a[i] index has no text, which the reference leaves unspecified). *)
Theorem C01_render_items :
  forall flits lookup budget inc rlookup rbudget rinc items c w,
    forallb flat_item items = true -> w_fail w = None ->
    exists c' w' eo out s,
      run_nodes flits lookup budget inc (compile_tpl items) c w = Out c' w' eo /\
      ref_items flits rlookup rbudget rinc items (abs c) = (out, abs c', s) /\
      wr_bytes w' = wr_bytes w ++ out /\ w_fail w' = None /\
      abs c' = abs c /\ sig_ok (chQB c) s eo.
Proof. exact render_flat_items. Qed.
Print Assumptions C01_render_items.

(* outside counter-loop bodies the reference semantics is total on flat templates *)
Theorem C01_render_items_noqb :
  forall flits lookup budget inc rlookup rbudget rinc items c w,
    forallb flat_item items = true -> w_fail w = None -> chQB c = false ->
    exists c' w' eo out s,
      run_nodes flits lookup budget inc (compile_tpl items) c w = Out c' w' eo /\
      ref_items flits rlookup rbudget rinc items (abs c) = (out, abs c', s) /\
      wr_bytes w' = wr_bytes w ++ out /\ w_fail w' = None /\
      ((s = SNone /\ eo = None) \/ (exists x, s = SErr x /\ eo = Some x)).
Proof. exact render_flat_items_noqb. Qed.
Print Assumptions C01_render_items_noqb.

(* the escapers of the bound tags are byte-wise: static text may be split or merged anywhere *)
Theorem C01_region_text_app : forall c a b, region_text c (a ++ b) = region_text c a ++ region_text c b.
Proof. exact region_text_app. Qed.
Print Assumptions C01_region_text_app.

(* non-vacuity: "Hi " (comment) "there " {%= user.name prefix < suffix > %} {%= n %} inside a
   jsonquote region, with user a struct variable and n a counter: two raw items merge into one
   node, three nodes run in five writes, and both sides give the text  Hi there <Bob>7  with the
   '<' of the prefix escaped by the region's JSON escaper *)
Example C01_render_items_ex :
  let items := [AText ["H";"i";" "]%byte; AComment ["x"]%byte; AText ["t";"h";"e";"r";"e";" "]%byte;
                APrint [] ["u";"s";"e";"r";".";"n";"a";"m";"e"]%byte [] ["<"]%byte [">"]%byte false;
                APrint [] ["n"]%byte [] [] [] false] in
  let c := set_flag FJson true
             (set_vars [mkSlot ["u";"s";"e";"r"]%byte (VStruct [(["n";"a";"m";"e"]%byte, VStr ["B";"o";"b"]%byte)]) [] false 0%Z false;
                        mkSlot ["n"]%byte VNil [] true 7%Z true] ctx_new) in
  let expected := (["H";"i";" ";"t";"h";"e";"r";"e";" "] ++ ["\";"u";"0";"0";"3";"c"] ++ ["B";"o";"b";">";"7"])%byte in
  forallb flat_item items = true /\
  length (compile_tpl items) = 3%nat /\
  (match run_nodes [] (fun _ => None) 0 (fun _ _ => None) (compile_tpl items) c (wr_new None 0) with
   | Out _ w' None => wr_bytes w' = expected /\ w_n w' = 5%nat
   | _ => False
   end) /\
  ref_items [] (fun _ => None) 0 (fun _ _ => None) items (abs c) = (expected, abs c, SNone).
Proof. vm_compute. repeat split; reflexivity. Qed.
