(* C01 — static text and printed values reach the output unchanged and in order. *)
From DT Require Import Model.Bytes Model.Value Model.Tree Model.Interp Proofs.InterpFacts.

(* static text outside any bound tag reaches a healthy writer byte for byte, in one write *)
Theorem C01_raw_verbatim : forall flits lookup budget inc raw c w,
  w_fail w = None -> chJQ c = false -> chHE c = false -> chUE c = false ->
  exists w', write_node flits lookup budget inc (NRaw raw) c w = Out (set_cerr None c) w' None /\
             wr_bytes w' = wr_bytes w ++ raw /\ w_n w' = S (w_n w) /\ w_fail w' = None.
Proof. exact raw_verbatim. Qed.
Print Assumptions C01_raw_verbatim.

Theorem C01_raw_in_region : forall flits lookup budget inc raw c w,
  w_fail w = None ->
  exists w', write_node flits lookup budget inc (NRaw raw) c w = Out (set_cerr None c) w' None /\
             wr_bytes w' = wr_bytes w ++ region_text c raw.
Proof. exact raw_in_region. Qed.
Print Assumptions C01_raw_in_region.
