(* C11 — escape letters and chained modifiers compose left to right. *)
From DT Require Import Model.Bytes Model.EscURL Proofs.URLProofs.

(* a run of n+1 identical letters is one more application on top of the run of n *)
Theorem C11_run_unfold : forall (A : Type) (f : A -> A) (n : nat) (x : A), repeat_app f (S n) x = f (repeat_app f n x).
Proof. exact @repeat_app_S. Qed.
Print Assumptions C11_run_unfold.
Theorem C11_run_is_iter : forall (A : Type) (f : A -> A) (n : nat) (x : A), repeat_app f n x = Nat.iter n f x.
Proof. exact @repeat_app_iter. Qed.
Print Assumptions C11_run_is_iter.
