(* C11 — escape letters and chained modifiers compose left to right. *)
From DT Require Import Model.Bytes Model.EscURL Proofs.URLProofs.

(* a run of n+1 identical letters is one more application on top of the run of n *)
Theorem C11_run_unfold : forall (A : Type) (f : A -> A) (n : nat) (x : A), repeat_app f (S n) x = f (repeat_app f n x).
Proof. exact @repeat_app_S. Qed.
Print Assumptions C11_run_unfold.
Theorem C11_run_is_iter : forall (A : Type) (f : A -> A) (n : nat) (x : A), repeat_app f n x = Nat.iter n f x.
Proof. exact @repeat_app_iter. Qed.
Print Assumptions C11_run_is_iter.

(* ---- refinement of the reference semantics: prints with modifiers and escape letters
        (Proofs/RefineMods.v, RefineNodes.v) ---- *)
From DT Require Import Model.Value Model.Tree Model.Mods Model.Interp Spec.Ast Spec.RefEval Spec.Compile
  Proofs.FlatProofs Proofs.RefineBase Proofs.RefineList Proofs.RefineMods Proofs.RefineNodes.

(* the modifier loop on the compiled modifiers against apply_mods: same value (cells read
   through), left to right, each fed the previous result; the first failing modifier ends the
   chain with its error in Ctx.Err *)
Theorem C11_run_mods_refines : forall mods c v n,
  slots_ok c -> cerr c = None -> val_ok (length (bufLC c)) v ->
  match apply_mods (abs c) mods (deref (bufLC c) v) with
  | ChV v' => exists c2 v2, run_mods n c (map c_mod mods) v = ChOk c2 v2 /\ ceq c2 c /\ cerr c2 = None /\
                            v' = deref (bufLC c) v2 /\ val_ok (length (bufLC c)) v2
  | ChE x => exists c2 v2, run_mods n c (map c_mod mods) v = ChOk c2 v2 /\ ceq c2 c /\
                           cerr c2 = Some (err_of_merr x)
  | ChNA => True
  end.
Proof. exact run_mods_ref. Qed.
Print Assumptions C11_run_mods_refines.

(* escape letters are modifiers appended after the '|' modifiers, one per run of equal letters,
   with the run length as argument: on the reference side ... *)
Theorem C11_letters_after_mods : forall e letters mods v,
  print_value e letters mods v <> ChNA ->
  apply_mods e (mods ++ letter_amods (letter_runs letters)) v = print_value e letters mods v.
Proof. exact print_value_amods. Qed.
Print Assumptions C11_letters_after_mods.

(* ... and in the compiled print node *)
Theorem C11_print_node_mods : forall letters path mods pfx sfx raw,
  c_print letters path mods pfx sfx raw =
  NTpl path pfx sfx raw (map c_mod (mods ++ letter_amods (letter_runs letters))).
Proof. exact c_print_amods. Qed.
Print Assumptions C11_print_node_mods.

(* a print with any pure modifiers and letters, prefix/suffix and raw output *)
Theorem C11_print_refines :
  forall flits lookup budget inc rlookup rinc L letters path mods pfx sfx raw,
    node_ref flits lookup budget inc rlookup rinc L
      (c_print letters path mods pfx sfx raw) (APrint letters path mods pfx sfx raw).
Proof. exact print_ref. Qed.
Print Assumptions C11_print_refines.

(* ---- a failing modifier, in the reference semantics (Proofs/SpecFacts.v) ---- *)
From Coq Require Import String.
From DT Require Import Proofs.SpecFacts.

(* nothing is emitted -- not the value, not the prefix, not the suffix -- and there is no signal *)
Theorem C11_failing_modifier_prints_nothing : forall e letters path mods pfx sfx raw v x,
  env_get e path = Some v -> print_value e letters mods v = ChE x ->
  ref_print e letters path mods pfx sfx raw = ([], e, SNone).
Proof. exact failing_modifier_prints_nothing. Qed.
Print Assumptions C11_failing_modifier_prints_nothing.

Theorem C11_failing_modifier_print_item : forall flits rlookup budget rinc e letters path mods pfx sfx raw v x,
  env_get e path = Some v -> print_value e letters mods v = ChE x ->
  ref_eval flits rlookup budget rinc (APrint letters path mods pfx sfx raw) e = ([], e, SNone).
Proof. exact failing_modifier_print_item. Qed.
Print Assumptions C11_failing_modifier_print_item.

Example C11_failing_modifier_example :
  print_value e_loop [] [mkAMod (Sb "default"%string) []] (VInt 5) = ChE MENoArgs /\
  ref_eval [] (fun _ => None) 10 (fun _ _ => None)
           (APrint [] (Sb "n"%string) [mkAMod (Sb "default"%string) []] (Sb "<"%string) (Sb ">"%string) false) e_loop = ([], e_loop, SNone) /\
  ref_eval [] (fun _ => None) 10 (fun _ _ => None)
           (APrint [] (Sb "n"%string) [] (Sb "<"%string) (Sb ">"%string) false) e_loop = (Sb "<5>"%string, e_loop, SNone).
Proof. exact failing_modifier_example. Qed.

(* ---- the parser's side of "letters compose left to right" (Model/Parser.v, Proofs/ParserPieces.v):
        for every table of expressions, the letters in front of "=" become one modifier per run of
        equal letters, in the order written, with the run length as its literal argument -- exactly
        the list the specification-side compiler (and through it the reference semantics) uses ---- *)
From DT Require Import Model.Regex Model.ParserRe Model.Parser Proofs.ParserPieces.

Theorem C11_parser_letters_are_runs : forall (T : retab) s fuel,
  simple_letters s = true -> (List.length s < fuel)%nat ->
  letter_mods T fuel s = c_letters (letter_runs s).
Proof. exact letter_mods_runs. Qed.
Print Assumptions C11_parser_letters_are_runs.

(* two directive strings that do not share a letter at the seam: first all of the first, then all of the second *)
Theorem C11_parser_letters_compose : forall (T : retab) s1 s2 f f1 f2,
  simple_letters s1 = true -> simple_letters s2 = true -> boundary_distinct s1 s2 ->
  (List.length (s1 ++ s2) < f)%nat -> (List.length s1 < f1)%nat -> (List.length s2 < f2)%nat ->
  letter_mods T f (s1 ++ s2) = letter_mods T f1 s1 ++ letter_mods T f2 s2.
Proof. exact letter_mods_app_distinct. Qed.
Print Assumptions C11_parser_letters_compose.

(* an argument list of plain arguments, with any number of blanks (also none) after the commas, is
   stored argument for argument, in order, untouched *)
Theorem C11_parser_plain_arguments : forall (T : retab) (E : penv) l sep,
  forallb plain_arg l = true -> forallb (fun c => beqb c " "%byte) sep = true ->
  extract_args T E (join_args sep l)
  = map (fun a => mkArg [] a (is_static T a) (mem_b a (pe_globals E))) l.
Proof. exact extract_args_plain. Qed.
Print Assumptions C11_parser_plain_arguments.

(* a quoted argument is stored without its quotes, whichever of the three quote characters is used *)
Theorem C11_parser_quoted_argument : forall (T : retab) (E : penv) q a,
  in_set quotes q = true -> quoted_body a = true ->
  extract_args T E (q :: a ++ [q])
  = [mkArg [] a (is_static T (q :: a ++ [q])) (mem_b a (pe_globals E))].
Proof. exact extract_args_quoted_one. Qed.
Print Assumptions C11_parser_quoted_argument.
