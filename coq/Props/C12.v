(* C12 — Parse is total and accepts exactly the properly nested templates.
   This file holds statements only; every proof is an [exact] of a lemma.

   Model/ParserSkel.v mirrors parser.go parseTpl / processCtl (block tags) and
   parser_target.go; Spec/Balanced.v is the stack checker and the grammar. *)
From DT Require Import Model.Bytes Model.ParserSkel Spec.Balanced Proofs.ParserProofs.
From DT Require Import Model.Tree Model.Regex Model.ParserRe Model.Parser Proofs.RegexProofs Proofs.ParserModelProofs Gen.RegexTable.
Local Open Scope byte_scope.

(* ---- Part 1: the scan ---- *)

(* no byte of the source is lost, duplicated or reordered *)
Theorem C12_tokens_partition : forall src toks,
  tokens src = Some toks -> concat (map tok_text toks) = src.
Proof. exact tokens_partition. Qed.
Print Assumptions C12_tokens_partition.

(* raw text is non-empty and has no "{%"; a tag ends at the first "%}" at or after its "{" *)
Theorem C12_tokens_shape : forall src toks,
  tokens src = Some toks -> Forall tok_wf toks.
Proof. exact tokens_wf. Qed.
Print Assumptions C12_tokens_shape.

(* the fuelled scanner never runs out of fuel when fuel > length of the input ... *)
Theorem C12_tokens_fuel : forall fuel src, (length src < fuel)%nat -> scan fuel src <> ScanFuel.
Proof. exact scan_fuel. Qed.
Print Assumptions C12_tokens_fuel.

(* ... any such fuel gives the same answer ... *)
Theorem C12_tokens_fuel_irrelevant : forall f1 f2 src,
  (length src < f1)%nat -> (length src < f2)%nat -> scan f1 src = scan f2 src.
Proof. exact scan_fuel_irrelevant. Qed.
Print Assumptions C12_tokens_fuel_irrelevant.

(* ... so [tokens] (fuel = length + 1) is total and None means ErrUnexpectedEOF, nothing else *)
Theorem C12_tokens_total : forall src,
  scan (S (length src)) src <> ScanFuel /\
  (tokens src = None <-> scan (S (length src)) src = ScanEOF).
Proof. exact tokens_total. Qed.
Print Assumptions C12_tokens_total.

(* a "{%" that is not followed by "%}" is an error, after any prefix whose own tags are
   complete.  The search for "%}" starts at the '%' of "{%", hence the hypothesis is on
   "%" ++ rest: "{%}" IS closed. *)
Theorem C12_unterminated : forall pre toks rest,
  tokens pre = Some toks ->
  ~ occurs2 "%" "}" ("%" :: rest) ->
  tokens (pre ++ "{" :: "%" :: rest) = None.
Proof. exact tokens_unterminated. Qed.
Print Assumptions C12_unterminated.

(* ---- Part 2: nesting ---- *)

(* the counter-and-snapshot descent accepts exactly the Dyck words *)
Theorem C12_nesting : forall sk, parse_skel sk = true <-> balanced sk = true.
Proof. exact nesting. Qed.
Print Assumptions C12_nesting.

(* the stack checker is the grammar  B ::= eps | n B | if B endif B | for B endfor B | switch B endswitch B *)
Theorem C12_balanced_grammar : forall sk, balanced sk = true <-> Balanced sk.
Proof. exact balanced_iff_grammar. Qed.
Print Assumptions C12_balanced_grammar.

(* totality of the descent from ANY snapshot and counter values: fuel > number of tags
   is enough and the returned position never moves backwards *)
Theorem C12_parse_total : forall fuel t p inp, (length inp < fuel)%nat ->
  exists err p' rest, parse_tpl fuel t p inp = Some (err, p', rest)
                      /\ (length rest <= length inp)%nat.
Proof. exact parse_tpl_total. Qed.
Print Assumptions C12_parse_total.

(* ---- both layers: scan, classify each tag, descend ---- *)
Theorem C12_parse : forall (classify : bytes -> tag) (src : bytes),
  parse_ok classify src = true <->
  exists toks, tokens src = Some toks
               /\ concat (map tok_text toks) = src
               /\ balanced (ctl_tags classify toks) = true.
Proof. exact parse_ok_spec. Qed.
Print Assumptions C12_parse.

(* ---- Part 3: the parser itself (Model/Parser.v: bytes -> tree), for EVERY table of expressions
        and every content of the registries.  The table of the code as it is now is regenerated
        from the source on every run; the correspondence evaluates exactly this function. ---- *)

(* Parse is total: the model never runs out of fuel, whatever the source *)
Theorem C12_parser_total : forall (T : retab) (E : penv) keep src, parse T E keep src <> PFuel.
Proof. exact parse_total. Qed.
Print Assumptions C12_parser_total.

(* building the nodes changes nothing about acceptance: the full parser and the nesting model of
   Part 2 agree on the error flag, the counters and the position, from any snapshot *)
Theorem C12_parser_refines_nesting : forall (T : retab) (E : penv) f t p inp acc, (length inp < f)%nat ->
  match parse_nodes T E f t p inp acc, parse_tpl f t p (ctl_tags (classify T E) inp) with
  | Some (err, p', rest, _), Some (err', p'', rest') =>
      err = err' /\ p' = p'' /\ rest' = ctl_tags (classify T E) rest
  | _, _ => False
  end.
Proof. exact parse_nodes_skel. Qed.
Print Assumptions C12_parser_refines_nesting.

(* the property itself, for the parser model: a cleaned source is accepted iff its tags are all
   closed and the block tags -- as this parser classifies them -- are properly nested *)
Theorem C12_parser_accepts_iff_nested : forall (T : retab) (E : penv) src,
  (exists t, parse_clean T E src = POk t) <->
  exists toks, tokens src = Some toks /\ concat (map tok_text toks) = src
               /\ balanced (ctl_tags (classify T E) toks) = true.
Proof. exact parse_accepts_iff_balanced. Qed.
Print Assumptions C12_parser_accepts_iff_nested.

(* the matcher under the tag classification is a matcher: it answers "match" exactly when some
   substring belongs to the expression (declarative semantics Mt), and the match it reports
   starts at the leftmost position where one exists *)
Theorem C12_matcher_spec : forall r s, re_ok r = true ->
  (re_match r s = true <-> exists a x b, s = a ++ x ++ b /\ Mt r (length a) x b).
Proof. exact re_match_spec. Qed.
Print Assumptions C12_matcher_spec.

Theorem C12_matcher_leftmost : forall r s cs, re_ok r = true -> re_find r s = Some cs ->
  exists a b, cap_get cs 0 = Some (a, b) /\ (a <= b)%nat /\ (b <= length s)%nat /\
              Mt r a (slice s a b) (skipn b s) /\
              (forall a' x rest, (a' < a)%nat -> skipn a' s = x ++ rest -> ~ Mt r a' x rest).
Proof. exact re_find_leftmost. Qed.
Print Assumptions C12_matcher_leftmost.

(* the expressions of the pinned source satisfy the matcher's side condition (re-proved for the
   regenerated table on every run: GenNow.TableOk.now_table_ok) *)
Example C12_pinned_table_ok : retab_ok pinned = true.
Proof. vm_compute. reflexivity. Qed.

Example C12_parser_examples :
  parse pinned (mkPenv [] [] []) false ["{";"%";" ";"i";"f";" ";"a";" ";"=";"=";" ";"1";" ";"%";"}";"x"] = PErr
  /\ parse pinned (mkPenv [] [] []) false ["a";"{";"%";"=";" ";"x";" ";"%";"}";"b"]
      = POk [NRaw ["a"]; NTpl ["x"] [] [] false []; NRaw ["b"]].
Proof. split; vm_compute; reflexivity. Qed.

(* ---- non-vacuity ---- *)

(* a{%=x%}{%}b : raw, tag, the overlapping three-byte tag, raw *)
Example C12_example_tokens :
  tokens ["a"; "{"; "%"; "="; "x"; "%"; "}"; "{"; "%"; "}"; "b"]
  = Some [TRawT ["a"]; TCtl ["="; "x"]; TCtlOverlap; TRawT ["b"]].
Proof. reflexivity. Qed.

(* unterminated tag; "%}" before the "{%" does not close it *)
Example C12_example_unterminated :
  tokens ["a"; "%"; "}"; "{"; "%"; "="; "x"; "%"] = None
  /\ tokens ["{"; "%"] = None.
Proof. split; reflexivity. Qed.

Example C12_example_rejected :
  parse_skel [OpenIf; Leaf] = false                               (* missing closer *)
  /\ parse_skel [Leaf; EndIf] = false                             (* surplus closer *)
  /\ parse_skel [EndIf; OpenIf] = false                           (* surplus closer, counter restored later *)
  /\ parse_skel [OpenFor; OpenIf; EndFor; EndIf] = false          (* crossed closers *)
  /\ parse_skel [OpenIf; OpenFor; EndIf; EndFor] = false
  /\ parse_skel [OpenIf; EndFor; OpenFor; EndIf] = false
  /\ parse_skel [OpenIf; Bad; EndIf] = false.                     (* erroneous tag *)
Proof. repeat split; reflexivity. Qed.

(* depth-3 mixed nest with neutral tags at every level *)
Example C12_example_accepted :
  parse_skel [Leaf; OpenFor; OpenIf; Leaf; OpenSwitch; CaseT; Leaf; DefaultT; EndSwitch; ElseT;
              Leaf; EndIf; EndFor; OpenIf; EndIf; Leaf] = true.
Proof. reflexivity. Qed.
