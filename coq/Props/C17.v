(* C17 — a failing output writer is always reported to the caller. *)
From DT Require Import Model.Bytes Model.Value Model.Tree Model.Interp Proofs.InterpFacts.

Theorem C17_write_reports : forall w b, snd (wr_write w b) = false -> w_failed (fst (wr_write w b)) = true.
Proof. exact wr_write_reports. Qed.
Print Assumptions C17_write_reports.
Theorem C17_failed_sticky : forall w b k, w_fail w = Some k -> (k <= w_n w)%nat ->
  snd (wr_write w b) = false /\ w_failed (fst (wr_write w b)) = true.
Proof. exact wr_write_failed_sticky. Qed.
Print Assumptions C17_failed_sticky.
