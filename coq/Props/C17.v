(* C17 — a failing output writer is always reported to the caller. *)
From DT Require Import Model.Bytes Model.Value Model.Tree Model.Interp Proofs.InterpFacts.

Theorem C17_write_reports : forall w b, snd (wr_write w b) = false -> w_failed (fst (wr_write w b)) = true.
Proof. exact wr_write_reports. Qed.
Print Assumptions C17_write_reports.
Theorem C17_failed_sticky : forall w b k, w_fail w = Some k -> (k <= w_n w)%nat ->
  snd (wr_write w b) = false /\ w_failed (fst (wr_write w b)) = true.
Proof. exact wr_write_failed_sticky. Qed.
Print Assumptions C17_failed_sticky.

(* ---- the interpreter level: every tree, every context state, every budget ---- *)
From DT Require Import Proofs.FaultProofs.

(* whenever the writer has failed during the evaluation of a node, the node returns an error ... *)
Theorem C17_fault_reported :
  forall flits lookup budget inc n c w c' w' e,
    (forall t c0 r, inc t c0 = Some r -> True) ->
    w_failed w = false ->
    write_node flits lookup budget inc n c w = Out c' w' e ->
    w_failed w' = true -> e <> None.
Proof. exact fault_node_reported. Qed.
Print Assumptions C17_fault_reported.

(* ... and that error is the writer error, never a control signal (break, continue, exit) that an
   enclosing construct would swallow; no hypothesis on the include renderer is needed *)
Theorem C17_fault_is_writer_error :
  forall flits lookup budget inc n c w c' w' e,
    w_failed w = false ->
    write_node flits lookup budget inc n c w = Out c' w' e ->
    w_failed w' = true -> e = Some EWriter.
Proof. exact fault_node. Qed.
Print Assumptions C17_fault_is_writer_error.

Theorem C17_nodes_fault_is_writer_error :
  forall flits lookup budget inc l c w c' w' e,
    w_failed w = false ->
    run_nodes flits lookup budget inc l c w = Out c' w' e ->
    w_failed w' = true -> e = Some EWriter.
Proof. exact fault_nodes. Qed.
Print Assumptions C17_nodes_fault_is_writer_error.

(* the template level turns the exit signal into success: a writer fault is not affected *)
Theorem C17_tpl_fault_is_writer_error :
  forall flits lookup budget inc t c w c' w' e,
    w_failed w = false ->
    write_tpl flits lookup budget inc t c w = Out c' w' e ->
    w_failed w' = true -> e = Some EWriter.
Proof. exact fault_tpl. Qed.
Print Assumptions C17_tpl_fault_is_writer_error.

Theorem C17_render_reports :
  forall flits lookup budget depth t c w c' w' e,
    w_failed w = false ->
    render flits lookup budget depth t c w = Out c' w' e ->
    w_failed w' = true -> e <> None.
Proof. exact fault_render_reported. Qed.
Print Assumptions C17_render_reports.

Theorem C17_render_fault_is_writer_error :
  forall flits lookup budget depth t c w c' w' e,
    w_failed w = false ->
    render flits lookup budget depth t c w = Out c' w' e ->
    w_failed w' = true -> e = Some EWriter.
Proof. exact fault_render. Qed.
Print Assumptions C17_render_fault_is_writer_error.

(* what a failing writer accepted is a prefix of what a healthy writer receives: the fault at the
   k-th Write call (which still takes s bytes) cuts the output, it does not alter it *)
Theorem C17_prefix :
  forall flits lookup budget depth t c k s cf wf ef ch wh eh,
    render flits lookup budget depth t c (wr_new (Some k) s) = Out cf wf ef ->
    render flits lookup budget depth t c (wr_new None 0) = Out ch wh eh ->
    exists rest, wr_bytes wh = wr_bytes wf ++ rest.
Proof. exact prefix_render. Qed.
Print Assumptions C17_prefix.

(* a run whose writer never reaches its fault is the healthy run: same context, same error, same bytes *)
Theorem C17_no_fault_same :
  forall flits lookup budget depth t c wf0 wh0 cf wf ef,
    sync wf0 wh0 ->
    render flits lookup budget depth t c wf0 = Out cf wf ef -> w_failed wf = false ->
    exists wh, render flits lookup budget depth t c wh0 = Out cf wh ef /\ wr_bytes wh = wr_bytes wf.
Proof. exact no_fault_same. Qed.
Print Assumptions C17_no_fault_same.

(* a healthy writer is never marked failed and only grows *)
Theorem C17_healthy_render :
  forall flits lookup budget depth t c w c' w' e,
    w_fail w = None -> w_failed w = false ->
    render flits lookup budget depth t c w = Out c' w' e ->
    w_failed w' = false /\ exists rest, wr_bytes w' = wr_bytes w ++ rest.
Proof. exact healthy_render. Qed.
Print Assumptions C17_healthy_render.

(* non-vacuity: the second Write fails after one byte, inside a for-else branch whose error
   travels through Ctx.Err; the writer error comes out and "abc" is a prefix of "abcdef" *)
Example C17_example_fault :
  let t := [NRaw ["a";"b"]%byte;
            NLoopRange [] ["v"]%byte ["x"]%byte []
              [NBlock BTrue no_case [NRaw ["z"]%byte];
               NBlock BFalse no_case [NRaw ["c";"d"]%byte]];
            NRaw ["e";"f"]%byte] in
  (match render [] (fun _ => None) 8 2 t ctx_new (wr_new (Some 2%nat) 1) with
   | Out _ w e => (wr_bytes w, w_failed w, e)
   | _ => ([], false, None)
   end) = (["a";"b";"c"]%byte, true, Some EWriter) /\
  (match render [] (fun _ => None) 8 2 t ctx_new (wr_new None 0) with
   | Out _ w e => (wr_bytes w, w_failed w, e)
   | _ => ([], true, None)
   end) = (["a";"b";"c";"d";"e";"f"]%byte, false, None).
Proof. split; reflexivity. Qed.

(* ---- if-ok blocks are covered: the theorems above quantify over every node, NCondOK included
        (no hypothesis excludes it).  The instance, spelled out: a writer that fails inside an
        if-ok block -- in the header's branch or anywhere below -- is reported by the block ---- *)
Theorem C17_fault_inside_ifok_is_writer_error :
  forall flits lookup budget inc k ci child c w c' w' e,
    w_failed w = false ->
    write_node flits lookup budget inc (NCondOK k ci child) c w = Out c' w' e ->
    w_failed w' = true -> e = Some EWriter.
Proof. exact fault_node_condok. Qed.
Print Assumptions C17_fault_inside_ifok_is_writer_error.

From DT Require Import Model.Mods Spec.Ast Spec.Compile Proofs.RefineFindings.
Example C17_fault_inside_ifok_example :
  match run_nodes [] nolook 100 noinc (compile_tpl t_exit_in_ifok) c_ifok (wr_new (Some 1%nat) 0) with
  | Out _ w e => (wr_bytes w, e, w_failed w) = ([], Some EWriter, true)
  | _ => False
  end.
Proof. exact writer_fault_in_ifok_reported. Qed.
