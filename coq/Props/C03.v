(* C03 — loops run once per element, with separators between and else iff empty. *)
From DT Require Import Model.Bytes Model.Value Model.Tree Model.Interp Proofs.InterpFacts.

(* no iteration when the bound comparison fails at the initial value: exactly the else branch *)
Theorem C03_cloop_no_iteration : forall bodyf elsef has_else cnt sep condOp cntOp limv idx saved fuel c w cur,
  cloop_allows condOp cur limv = Some false ->
  cloop_iter bodyf elsef has_else cnt sep condOp cntOp limv idx saved fuel c w 0 cur
  = cloop_finish elsef has_else cnt idx saved c w 0.
Proof. exact cloop_no_iteration. Qed.
Print Assumptions C03_cloop_no_iteration.

Theorem C03_rloop_no_elements : forall bodyf elsef has_else key val sep saved c w,
  rloop_each bodyf elsef has_else key val sep saved [] c w 0 0 = rloop_finish elsef has_else saved c w 0.
Proof. exact rloop_no_elements. Qed.
Print Assumptions C03_rloop_no_elements.

(* ---- refinement of the reference semantics: loops, and the central theorem
        (Proofs/RefineLoops.v, RefineMain.v) ---- *)
From Coq Require Import String.
From DT Require Import Model.Mods Spec.Ast Spec.RefEval Spec.Compile Proofs.FlatProofs Proofs.RefineBase
  Proofs.RefineList Proofs.RefineNodes Proofs.RefineLoops Proofs.RefineMain Proofs.RefineFindings.

(* counter loop: one iteration per counter value while the bound comparison holds and no break is
   pending, separator between iterations, else iff no iteration, the loop variable (a live cell in
   the interpreter) reads as the counter, break depth bookkeeping; same budget on both sides *)
Theorem C03_cloop_refines :
  forall flits lookup budget inc rlookup rinc L var init lim (initlit limlit : bool) cop step sep body els (he : bool),
    (forall idx : nat, items_ok flits lookup budget inc rlookup rinc false ((idx, var) :: L) body) ->
    (he = true -> items_ok flits lookup budget inc rlookup rinc true L els) ->
    node_ref flits lookup budget inc rlookup rinc L
      (NLoopCount var init lim sep initlit limlit cop step
         (loop_children (merge_raws (c_list compile body)) (merge_raws (c_list compile els)) he))
      (ACLoop var init lim initlit limlit cop step sep body els he).
Proof. exact cloop_node_ref. Qed.
Print Assumptions C03_cloop_refines.

(* range loop: one iteration per element the inspector delivers, in order *)
Theorem C03_rloop_refines :
  forall flits lookup budget inc rlookup rinc L key val src sep body els (he : bool),
    items_ok flits lookup budget inc rlookup rinc false L body ->
    (he = true -> items_ok flits lookup budget inc rlookup rinc true L els) ->
    node_ref flits lookup budget inc rlookup rinc L
      (NLoopRange key val src sep
         (loop_children (merge_raws (c_list compile body)) (merge_raws (c_list compile els)) he))
      (ARLoop key val src sep body els he).
Proof. exact rloop_node_ref. Qed.
Print Assumptions C03_rloop_refines.

(* the central theorem, by structural induction over the AST: every supported item, as a template
   of its own ... *)
Theorem C03_interp_refines_ref :
  forall flits lookup budget inc rlookup rinc,
    lookup_ok lookup rlookup -> (forall L, inc_ok inc rlookup rinc L) ->
    forall a L, wf_supported true a = true -> refines flits lookup budget inc rlookup rinc L a.
Proof. exact interp_refines_ref. Qed.
Print Assumptions C03_interp_refines_ref.

(* ... and every template of supported items *)
Theorem C03_tpl_refines_ref :
  forall flits lookup budget inc rlookup rinc,
    lookup_ok lookup rlookup -> (forall L, inc_ok inc rlookup rinc L) ->
    forall items L, forallb (wf_supported true) items = true ->
    forall c w, Inv L c -> w_fail w = None ->
    forall o e' s, ref_items flits rlookup budget rinc items (abs c) = (o, e', s) -> sig_dom s ->
    exists c' w' eo, run_nodes flits lookup budget inc (compile_tpl items) c w = Out c' w' eo /\
                     wr_bytes w' = wr_bytes w ++ o /\ w_fail w' = None /\ post L s c' e' /\ sig_rel s eo.
Proof. exact tpl_refines_ref. Qed.
Print Assumptions C03_tpl_refines_ref.

(* the node of every supported single-node construct *)
Theorem C03_node_refines_ref :
  forall flits lookup budget inc rlookup rinc,
    lookup_ok lookup rlookup -> (forall L, inc_ok inc rlookup rinc L) ->
    forall a n L, compile a = [n] -> is_raw n = false -> wf_supported false a = true ->
    node_ref flits lookup budget inc rlookup rinc L n a.
Proof. exact node_refines_ref. Qed.
Print Assumptions C03_node_refines_ref.

(* without the restrictions the statement is false *)
Theorem C03_unrestricted_refuted : ~ refines_full_statement.
Proof. exact refines_refuted. Qed.
Print Assumptions C03_unrestricted_refuted.

(* the restrictions are not vacuous: a template using every supported construct, on a context
   with a struct variable *)
Example C03_sample_supported : forallb (wf_supported true) t_sample = true.
Proof. vm_compute. reflexivity. Qed.
Example C03_sample_context : Inv [] c_sample.
Proof. exact Inv_c_sample. Qed.
Example C03_sample_agrees :
  mout t_sample c_sample = Some (B "Hi BOB: 0,1,2 a|b&lt; adult B bob nonick 42/7"%string, Some EInterrupt) /\
  rout t_sample c_sample = (B "Hi BOB: 0,1,2 a|b&lt; adult B bob nonick 42/7"%string, SExit).
Proof. vm_compute. split; reflexivity. Qed.
