(* C03 — loops run once per element, with separators between and else iff empty. *)
From DT Require Import Model.Bytes Model.Value Model.Tree Model.Interp Proofs.InterpFacts.

(* no iteration when the bound comparison fails at the initial value: exactly the else branch *)
Theorem C03_cloop_no_iteration : forall bodyf elsef has_else cnt sep condOp cntOp limv idx saved fuel c w cur,
  cloop_allows condOp cur limv = Some false ->
  cloop_iter bodyf elsef has_else cnt sep condOp cntOp limv idx saved fuel c w 0 cur
  = cloop_finish elsef has_else cnt idx saved c w 0.
Proof. exact cloop_no_iteration. Qed.
Print Assumptions C03_cloop_no_iteration.

Theorem C03_rloop_no_elements : forall bodyf elsef has_else key val sep saved c w,
  rloop_each bodyf elsef has_else key val sep saved [] c w 0 0 = rloop_finish elsef has_else saved c w 0.
Proof. exact rloop_no_elements. Qed.
Print Assumptions C03_rloop_no_elements.

(* ---- refinement of the reference semantics: loops, and the central theorem
        (Proofs/RefineLoops.v, RefineMain.v) ---- *)
From Coq Require Import String.
From DT Require Import Model.Mods Spec.Ast Spec.RefEval Spec.Compile Proofs.FlatProofs Proofs.RefineBase
  Proofs.RefineList Proofs.RefineNodes Proofs.RefineLoops Proofs.RefineMain Proofs.RefineFindings.

(* counter loop: one iteration per counter value while the bound comparison holds and no break is
   pending, separator between iterations, else iff no iteration, the loop variable (a live cell in
   the interpreter) reads as the counter, break depth bookkeeping; same budget on both sides *)
Theorem C03_cloop_refines :
  forall flits lookup budget inc rlookup rinc L var init lim (initlit limlit : bool) cop step sep body els (he : bool),
    (forall idx : nat, items_ok flits lookup budget inc rlookup rinc false ((idx, var) :: L) body) ->
    (he = true -> items_ok flits lookup budget inc rlookup rinc true L els) ->
    node_ref flits lookup budget inc rlookup rinc L
      (NLoopCount var init lim sep initlit limlit cop step
         (loop_children (merge_raws (c_list compile body)) (merge_raws (c_list compile els)) he))
      (ACLoop var init lim initlit limlit cop step sep body els he).
Proof. exact cloop_node_ref. Qed.
Print Assumptions C03_cloop_refines.

(* range loop: one iteration per element the inspector delivers, in order *)
Theorem C03_rloop_refines :
  forall flits lookup budget inc rlookup rinc L key val src sep body els (he : bool),
    items_ok flits lookup budget inc rlookup rinc false L body ->
    (he = true -> items_ok flits lookup budget inc rlookup rinc true L els) ->
    node_ref flits lookup budget inc rlookup rinc L
      (NLoopRange key val src sep
         (loop_children (merge_raws (c_list compile body)) (merge_raws (c_list compile els)) he))
      (ARLoop key val src sep body els he).
Proof. exact rloop_node_ref. Qed.
Print Assumptions C03_rloop_refines.

(* the central theorem, by structural induction over the AST: every supported item, as a template
   of its own ... *)
Theorem C03_interp_refines_ref :
  forall flits lookup budget inc rlookup rinc,
    lookup_ok lookup rlookup -> (forall L, inc_ok inc rlookup rinc L) ->
    forall a L, wf_supported true a = true -> refines flits lookup budget inc rlookup rinc L a.
Proof. exact interp_refines_ref. Qed.
Print Assumptions C03_interp_refines_ref.

(* ... and every template of supported items *)
Theorem C03_tpl_refines_ref :
  forall flits lookup budget inc rlookup rinc,
    lookup_ok lookup rlookup -> (forall L, inc_ok inc rlookup rinc L) ->
    forall items L, forallb (wf_supported true) items = true ->
    forall c w, Inv L c -> w_fail w = None ->
    forall o e' s, ref_items flits rlookup budget rinc items (abs c) = (o, e', s) -> sig_dom s ->
    exists c' w' eo, run_nodes flits lookup budget inc (compile_tpl items) c w = Out c' w' eo /\
                     wr_bytes w' = wr_bytes w ++ o /\ w_fail w' = None /\ post L s c' e' /\ sig_rel s eo.
Proof. exact tpl_refines_ref. Qed.
Print Assumptions C03_tpl_refines_ref.

(* the node of every supported single-node construct *)
Theorem C03_node_refines_ref :
  forall flits lookup budget inc rlookup rinc,
    lookup_ok lookup rlookup -> (forall L, inc_ok inc rlookup rinc L) ->
    forall a n L, compile a = [n] -> is_raw n = false -> wf_supported false a = true ->
    node_ref flits lookup budget inc rlookup rinc L n a.
Proof. exact node_refines_ref. Qed.
Print Assumptions C03_node_refines_ref.

(* without the restrictions the statement is false *)
Theorem C03_unrestricted_refuted : ~ refines_full_statement.
Proof. exact refines_refuted. Qed.
Print Assumptions C03_unrestricted_refuted.

(* the restrictions are not vacuous: a template using every supported construct, on a context
   with a struct variable *)
Example C03_sample_supported : forallb (wf_supported true) t_sample = true.
Proof. vm_compute. reflexivity. Qed.
Example C03_sample_context : Inv [] c_sample.
Proof. exact Inv_c_sample. Qed.
Example C03_sample_agrees :
  mout t_sample c_sample = Some (B "Hi BOB: 0,1,2 a|b&lt; adult B bob nonick 42/7"%string, Some EInterrupt) /\
  rout t_sample c_sample = (B "Hi BOB: 0,1,2 a|b&lt; adult B bob nonick 42/7"%string, SExit).
Proof. vm_compute. split; reflexivity. Qed.

(* ---- fuel is only a termination device (Proofs/FuelProofs.v) ---- *)
From DT Require Import Proofs.FuelProofs Proofs.RefineRender.
Local Open Scope Z_scope.

(* an Out result is stable under more budget (and under an include renderer that answers at least
   as often); only "out of fuel" / "unsupported" may change *)
Theorem C03_budget_monotone_node : forall flits lookup b b' inc inc' n c w c' w' e,
  (b <= b')%nat -> inc_le inc inc' ->
  write_node flits lookup b inc n c w = Out c' w' e -> write_node flits lookup b' inc' n c w = Out c' w' e.
Proof. exact budget_monotone_node. Qed.
Print Assumptions C03_budget_monotone_node.

Theorem C03_budget_monotone_nodes : forall flits lookup b b' inc inc' l c w c' w' e,
  (b <= b')%nat -> inc_le inc inc' ->
  run_nodes flits lookup b inc l c w = Out c' w' e -> run_nodes flits lookup b' inc' l c w = Out c' w' e.
Proof. exact budget_monotone_nodes. Qed.
Print Assumptions C03_budget_monotone_nodes.

Theorem C03_budget_monotone_tpl : forall flits lookup b b' inc inc' t c w c' w' e,
  (b <= b')%nat -> inc_le inc inc' ->
  write_tpl flits lookup b inc t c w = Out c' w' e -> write_tpl flits lookup b' inc' t c w = Out c' w' e.
Proof. exact budget_monotone_tpl. Qed.
Print Assumptions C03_budget_monotone_tpl.

(* only counter loops and includes can run out of fuel: a tree without them never does, whatever
   the budget (even 0) and whatever the include renderer *)
Theorem C03_out_of_fuel_only_from_loops : forall flits lookup budget inc n c w,
  write_node flits lookup budget inc n c w = OutOfFuel -> fuel_free n = false.
Proof. exact out_of_fuel_only_from_loops. Qed.
Print Assumptions C03_out_of_fuel_only_from_loops.

Theorem C03_out_of_fuel_only_from_loops_nodes : forall flits lookup budget inc l c w,
  run_nodes flits lookup budget inc l c w = OutOfFuel -> forallb fuel_free l = false.
Proof. exact out_of_fuel_only_from_loops_nodes. Qed.
Print Assumptions C03_out_of_fuel_only_from_loops_nodes.

(* a counter loop with an order comparison and the step in its direction, a fuel-free body and
   else branch, and more budget than trips left at its (evaluated) bounds never runs out of fuel *)
Theorem C03_loop_trip_bound :
  forall flits lookup budget inc cnt init lim sep (initS limS : bool) condOp cntOp child c w,
    forallb fuel_free child = true ->
    (let cz := set_brkD 0 (set_cerr None c) in
     let '(c1, v0) := cloop_range cz initS init in
     let '(c2, limv) := cloop_range c1 limS lim in
     match trips_left condOp cntOp v0 limv with Some d => (Z.to_nat d < budget)%nat | None => False end) ->
    write_node flits lookup budget inc (NLoopCount cnt init lim sep initS limS condOp cntOp child) c w <> OutOfFuel.
Proof. exact loop_trip_bound. Qed.
Print Assumptions C03_loop_trip_bound.

(* the loop driver itself: more fuel than trips left is enough ... *)
Theorem C03_cloop_iter_bound :
  forall bodyf elsef, (forall c w, NFi (bodyf c w)) -> (forall c w, NF (elsef c w)) ->
  forall he cnt sep condOp cntOp limv idx saved fuel c w trips cur d,
    trips_left condOp cntOp cur limv = Some d -> (Z.to_nat d < fuel)%nat ->
    NF (cloop_iter bodyf elsef he cnt sep condOp cntOp limv idx saved fuel c w trips cur).
Proof. exact cloop_iter_bound. Qed.
Print Assumptions C03_cloop_iter_bound.

(* ... more fuel never changes its result ... *)
Theorem C03_cloop_iter_monotone :
  forall bodyf bodyg elsef elseg,
    (forall c w, le_it (bodyf c w) (bodyg c w)) -> (forall c w, le_out (elsef c w) (elseg c w)) ->
    forall he cnt sep condOp cntOp limv idx saved fuel fuel' c w trips cur,
      (fuel <= fuel')%nat ->
      le_out (cloop_iter bodyf elsef he cnt sep condOp cntOp limv idx saved fuel c w trips cur)
             (cloop_iter bodyg elseg he cnt sep condOp cntOp limv idx saved fuel' c w trips cur).
Proof. exact cloop_iter_le. Qed.
Print Assumptions C03_cloop_iter_monotone.

(* ... and fuel 0 is hit exactly when another trip is due *)
Theorem C03_cloop_iter_no_fuel :
  forall bodyf elsef, (forall c w, NF (elsef c w)) ->
  forall he cnt sep condOp cntOp limv idx saved c w trips cur,
    cloop_iter bodyf elsef he cnt sep condOp cntOp limv idx saved 0 c w trips cur = OutOfFuel <->
    exists a, cloop_allows condOp cur limv = Some a /\ a && (brkD c =? 0) = true.
Proof. exact cloop_iter_no_fuel. Qed.
Print Assumptions C03_cloop_iter_no_fuel.

(* the reference semantics is monotone in the same sense: a result inside its domain is stable *)
Theorem C03_ref_eval_monotone : forall flits rlookup b b' rinc rinc' a e o e1 s,
  (b <= b')%nat -> rinc_le rinc rinc' ->
  ref_eval flits rlookup b rinc a e = (o, e1, s) -> s <> SNA -> ref_eval flits rlookup b' rinc' a e = (o, e1, s).
Proof. exact ref_eval_monotone. Qed.
Print Assumptions C03_ref_eval_monotone.

Theorem C03_ref_items_monotone : forall flits rlookup b b' rinc rinc' l e o e1 s,
  (b <= b')%nat -> rinc_le rinc rinc' ->
  ref_items flits rlookup b rinc l e = (o, e1, s) -> s <> SNA -> ref_items flits rlookup b' rinc' l e = (o, e1, s).
Proof. exact ref_items_monotone. Qed.
Print Assumptions C03_ref_items_monotone.

(* refinement composed with monotonicity: if the reference semantics answers at budget b, the
   model answers Out at every budget b' >= b, and the two agree *)
Theorem C03_refines_any_larger_budget : forall flits lookup inc rlookup rinc,
  lookup_ok lookup rlookup -> (forall L, inc_ok inc rlookup rinc L) ->
  forall b b' items L, (b <= b')%nat -> forallb (wf_supported true) items = true ->
  forall c w, Inv L c -> w_fail w = None ->
  forall o e' s, ref_items flits rlookup b rinc items (abs c) = (o, e', s) -> sig_dom s ->
  exists c' w' eo, run_nodes flits lookup b' inc (compile_tpl items) c w = Out c' w' eo /\
                   wr_bytes w' = wr_bytes w ++ o /\ w_fail w' = None /\ post L s c' e' /\ sig_rel s eo.
Proof. exact refines_any_larger_budget. Qed.
Print Assumptions C03_refines_any_larger_budget.

Theorem C03_refines_agree_at_larger_budget : forall flits lookup inc rlookup rinc,
  lookup_ok lookup rlookup -> (forall L, inc_ok inc rlookup rinc L) ->
  forall b b' items L, (b <= b')%nat -> forallb (wf_supported true) items = true ->
  forall c w, Inv L c -> w_fail w = None ->
  forall o e' s, ref_items flits rlookup b rinc items (abs c) = (o, e', s) -> sig_dom s ->
  forall c' w' eo, run_nodes flits lookup b' inc (compile_tpl items) c w = Out c' w' eo ->
  wr_bytes w' = wr_bytes w ++ o /\ w_fail w' = None /\ post L s c' e' /\ sig_rel s eo.
Proof. exact refines_agree_at_larger_budget. Qed.
Print Assumptions C03_refines_agree_at_larger_budget.

Example C03_budget_example :
  run_nodes [] (fun _ => None) 4 (fun _ _ => None) t_five ctx_new (wr_new None 0) = OutOfFuel /\
  (match run_nodes [] (fun _ => None) 6 (fun _ _ => None) t_five ctx_new (wr_new None 0) with
   | Out _ w None => wr_bytes w = ["0";",";"1";",";"2";",";"3";",";"4"]%byte
   | _ => False
   end) /\
  run_nodes [] (fun _ => None) 60 (fun _ _ => None) t_five ctx_new (wr_new None 0) =
  run_nodes [] (fun _ => None) 6 (fun _ _ => None) t_five ctx_new (wr_new None 0) /\
  forallb fuel_free t_five = false /\
  forallb fuel_free [NRaw ["a"%byte]; NCond (mkCond ["x"%byte] ["1"%byte] false true OpEq [] [] LcNone) [NBlock BTrue no_case [NExit]]] = true.
Proof. exact budget_example. Qed.

(* ---- index paths inside counting loops (Proofs/SpecFacts.v) ---- *)
From DT Require Import Proofs.SpecFacts.

(* inside a counting loop  pre[i]post  reads as  pre.<text of i>post : one substitution, of the
   first bracket pair; the rewritten path is looked up as it stands *)
Theorem C03_index_path : forall e pre i post v t,
  e_qb e = true ->
  no_byte b_lbr pre = true -> no_byte b_rbr pre = true -> no_byte b_rbr i = true ->
  env_get_plain e i = v -> v <> VNil -> text_of [] v = Some t ->
  env_get e (pre ++ [b_lbr] ++ i ++ [b_rbr] ++ post) = Some (env_get_plain e (pre ++ ["."%byte] ++ t ++ post)).
Proof. exact index_path_ref. Qed.
Print Assumptions C03_index_path.

Theorem C03_index_path_int : forall e pre i post n,
  e_qb e = true ->
  no_byte b_lbr pre = true -> no_byte b_rbr pre = true -> no_byte b_rbr i = true ->
  env_get_plain e i = VInt n ->
  env_get e (pre ++ [b_lbr] ++ i ++ [b_rbr] ++ post) = Some (env_get_plain e (pre ++ ["."%byte] ++ print_Z n ++ post)).
Proof. exact index_path_int. Qed.
Print Assumptions C03_index_path_int.

(* with no further opening bracket after the index it reads exactly like the dotted path ... *)
Theorem C03_index_path_int_dotted : forall e pre i post n,
  e_qb e = true ->
  no_byte b_lbr pre = true -> no_byte b_rbr pre = true -> no_byte b_rbr i = true -> no_byte b_lbr post = true ->
  env_get_plain e i = VInt n ->
  env_get e (pre ++ [b_lbr] ++ i ++ [b_rbr] ++ post) = env_get e (pre ++ ["."%byte] ++ print_Z n ++ post).
Proof. exact index_path_int_dotted. Qed.
Print Assumptions C03_index_path_int_dotted.

(* ... but not in general: only the first bracket pair is substituted (g[i][j] vs g.1[j]) *)
Theorem C03_index_path_two_brackets_refuted : ~ index_path_two_brackets_full_statement.
Proof. exact index_path_two_brackets_refuted. Qed.
Print Assumptions C03_index_path_two_brackets_refuted.

(* outside counting loops the brackets are not rewritten *)
Theorem C03_no_index_outside_loops : forall e path, e_qb e = false -> env_get e path = Some (env_get_plain e path).
Proof. exact no_index_outside_loops. Qed.
Print Assumptions C03_no_index_outside_loops.

(* the interpreter: Ctx.get with the flag the counter loop sets *)
Theorem C03_index_path_model : forall c pre i post v t,
  chQB c = true ->
  no_byte b_lbr pre = true -> no_byte b_rbr pre = true -> no_byte b_rbr i = true ->
  gp_val c i = v -> v <> VNil -> text_of (bufLC c) v = Some t ->
  ctx_get c (pre ++ [b_lbr] ++ i ++ [b_rbr] ++ post) = (set_cerr None c, gp_val c (pre ++ ["."%byte] ++ t ++ post)).
Proof. exact index_path_model. Qed.
Print Assumptions C03_index_path_model.

Theorem C03_no_index_outside_loops_model : forall c path,
  chQB c = false -> ctx_get c path = (set_cerr None c, gp_val c path).
Proof. exact no_index_outside_loops_model. Qed.
Print Assumptions C03_no_index_outside_loops_model.

Example C03_index_path_example :
  env_get e_users (Sb "users[i].name"%string) = Some (VStr (Sb "bob"%string)) /\
  env_get e_users (Sb "users.1.name"%string) = Some (VStr (Sb "bob"%string)) /\
  env_get (set_eqb false e_users) (Sb "users[i].name"%string) = Some VNil.
Proof. exact index_path_example. Qed.
Example C03_index_path_second_bracket_example :
  env_get e_grid (Sb "g[i][j]"%string) = Some VNil /\ env_get e_grid (Sb "g.1[j]"%string) = Some (VStr (Sb "c"%string)).
Proof. exact index_path_second_bracket. Qed.
Example C03_index_path_model_example :
  snd (ctx_get c_users (Sb "users[i].name"%string)) = VStr (Sb "bob"%string) /\
  snd (ctx_get (set_chQB false c_users) (Sb "users[i].name"%string)) = VNil.
Proof. exact index_path_model_example. Qed.

(* ---- the parser's side of "else iff empty" (Model/Parser.v, Proofs/ParserPieces.v): what stands
        between the loop tag and its end tag is split at the else tag into body and else branch;
        an else tag with nothing behind it is an EMPTY else branch (before the repair of splitNodes
        the else tag stayed in the body as a node the renderer does not know), no else tag means no
        else branch.  [loop_children] is the specification-side compiler's. ---- *)
From DT Require Import Model.Regex Model.ParserRe Model.Parser Proofs.ParserPieces.

Theorem C03_parser_loop_with_else : forall a b, no_div a = true -> no_div b = true ->
  loop_children_p (a ++ NOther 16 :: b) = Spec.Compile.loop_children a b true.
Proof. exact loop_children_p_else. Qed.
Print Assumptions C03_parser_loop_with_else.

Theorem C03_parser_loop_without_else : forall a, no_div a = true ->
  loop_children_p a = Spec.Compile.loop_children a [] false.
Proof. exact loop_children_p_no_else. Qed.
Print Assumptions C03_parser_loop_without_else.

Theorem C03_parser_loop_empty_else : forall a, no_div a = true ->
  loop_children_p (a ++ [NOther 16]) = Spec.Compile.loop_children a [] true.
Proof. exact loop_children_p_trailing_else. Qed.
Print Assumptions C03_parser_loop_empty_else.
