(* C03 — loops run once per element, with separators between and else iff empty. *)
From DT Require Import Model.Bytes Model.Value Model.Tree Model.Interp Proofs.InterpFacts.

(* no iteration when the bound comparison fails at the initial value: exactly the else branch *)
Theorem C03_cloop_no_iteration : forall bodyf elsef has_else cnt sep condOp cntOp limv idx saved fuel c w cur,
  cloop_allows condOp cur limv = Some false ->
  cloop_iter bodyf elsef has_else cnt sep condOp cntOp limv idx saved fuel c w 0 cur
  = cloop_finish elsef has_else cnt idx saved c w 0.
Proof. exact cloop_no_iteration. Qed.
Print Assumptions C03_cloop_no_iteration.

Theorem C03_rloop_no_elements : forall bodyf elsef has_else key val sep saved c w,
  rloop_each bodyf elsef has_else key val sep saved [] c w 0 0 = rloop_finish elsef has_else saved c w 0.
Proof. exact rloop_no_elements. Qed.
Print Assumptions C03_rloop_no_elements.
