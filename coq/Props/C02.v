(* C02 — conditions render exactly the branch their operands select. *)
From DT Require Import Model.Bytes Model.Value Model.Tree Model.Interp Proofs.InterpFacts.

(* the result of a comparison never depends on the result buffer or the error register left
   by earlier conditions: it is the same for every value of that scratch state *)
Theorem C02_cmp_scratch_free : forall flits c p o l b e,
  snd (ctx_cmp flits (set_bufB b (set_cerr e c)) p o l) = snd (ctx_cmp flits c p o l).
Proof. exact ctx_cmp_scratch_free. Qed.
Print Assumptions C02_cmp_scratch_free.
