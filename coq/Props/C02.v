(* C02 — conditions render exactly the branch their operands select. *)
From DT Require Import Model.Bytes Model.Value Model.Tree Model.Interp Proofs.InterpFacts.

(* the result of a comparison never depends on the result buffer or the error register left
   by earlier conditions: it is the same for every value of that scratch state *)
Theorem C02_cmp_scratch_free : forall flits c p o l b e,
  snd (ctx_cmp flits (set_bufB b (set_cerr e c)) p o l) = snd (ctx_cmp flits c p o l).
Proof. exact ctx_cmp_scratch_free. Qed.
Print Assumptions C02_cmp_scratch_free.

(* ---- refinement of the reference semantics: conditions (Proofs/RefineCond.v, RefineNodes.v) ---- *)
From DT Require Import Model.Mods Spec.Ast Spec.RefEval Spec.Compile Proofs.FlatProofs Proofs.RefineBase
  Proofs.RefineCond Proofs.RefineList Proofs.RefineNodes Proofs.RefineFindings.

(* the key lemma: whatever the result buffer (Ctx.BufB) and the error register (Ctx.Err) hold, the
   cond node built from a condition evaluates its first child iff the reference condition holds
   on the abstraction of the context, and its second child otherwise *)
Theorem C02_branch_by_operands :
  forall flits lookup budget inc cnd ctx0 b,
    slots_ok ctx0 -> ref_cond flits (abs ctx0) cnd = CB b ->
    forall b0 e0 ch1 ch2 rest w,
    exists c1, ceq c1 ctx0 /\
      write_node flits lookup budget inc (NCond (c_cond cnd) (ch1 :: ch2 :: rest)) (set_bufB b0 (set_cerr e0 ctx0)) w =
      write_node flits lookup budget inc (if b then ch1 else ch2) c1 w.
Proof. exact branch_by_operands. Qed.
Print Assumptions C02_branch_by_operands.

(* if / if-else: the node refines the item, given that the branches do *)
Theorem C02_if_refines :
  forall flits lookup budget inc rlookup rinc L cnd th el (he : bool),
    items_ok flits lookup budget inc rlookup rinc false L th ->
    items_ok flits lookup budget inc rlookup rinc false L el ->
    he && senseless cnd = false ->
    node_ref flits lookup budget inc rlookup rinc L
      (NCond (c_cond cnd) (NBlock BTrue no_case (merge_raws (c_list compile th)) ::
                           (if he then [NBlock BFalse no_case (merge_raws (c_list compile el))] else [])))
      (AIf cnd th el he).
Proof. exact if_ref. Qed.
Print Assumptions C02_if_refines.

Theorem C02_ternary_refines :
  forall flits lookup budget inc rlookup rinc L cnd p1 p2,
    senseless cnd = false ->
    node_ref flits lookup budget inc rlookup rinc L
      (NCond (c_cond cnd) [NBlock BTrue no_case [NTpl p1 [] [] false []]; NBlock BFalse no_case [NTpl p2 [] [] false []]])
      (ATernary cnd p1 p2).
Proof. exact ternary_ref. Qed.
Print Assumptions C02_ternary_refines.

(* switch, both forms: first matching case, default, nothing *)
Theorem C02_switch_refines :
  forall flits lookup budget inc rlookup rinc L arg cases dflt (hd : bool),
    Forall (switch_case_ok flits lookup budget inc rlookup rinc L arg) cases ->
    items_ok flits lookup budget inc rlookup rinc false L dflt ->
    node_ref flits lookup budget inc rlookup rinc L
      (NSwitch arg (c_cases compile (match arg with [] => false | _ => true end) cases ++
                    (if hd then [NBlock BDefault no_case (merge_raws (c_list compile dflt))] else [])))
      (ASwitch arg cases dflt hd).
Proof. exact switch_ref. Qed.
Print Assumptions C02_switch_refines.

(* the two excluded shapes are real disagreements between model and reference semantics *)
From Coq Require Import String.
Theorem C02_senseless_with_else_disagrees :
  mout t_senseless ctx_new = Some (B "Y"%string, None) /\ rout t_senseless ctx_new = ([], SErr ESenseless).
Proof. exact F4_senseless_with_else. Qed.
Print Assumptions C02_senseless_with_else_disagrees.

Theorem C02_len_in_free_switch_disagrees :
  mout t_len_case c_str = Some ([], Some ECondHlpNotFound) /\ rout t_len_case c_str = (B "L"%string, SNone).
Proof. exact F5_len_in_free_switch. Qed.
Print Assumptions C02_len_in_free_switch_disagrees.

(* ---- the if-ok block  {% if v, okv := vok(arg).(static); [!]okv %} ... {% else %} ... {% endif %} ---- *)
Theorem C02_ifok_refines :
  forall flits lookup budget inc rlookup rinc L v okv arg (arglit neg : bool) th el (he : bool),
    items_ok flits lookup budget inc rlookup rinc false L th ->
    items_ok flits lookup budget inc rlookup rinc false L el ->
    (neg = true -> simple_name okv = true) ->
    node_ref flits lookup budget inc rlookup rinc L
      (NCondOK (mkOk v okv b_static)
         (if neg then mkCond okv b_true false true OpNq Compile.n_vok [mkArg [] arg arglit false] LcNone
          else mkCond okv [] false false OpUnk Compile.n_vok [mkArg [] arg arglit false] LcNone)
         (NBlock BTrue no_case (merge_raws (c_list compile th)) ::
          (if he then [NBlock BFalse no_case (merge_raws (c_list compile el))] else [])))
      (AIfOK v okv arg arglit neg th el he).
Proof. exact ifok_ref. Qed.
Print Assumptions C02_ifok_refines.

(* the node returns what the chosen branch returns *)
Theorem C02_ifok_runs_one_branch :
  forall flits lookup budget inc k (ci : condinfo) ch1 ch2 rest c w,
    cHlp ci = Interp.n_vok -> oIns k = n_static ->
    exists c3 (b : bool),
      write_node flits lookup budget inc (NCondOK k ci (ch1 :: ch2 :: rest)) c w =
      write_node flits lookup budget inc (if b then ch1 else ch2) c3 w.
Proof. exact condok_runs_child. Qed.
Print Assumptions C02_ifok_runs_one_branch.

(* the side condition is needed: with the negated form, a flag variable that is not a plain name
   is not found again by the extended condition *)
Theorem C02_ifok_negated_flag_not_a_name_disagrees :
  mout t_ifok_dotted c_ifok = Some (B "F"%string, None) /\ rout t_ifok_dotted c_ifok = (B "T"%string, SNone) /\
  mout t_ifok_noname c_ifok = Some (B "F"%string, None) /\ rout t_ifok_noname c_ifok = (B "T"%string, SNone).
Proof. exact F10_ifok_negated_flag_not_a_name. Qed.
Print Assumptions C02_ifok_negated_flag_not_a_name_disagrees.
