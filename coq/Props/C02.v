(* C02 — conditions render exactly the branch their operands select. *)
From DT Require Import Model.Bytes Model.Value Model.Tree Model.Interp Proofs.InterpFacts.

(* the result of a comparison never depends on the result buffer or the error register left
   by earlier conditions: it is the same for every value of that scratch state *)
Theorem C02_cmp_scratch_free : forall flits c p o l b e,
  snd (ctx_cmp flits (set_bufB b (set_cerr e c)) p o l) = snd (ctx_cmp flits c p o l).
Proof. exact ctx_cmp_scratch_free. Qed.
Print Assumptions C02_cmp_scratch_free.

(* ---- refinement of the reference semantics: conditions (Proofs/RefineCond.v, RefineNodes.v) ---- *)
From DT Require Import Model.Mods Spec.Ast Spec.RefEval Spec.Compile Proofs.FlatProofs Proofs.RefineBase
  Proofs.RefineCond Proofs.RefineList Proofs.RefineNodes Proofs.RefineFindings.

(* the key lemma: whatever the result buffer (Ctx.BufB) and the error register (Ctx.Err) hold, the
   cond node built from a condition evaluates its first child iff the reference condition holds
   on the abstraction of the context, and its second child otherwise *)
Theorem C02_branch_by_operands :
  forall flits lookup budget inc cnd ctx0 b,
    slots_ok ctx0 -> ref_cond flits (abs ctx0) cnd = CB b ->
    forall b0 e0 ch1 ch2 rest w,
    exists c1, ceq c1 ctx0 /\
      write_node flits lookup budget inc (NCond (c_cond cnd) (ch1 :: ch2 :: rest)) (set_bufB b0 (set_cerr e0 ctx0)) w =
      write_node flits lookup budget inc (if b then ch1 else ch2) c1 w.
Proof. exact branch_by_operands. Qed.
Print Assumptions C02_branch_by_operands.

(* if / if-else: the node refines the item, given that the branches do *)
Theorem C02_if_refines :
  forall flits lookup budget inc rlookup rinc L cnd th el (he : bool),
    items_ok flits lookup budget inc rlookup rinc false L th ->
    items_ok flits lookup budget inc rlookup rinc false L el ->
    he && senseless cnd = false ->
    node_ref flits lookup budget inc rlookup rinc L
      (NCond (c_cond cnd) (NBlock BTrue no_case (merge_raws (c_list compile th)) ::
                           (if he then [NBlock BFalse no_case (merge_raws (c_list compile el))] else [])))
      (AIf cnd th el he).
Proof. exact if_ref. Qed.
Print Assumptions C02_if_refines.

Theorem C02_ternary_refines :
  forall flits lookup budget inc rlookup rinc L cnd p1 p2,
    senseless cnd = false ->
    node_ref flits lookup budget inc rlookup rinc L
      (NCond (c_cond cnd) [NBlock BTrue no_case [NTpl p1 [] [] false []]; NBlock BFalse no_case [NTpl p2 [] [] false []]])
      (ATernary cnd p1 p2).
Proof. exact ternary_ref. Qed.
Print Assumptions C02_ternary_refines.

(* switch, both forms: first matching case, default, nothing *)
Theorem C02_switch_refines :
  forall flits lookup budget inc rlookup rinc L arg cases dflt (hd : bool),
    Forall (switch_case_ok flits lookup budget inc rlookup rinc L arg) cases ->
    items_ok flits lookup budget inc rlookup rinc false L dflt ->
    node_ref flits lookup budget inc rlookup rinc L
      (NSwitch arg (c_cases compile (match arg with [] => false | _ => true end) cases ++
                    (if hd then [NBlock BDefault no_case (merge_raws (c_list compile dflt))] else [])))
      (ASwitch arg cases dflt hd).
Proof. exact switch_ref. Qed.
Print Assumptions C02_switch_refines.

(* the two excluded shapes are real disagreements between model and reference semantics *)
From Coq Require Import String.
Theorem C02_senseless_with_else_disagrees :
  mout t_senseless ctx_new = Some (B "Y"%string, None) /\ rout t_senseless ctx_new = ([], SErr ESenseless).
Proof. exact F4_senseless_with_else. Qed.
Print Assumptions C02_senseless_with_else_disagrees.

Theorem C02_len_in_free_switch_disagrees :
  mout t_len_case c_str = Some ([], Some ECondHlpNotFound) /\ rout t_len_case c_str = (B "L"%string, SNone).
Proof. exact F5_len_in_free_switch. Qed.
Print Assumptions C02_len_in_free_switch_disagrees.
