(* C02 — conditions render exactly the branch their operands select. *)
From DT Require Import Model.Bytes Model.Value Model.Tree Model.Interp Proofs.InterpFacts.

(* the result of a comparison never depends on the result buffer or the error register left
   by earlier conditions: it is the same for every value of that scratch state *)
Theorem C02_cmp_scratch_free : forall flits c p o l b e,
  snd (ctx_cmp flits (set_bufB b (set_cerr e c)) p o l) = snd (ctx_cmp flits c p o l).
Proof. exact ctx_cmp_scratch_free. Qed.
Print Assumptions C02_cmp_scratch_free.

(* ---- refinement of the reference semantics: conditions (Proofs/RefineCond.v, RefineNodes.v) ---- *)
From DT Require Import Model.Mods Spec.Ast Spec.RefEval Spec.Compile Proofs.FlatProofs Proofs.RefineBase
  Proofs.RefineCond Proofs.RefineList Proofs.RefineNodes Proofs.RefineFindings.

(* the key lemma: whatever the result buffer (Ctx.BufB) and the error register (Ctx.Err) hold, the
   cond node built from a condition evaluates its first child iff the reference condition holds
   on the abstraction of the context, and its second child otherwise *)
Theorem C02_branch_by_operands :
  forall flits lookup budget inc cnd ctx0 b,
    slots_ok ctx0 -> ref_cond flits (abs ctx0) cnd = CB b ->
    forall b0 e0 ch1 ch2 rest w,
    exists c1, ceq c1 ctx0 /\
      write_node flits lookup budget inc (NCond (c_cond cnd) (ch1 :: ch2 :: rest)) (set_bufB b0 (set_cerr e0 ctx0)) w =
      write_node flits lookup budget inc (if b then ch1 else ch2) c1 w.
Proof. exact branch_by_operands. Qed.
Print Assumptions C02_branch_by_operands.

(* if / if-else: the node refines the item, given that the branches do *)
Theorem C02_if_refines :
  forall flits lookup budget inc rlookup rinc L cnd th el (he : bool),
    items_ok flits lookup budget inc rlookup rinc false L th ->
    items_ok flits lookup budget inc rlookup rinc false L el ->
    he && senseless cnd = false ->
    node_ref flits lookup budget inc rlookup rinc L
      (NCond (c_cond cnd) (NBlock BTrue no_case (merge_raws (c_list compile th)) ::
                           (if he then [NBlock BFalse no_case (merge_raws (c_list compile el))] else [])))
      (AIf cnd th el he).
Proof. exact if_ref. Qed.
Print Assumptions C02_if_refines.

Theorem C02_ternary_refines :
  forall flits lookup budget inc rlookup rinc L cnd p1 p2,
    senseless cnd = false ->
    node_ref flits lookup budget inc rlookup rinc L
      (NCond (c_cond cnd) [NBlock BTrue no_case [NTpl p1 [] [] false []]; NBlock BFalse no_case [NTpl p2 [] [] false []]])
      (ATernary cnd p1 p2).
Proof. exact ternary_ref. Qed.
Print Assumptions C02_ternary_refines.

(* switch, both forms: first matching case, default, nothing.  The parser leaves no node for a
   trailing case / default without children ([drop_empty_tail]); [switch_tail_ok]: an empty default
   renders nothing, and the test of a dropped last case is not an error (it is never evaluated) *)
Theorem C02_switch_refines :
  forall flits lookup budget inc rlookup rinc L arg cases dflt (hd : bool),
    Forall (switch_case_ok flits lookup budget inc rlookup rinc L arg) cases ->
    items_ok flits lookup budget inc rlookup rinc false L dflt ->
    switch_tail_ok flits budget rlookup rinc arg cases dflt hd ->
    node_ref flits lookup budget inc rlookup rinc L
      (NSwitch arg (drop_empty_tail
                      (c_cases compile (match arg with [] => false | _ => true end) cases ++
                       (if hd then [NBlock BDefault no_case (merge_raws (c_list compile dflt))] else []))))
      (ASwitch arg cases dflt hd).
Proof. exact switch_ref. Qed.
Print Assumptions C02_switch_refines.

(* the two excluded shapes are real disagreements between model and reference semantics *)
From Coq Require Import String.
Theorem C02_senseless_with_else_disagrees :
  mout t_senseless ctx_new = Some (B "Y"%string, None) /\ rout t_senseless ctx_new = ([], SErr ESenseless).
Proof. exact F4_senseless_with_else. Qed.
Print Assumptions C02_senseless_with_else_disagrees.

Theorem C02_len_in_free_switch_disagrees :
  mout t_len_case c_str = Some ([], Some ECondHlpNotFound) /\ rout t_len_case c_str = (B "L"%string, SNone).
Proof. exact F5_len_in_free_switch. Qed.
Print Assumptions C02_len_in_free_switch_disagrees.

(* ---- the if-ok block  {% if v, okv := vok(arg).(static); [!]okv %} ... {% else %} ... {% endif %} ---- *)
Theorem C02_ifok_refines :
  forall flits lookup budget inc rlookup rinc L v okv arg (arglit neg : bool) th el (he : bool),
    items_ok flits lookup budget inc rlookup rinc false L th ->
    items_ok flits lookup budget inc rlookup rinc false L el ->
    (neg = true -> simple_name okv = true) ->
    node_ref flits lookup budget inc rlookup rinc L
      (NCondOK (mkOk v okv b_static)
         (if neg then mkCond okv b_true false true OpNq Compile.n_vok [mkArg [] arg arglit false] LcNone
          else mkCond okv [] false false OpUnk Compile.n_vok [mkArg [] arg arglit false] LcNone)
         (NBlock BTrue no_case (merge_raws (c_list compile th)) ::
          (if he then [NBlock BFalse no_case (merge_raws (c_list compile el))] else [])))
      (AIfOK v okv arg arglit neg th el he).
Proof. exact ifok_ref. Qed.
Print Assumptions C02_ifok_refines.

(* the node returns what the chosen branch returns *)
Theorem C02_ifok_runs_one_branch :
  forall flits lookup budget inc k (ci : condinfo) ch1 ch2 rest c w,
    cHlp ci = Interp.n_vok -> oIns k = n_static ->
    exists c3 (b : bool),
      write_node flits lookup budget inc (NCondOK k ci (ch1 :: ch2 :: rest)) c w =
      write_node flits lookup budget inc (if b then ch1 else ch2) c3 w.
Proof. exact condok_runs_child. Qed.
Print Assumptions C02_ifok_runs_one_branch.

(* the side condition is needed: with the negated form, a flag variable that is not a plain name
   is not found again by the extended condition *)
Theorem C02_ifok_negated_flag_not_a_name_disagrees :
  mout t_ifok_dotted c_ifok = Some (B "F"%string, None) /\ rout t_ifok_dotted c_ifok = (B "T"%string, SNone) /\
  mout t_ifok_noname c_ifok = Some (B "F"%string, None) /\ rout t_ifok_noname c_ifok = (B "T"%string, SNone).
Proof. exact F10_ifok_negated_flag_not_a_name. Qed.
Print Assumptions C02_ifok_negated_flag_not_a_name_disagrees.

(* ---- dropping the trailing block without children, on the interpreter side alone ---- *)

(* the walk over the cases before it is the same; when none of them hits, the dropped list ends
   there with no signal, the full list evaluates the trailing block *)
Theorem C02_cases_with_drop_empty_tail :
  forall flits lookup budget inc hit chk pre (B : node),
    forallb (fun n => negb (is_default_block n)) pre = true ->
    forall l c w,
      cases_with (write_node flits lookup budget inc) hit chk (pre ++ [B]) (l ++ [B]) c w =
      cases_with (write_node flits lookup budget inc) hit chk pre l c w \/
      exists c_end,
        cases_with (write_node flits lookup budget inc) hit chk pre l c w = Out c_end w None /\
        cases_with (write_node flits lookup budget inc) hit chk (pre ++ [B]) (l ++ [B]) c w =
        cases_with (write_node flits lookup budget inc) hit chk (pre ++ [B]) [B] c_end w.
Proof. exact cases_with_drop_empty_tail. Qed.
Print Assumptions C02_cases_with_drop_empty_tail.

(* what the trailing block without children does: nothing is written; an empty default only
   clears Ctx.Err; an empty case leaves what its test leaves in Ctx.Err / Ctx.BufB -- and returns
   the error of that test, if it is one: the one observable difference of dropping it *)
Theorem C02_trailing_empty_block :
  forall flits lookup budget inc hit chk pre k ki c w,
    forallb (fun n => negb (is_default_block n)) pre = true ->
    cases_with (write_node flits lookup budget inc) hit chk (pre ++ [NBlock k ki []]) [NBlock k ki []] c w =
    match k with
    | BCase =>
      let '(c1, h, e) := hit ki c in
      match e with
      | Some x => Out c1 w (Some x)
      | None => match (if chk then cerr c1 else None) with
                | Some x => Out c1 w (Some x)
                | None => if h then Out (set_cerr None c1) w None else Out c1 w None
                end
      end
    | BDefault => Out (set_cerr None c) w None
    | _ => Out c w None
    end.
Proof. exact trailing_empty_block. Qed.
Print Assumptions C02_trailing_empty_block.

Theorem C02_dropped_last_case_test_disagrees :
  mout t_switch_empty_last ctx_new = Some (B "az"%string, None) /\
  rout t_switch_empty_last ctx_new = (B "a"%string, SErr ESenseless) /\
  mout t_switch_empty_mid ctx_new = Some (B "a"%string, Some ESenseless) /\
  rout t_switch_empty_mid ctx_new = (B "a"%string, SErr ESenseless).
Proof. exact F11_dropped_last_case_test_not_evaluated. Qed.
Print Assumptions C02_dropped_last_case_test_disagrees.

From DT Require Import Proofs.RefineMain.
Example C02_switch_empty_bodies_agree :
  forallb (wf_supported true) t_switch_empty_cases = true /\
  mout t_switch_empty_cases c_x1 = Some (B "||"%string, None) /\ rout t_switch_empty_cases c_x1 = (B "||"%string, SNone).
Proof. exact switch_empty_bodies_agree. Qed.

(* ---- a right operand that does not exist (Proofs/SpecFacts.v) ---- *)
From DT Require Import Proofs.SpecFacts.

(* the reference semantics does not select a branch: the missing variable reads as nil, nil has no
   text to compare with, and the condition is outside the specified domain -- for every operator *)
Theorem C02_missing_right_operand_partial : forall flits c e,
  ac_helper c = [] -> ac_llit c = false -> ac_rlit c = false ->
  env_get e (ac_r c) = Some VNil -> ref_cond flits e c = CNA.
Proof. exact cond_missing_right_partial. Qed.
Print Assumptions C02_missing_right_operand_partial.

Theorem C02_if_missing_right_operand_partial : forall flits rlookup budget rinc c th el he e,
  ac_helper c = [] -> ac_llit c = false -> ac_rlit c = false ->
  env_get e (ac_r c) = Some VNil -> ref_eval flits rlookup budget rinc (AIf c th el he) e = ([], e, SNA).
Proof. exact if_missing_right_partial. Qed.
Print Assumptions C02_if_missing_right_operand_partial.

(* the interpreter: ErrUnknownType from the comparison, the result "false"; the error survives only
   when there is no branch to fall into, so with an else branch that one is rendered *)
Theorem C02_missing_right_operand_model : forall flits c l r o,
  chQB c = false -> gp_val c r = VNil ->
  node_cmp flits c l r false false o = (set_cerr None c, false, Some EUnknownType).
Proof. exact node_cmp_missing_right. Qed.
Print Assumptions C02_missing_right_operand_model.

Example C02_missing_right_operand_example :
  forallb (fun o => match ref_cond [] e_loop (mkACond (Sb "n"%string) (Sb "ghost"%string) false false o [] []) with CNA => true | _ => false end)
          [OpEq; OpNq; OpGt; OpGtq; OpLt; OpLtq] = true /\
  forallb (fun o =>
             match run_nodes [] (fun _ => None) 10 (fun _ _ => None)
                     (compile_tpl [AIf (mkACond (Sb "n"%string) (Sb "ghost"%string) false false o [] []) [AText (Sb "T"%string)] [AText (Sb "E"%string)] true])
                     c_n5 (wr_new None 0) with
             | Out _ w None => bytes_eqb (wr_bytes w) (Sb "E"%string)
             | _ => false
             end) [OpEq; OpNq; OpGt; OpGtq; OpLt; OpLtq] = true.
Proof. exact missing_right_example. Qed.

(* ---- the parser's side of "exactly the branch" (Model/Parser.v, Proofs/ParserPieces.v): the nodes
        between an if tag and its end tag are split at the else tag into the then- and the
        else-branch (either may be empty); the cases of a switch collect what follows them, text
        before the first case is dropped and a last case without content leaves no node -- what
        Spec/Compile.v (drop_empty_tail) says ---- *)
From DT Require Import Model.Regex Model.ParserRe Model.Parser Proofs.ParserPieces.

Theorem C02_parser_if_else : forall a b, no_div a = true -> no_div b = true ->
  cond_children (a ++ NOther 16 :: b) = [NBlock BTrue no_case a; NBlock BFalse no_case b].
Proof. exact cond_children_else. Qed.
Print Assumptions C02_parser_if_else.

Theorem C02_parser_if_without_else : forall a, no_div a = true -> a <> [] ->
  cond_children a = [NBlock BTrue no_case a].
Proof. exact cond_children_no_else. Qed.
Print Assumptions C02_parser_if_without_else.

Theorem C02_parser_switch_groups : forall pre groups, no_heads pre = true -> groups_ok groups = true ->
  rollup (pre ++ flat_map (fun g => fst g :: snd g) groups)
  = Spec.Compile.drop_empty_tail (map (fun g => add_children (fst g) (snd g)) groups).
Proof. exact rollup_groups. Qed.
Print Assumptions C02_parser_switch_groups.
