(* C10 — JS and CSS escaping emit only safe characters and decode back to the
   original runes.  This file holds statements only; every proof is an [exact]
   of a lemma of Proofs/JSProofs.v.  [rs] ranges over lists of Unicode scalar
   values, which is what Go's range loop delivers for any byte string
   (C10_range_scalar). *)
From DT Require Import Model.Bytes Model.Utf8 Model.Hex Model.EscJS Spec.DecJS Proofs.JSProofs.
Local Open Scope N_scope.

(* JS alphabet: letters, digits, , . _ and the escapes backslash + one of \ / b f n r t
   or backslash u + 4 hex digits: no raw quote, < > & /, line terminator or control *)
Theorem C10_js_alphabet : forall rs, forallb is_scalar rs = true -> js_alphabet (js_escape rs) = true.
Proof. exact js_alphabet_ok. Qed.
Print Assumptions C10_js_alphabet.

(* an ECMAScript string-literal reader recovers exactly the original runes *)
Theorem C10_js_roundtrip : forall rs, forallb is_scalar rs = true -> js_unescape (js_escape rs) = Some rs.
Proof. exact js_roundtrip. Qed.
Print Assumptions C10_js_roundtrip.

(* CSS alphabet: letters, digits and backslash + 1..6 hex digits + one space *)
Theorem C10_css_alphabet : forall rs, forallb is_scalar rs = true -> css_alphabet (css_escape rs) = true.
Proof. exact css_alphabet_ok. Qed.
Print Assumptions C10_css_alphabet.

(* CSS escape decoding recovers the original runes; NUL excepted (CSS cannot represent it) *)
Theorem C10_css_roundtrip : forall rs,
  forallb is_scalar rs = true -> forallb (fun r => negb (r =? 0)) rs = true ->
  css_unescape (css_escape rs) = rs.
Proof. exact css_roundtrip. Qed.
Print Assumptions C10_css_roundtrip.

(* the terminating space makes every escape self-delimiting whatever follows *)
Theorem C10_css_no_swallow : forall r1 r2 rest,
  is_scalar r1 = true -> r1 <> 0 ->
  css_unescape (css_tok r1 ++ css_escape (r2 :: rest)) = r1 :: css_unescape (css_escape (r2 :: rest)).
Proof. exact css_no_swallow. Qed.
Print Assumptions C10_css_no_swallow.

(* ... including an arbitrary continuation that is not escaper output *)
Theorem C10_css_no_swallow_any : forall r tail,
  is_scalar r = true -> r <> 0 ->
  css_unescape_runes (map b2n (css_tok r) ++ tail) = r :: css_unescape_runes tail.
Proof. exact css_no_swallow_any. Qed.
Print Assumptions C10_css_no_swallow_any.

(* n passes decode back with n decoding passes (rune view of the layers) *)
Theorem C10_js_iter : forall (n : nat) rs,
  forallb is_scalar rs = true -> js_unescape_n n (js_layers n rs) = Some rs.
Proof. exact js_iter_roundtrip. Qed.
Print Assumptions C10_js_iter.

Theorem C10_css_iter : forall (n : nat) rs,
  forallb is_scalar rs = true -> forallb (fun r => negb (r =? 0)) rs = true ->
  css_unescape_n n (css_layers n rs) = rs.
Proof. exact css_iter_roundtrip. Qed.
Print Assumptions C10_css_iter.

(* the layers are the runes of what the modifiers render *)
Theorem C10_js_mod_layers : forall (itr : Z) (s : bytes),
  utf8_decode (mod_js_escape itr s) = js_layers (Z.to_nat itr) (utf8_decode s).
Proof. exact mod_js_layers. Qed.
Print Assumptions C10_js_mod_layers.

Theorem C10_css_mod_layers : forall (itr : Z) (s : bytes),
  utf8_decode (mod_css_escape itr s) = css_layers (Z.to_nat itr) (utf8_decode s).
Proof. exact mod_css_layers. Qed.
Print Assumptions C10_css_mod_layers.

(* the scalar hypothesis is always met: range over ANY byte string yields scalar values *)
Theorem C10_range_scalar : forall s : bytes, forallb is_scalar (utf8_decode s) = true.
Proof. exact utf8_decode_scalar. Qed.
Print Assumptions C10_range_scalar.

(* hence, for every byte string (invalid UTF-8 included), the modifier as rendered: *)
Theorem C10_js_mod : forall (itr : Z) (s : bytes),
  js_unescape_n (Z.to_nat itr) (utf8_decode (mod_js_escape itr s)) = Some (utf8_decode s).
Proof. exact mod_js_roundtrip. Qed.
Print Assumptions C10_js_mod.

Theorem C10_js_bytes_alphabet : forall s : bytes, js_alphabet (js_escape_bytes s) = true.
Proof. exact js_bytes_alphabet. Qed.
Print Assumptions C10_js_bytes_alphabet.

Theorem C10_css_mod : forall (itr : Z) (s : bytes),
  forallb (fun r => negb (r =? 0)) (utf8_decode s) = true ->
  css_unescape_n (Z.to_nat itr) (utf8_decode (mod_css_escape itr s)) = utf8_decode s.
Proof. exact mod_css_roundtrip. Qed.
Print Assumptions C10_css_mod.

Theorem C10_css_bytes_alphabet : forall s : bytes, css_alphabet (css_escape_bytes s) = true.
Proof. exact css_bytes_alphabet. Qed.
Print Assumptions C10_css_bytes_alphabet.

(* non-vacuity: '<', LF, 'a', U+1F600 exercise the hex, two-character, plain and surrogate-pair shapes *)
Example C10_js_example :
  js_escape [60; 10; 97; 128512] =
  [BSL; "u"; "0"; "0"; "3"; "c"; BSL; "n"; "a";
   BSL; "u"; "d"; "8"; "3"; "d"; BSL; "u"; "d"; "e"; "0"; "0"]%byte
  /\ js_unescape (js_escape [60; 10; 97; 128512]) = Some [60; 10; 97; 128512].
Proof. split; reflexivity. Qed.

Example C10_css_example :
  css_escape [60; 13; 32; 97; 128512] =
  [BSL; "3"; "c"; " "; BSL; "D"; " "; BSL; "2"; "0"; " "; "a"; BSL; "1"; "f"; "6"; "0"; "0"; " "]%byte
  /\ css_unescape (css_escape [60; 13; 32; 97; 128512]) = [60; 13; 32; 97; 128512].
Proof. split; reflexivity. Qed.

(* the NUL exception is real: backslash 0 space denotes U+FFFD *)
Example C10_css_nul : css_unescape (css_escape [0]) = [rune_error].
Proof. reflexivity. Qed.
