(* C08 - HTML escaping and attribute escaping emit only safe text and are undone by
   html.UnescapeString (exactly for the HTML escaper; up to the replacement of control
   characters by U+FFFD for the attribute escaper).
   This file holds statements only; every proof is an [exact] of a lemma. *)
From DT Require Import Model.Bytes Model.Utf8 Model.EscURL Model.EscHTML Spec.DecHTML Proofs.HTMLProofs.

(* alphabet: none of the four bytes < > double quote, single quote, and every ampersand starts one of
   the five references the escaper writes - for every byte string *)
Theorem C08_html_alphabet : forall s : bytes, html_alphabet (html_escape s) = true.
Proof. exact html_alphabet_ok. Qed.
Print Assumptions C08_html_alphabet.

(* unescaping returns exactly the original bytes - for every byte string, incl. invalid UTF-8 *)
Theorem C08_html_roundtrip : forall s : bytes, html_unescape (html_escape s) = s.
Proof. exact html_roundtrip. Qed.
Print Assumptions C08_html_roundtrip.

(* h repeated n times (hh, hhh ...) = n-fold application, undone by n-fold unescaping *)
Theorem C08_html_iter : forall (n : nat) (s : bytes),
  Nat.iter n html_unescape (repeat_app html_escape n s) = s.
Proof. exact html_iter_roundtrip. Qed.
Print Assumptions C08_html_iter.

Theorem C08_html_iter_alphabet : forall (n : nat) (s : bytes),
  html_alphabet (repeat_app html_escape (S n) s) = true.
Proof. exact html_iter_alphabet. Qed.
Print Assumptions C08_html_iter_alphabet.

(* the modifier exactly as rendered (empty input, repeat count) *)
Theorem C08_html_mod : forall (itr : Z) (s : bytes),
  Nat.iter (Z.to_nat itr) html_unescape (mod_html_escape itr s) = s.
Proof. exact mod_html_roundtrip. Qed.
Print Assumptions C08_html_mod.

(* attribute escaper: letters, digits, , . - _ and the references &amp; &lt; &gt; &quot; &#xH..; only -
   for every rune sequence (no bound on the runes is needed) *)
Theorem C08_attr_alphabet : forall rs : list N, attr_alphabet (attr_escape rs) = true.
Proof. exact attr_alphabet_ok. Qed.
Print Assumptions C08_attr_alphabet.

(* unescaping gives the UTF-8 text of the runes, control characters replaced by U+FFFD *)
Theorem C08_attr_roundtrip : forall rs : list N,
  forallb is_scalar rs = true ->
  html_unescape (attr_escape rs) = utf8_encode_all (map attr_norm rs).
Proof. exact attr_roundtrip. Qed.
Print Assumptions C08_attr_roundtrip.

(* the same from bytes, for every byte string (invalid UTF-8 is seen as U+FFFD runes, as Go's range does) *)
Theorem C08_attr_bytes : forall s : bytes,
  html_unescape (attr_escape_bytes s) = utf8_encode_all (map attr_norm (utf8_decode s)).
Proof. exact attr_bytes_roundtrip. Qed.
Print Assumptions C08_attr_bytes.

(* what makes C08_attr_bytes unconditional: range-over-string only delivers scalar values *)
Theorem C08_decode_scalar : forall s : bytes, forallb is_scalar (utf8_decode s) = true.
Proof. exact utf8_decode_scalar. Qed.
Print Assumptions C08_decode_scalar.

(* valid UTF-8 without the replaced control characters comes back unchanged *)
Theorem C08_attr_bytes_clean : forall s : bytes,
  valid_utf8 s = true ->
  forallb (fun r => (attr_norm r =? r)%N) (utf8_decode s) = true ->
  html_unescape (attr_escape_bytes s) = s.
Proof. exact attr_bytes_clean. Qed.
Print Assumptions C08_attr_bytes_clean.

(* a repeated n+1 times (aa, aaa ...) = (n+1)-fold application; the passes after the first are undone exactly *)
Theorem C08_attr_iter : forall (n : nat) (s : bytes),
  Nat.iter (S n) html_unescape (repeat_app attr_escape_bytes (S n) s)
  = utf8_encode_all (map attr_norm (utf8_decode s)).
Proof. exact attr_iter_roundtrip. Qed.
Print Assumptions C08_attr_iter.

Theorem C08_attr_iter_alphabet : forall (n : nat) (s : bytes),
  attr_alphabet (repeat_app attr_escape_bytes (S n) s) = true.
Proof. exact attr_iter_alphabet. Qed.
Print Assumptions C08_attr_iter_alphabet.

(* the attribute modifier as rendered, for a positive repeat count *)
Theorem C08_attr_mod : forall (itr : Z) (s : bytes), (0 < itr)%Z ->
  Nat.iter (Z.to_nat itr) html_unescape (mod_attr_escape itr s)
  = utf8_encode_all (map attr_norm (utf8_decode s)).
Proof. exact mod_attr_roundtrip. Qed.
Print Assumptions C08_attr_mod.

(* non-vacuity: concrete inputs exercising every token shape *)
Example C08_example_html :
  html_escape ["a"; "<"; ">"; """"; "'"; "&"; xff]%byte
  = ["a"; "&";"l";"t";";"; "&";"g";"t";";"; "&";"q";"u";"o";"t";";"; "&";"#";"3";"9";";"; "&";"a";"m";"p";";"; xff]%byte.
Proof. reflexivity. Qed.

(* a TAB ' ' 0x1f 0x01 U+00E9 U+1F600 & *)
Example C08_example_attr :
  attr_escape [97; 9; 32; 31; 1; 233; 128512; 38]%N
  = (["a"] ++ ["&";"#";"x";"0";"9";";"] ++ ["&";"#";"x";"2";"0";";"] ++ ["&";"#";"x";"1";"f";";"]
     ++ ["&";"#";"x";"F";"F";"F";"D";";"] ++ ["&";"#";"x";"0";"0";"e";"9";";"]
     ++ ["&";"#";"x";"1";"f";"6";"0";"0";";"] ++ ["&";"a";"m";"p";";"])%byte.
Proof. reflexivity. Qed.

Example C08_example_unescape :
  html_unescape (attr_escape [97; 9; 1; 233; 38]%N) = ["a"; x09; xef; xbf; xbd; xc3; xa9; "&"]%byte.
Proof. reflexivity. Qed.
