
type nat =
| O
| S of nat

(** val option_map : ('a1 -> 'a2) -> 'a1 option -> 'a2 option **)

let option_map f = function
| Some a -> Some (f a)
| None -> None

(** val fst : ('a1 * 'a2) -> 'a1 **)

let fst = function
| (x, _) -> x

(** val snd : ('a1 * 'a2) -> 'a2 **)

let snd = function
| (_, y) -> y

(** val length : 'a1 list -> nat **)

let rec length = function
| [] -> O
| _ :: l' -> S (length l')

(** val app : 'a1 list -> 'a1 list -> 'a1 list **)

let rec app l m =
  match l with
  | [] -> m
  | a :: l1 -> a :: (app l1 m)

type comparison =
| Eq
| Lt
| Gt

module Coq__1 = struct
 (** val add : nat -> nat -> nat **)
 let rec add n0 m =
   match n0 with
   | O -> m
   | S p -> S (add p m)
end
include Coq__1

(** val sub : nat -> nat -> nat **)

let rec sub n0 m =
  match n0 with
  | O -> n0
  | S k -> (match m with
            | O -> n0
            | S l -> sub k l)

type byte =
| X00
| X01
| X02
| X03
| X04
| X05
| X06
| X07
| X08
| X09
| X0a
| X0b
| X0c
| X0d
| X0e
| X0f
| X10
| X11
| X12
| X13
| X14
| X15
| X16
| X17
| X18
| X19
| X1a
| X1b
| X1c
| X1d
| X1e
| X1f
| X20
| X21
| X22
| X23
| X24
| X25
| X26
| X27
| X28
| X29
| X2a
| X2b
| X2c
| X2d
| X2e
| X2f
| X30
| X31
| X32
| X33
| X34
| X35
| X36
| X37
| X38
| X39
| X3a
| X3b
| X3c
| X3d
| X3e
| X3f
| X40
| X41
| X42
| X43
| X44
| X45
| X46
| X47
| X48
| X49
| X4a
| X4b
| X4c
| X4d
| X4e
| X4f
| X50
| X51
| X52
| X53
| X54
| X55
| X56
| X57
| X58
| X59
| X5a
| X5b
| X5c
| X5d
| X5e
| X5f
| X60
| X61
| X62
| X63
| X64
| X65
| X66
| X67
| X68
| X69
| X6a
| X6b
| X6c
| X6d
| X6e
| X6f
| X70
| X71
| X72
| X73
| X74
| X75
| X76
| X77
| X78
| X79
| X7a
| X7b
| X7c
| X7d
| X7e
| X7f
| X80
| X81
| X82
| X83
| X84
| X85
| X86
| X87
| X88
| X89
| X8a
| X8b
| X8c
| X8d
| X8e
| X8f
| X90
| X91
| X92
| X93
| X94
| X95
| X96
| X97
| X98
| X99
| X9a
| X9b
| X9c
| X9d
| X9e
| X9f
| Xa0
| Xa1
| Xa2
| Xa3
| Xa4
| Xa5
| Xa6
| Xa7
| Xa8
| Xa9
| Xaa
| Xab
| Xac
| Xad
| Xae
| Xaf
| Xb0
| Xb1
| Xb2
| Xb3
| Xb4
| Xb5
| Xb6
| Xb7
| Xb8
| Xb9
| Xba
| Xbb
| Xbc
| Xbd
| Xbe
| Xbf
| Xc0
| Xc1
| Xc2
| Xc3
| Xc4
| Xc5
| Xc6
| Xc7
| Xc8
| Xc9
| Xca
| Xcb
| Xcc
| Xcd
| Xce
| Xcf
| Xd0
| Xd1
| Xd2
| Xd3
| Xd4
| Xd5
| Xd6
| Xd7
| Xd8
| Xd9
| Xda
| Xdb
| Xdc
| Xdd
| Xde
| Xdf
| Xe0
| Xe1
| Xe2
| Xe3
| Xe4
| Xe5
| Xe6
| Xe7
| Xe8
| Xe9
| Xea
| Xeb
| Xec
| Xed
| Xee
| Xef
| Xf0
| Xf1
| Xf2
| Xf3
| Xf4
| Xf5
| Xf6
| Xf7
| Xf8
| Xf9
| Xfa
| Xfb
| Xfc
| Xfd
| Xfe
| Xff

(** val to_bits :
    byte -> bool * (bool * (bool * (bool * (bool * (bool * (bool * bool)))))) **)

let to_bits = function
| X00 -> (false, (false, (false, (false, (false, (false, (false, false)))))))
| X01 -> (true, (false, (false, (false, (false, (false, (false, false)))))))
| X02 -> (false, (true, (false, (false, (false, (false, (false, false)))))))
| X03 -> (true, (true, (false, (false, (false, (false, (false, false)))))))
| X04 -> (false, (false, (true, (false, (false, (false, (false, false)))))))
| X05 -> (true, (false, (true, (false, (false, (false, (false, false)))))))
| X06 -> (false, (true, (true, (false, (false, (false, (false, false)))))))
| X07 -> (true, (true, (true, (false, (false, (false, (false, false)))))))
| X08 -> (false, (false, (false, (true, (false, (false, (false, false)))))))
| X09 -> (true, (false, (false, (true, (false, (false, (false, false)))))))
| X0a -> (false, (true, (false, (true, (false, (false, (false, false)))))))
| X0b -> (true, (true, (false, (true, (false, (false, (false, false)))))))
| X0c -> (false, (false, (true, (true, (false, (false, (false, false)))))))
| X0d -> (true, (false, (true, (true, (false, (false, (false, false)))))))
| X0e -> (false, (true, (true, (true, (false, (false, (false, false)))))))
| X0f -> (true, (true, (true, (true, (false, (false, (false, false)))))))
| X10 -> (false, (false, (false, (false, (true, (false, (false, false)))))))
| X11 -> (true, (false, (false, (false, (true, (false, (false, false)))))))
| X12 -> (false, (true, (false, (false, (true, (false, (false, false)))))))
| X13 -> (true, (true, (false, (false, (true, (false, (false, false)))))))
| X14 -> (false, (false, (true, (false, (true, (false, (false, false)))))))
| X15 -> (true, (false, (true, (false, (true, (false, (false, false)))))))
| X16 -> (false, (true, (true, (false, (true, (false, (false, false)))))))
| X17 -> (true, (true, (true, (false, (true, (false, (false, false)))))))
| X18 -> (false, (false, (false, (true, (true, (false, (false, false)))))))
| X19 -> (true, (false, (false, (true, (true, (false, (false, false)))))))
| X1a -> (false, (true, (false, (true, (true, (false, (false, false)))))))
| X1b -> (true, (true, (false, (true, (true, (false, (false, false)))))))
| X1c -> (false, (false, (true, (true, (true, (false, (false, false)))))))
| X1d -> (true, (false, (true, (true, (true, (false, (false, false)))))))
| X1e -> (false, (true, (true, (true, (true, (false, (false, false)))))))
| X1f -> (true, (true, (true, (true, (true, (false, (false, false)))))))
| X20 -> (false, (false, (false, (false, (false, (true, (false, false)))))))
| X21 -> (true, (false, (false, (false, (false, (true, (false, false)))))))
| X22 -> (false, (true, (false, (false, (false, (true, (false, false)))))))
| X23 -> (true, (true, (false, (false, (false, (true, (false, false)))))))
| X24 -> (false, (false, (true, (false, (false, (true, (false, false)))))))
| X25 -> (true, (false, (true, (false, (false, (true, (false, false)))))))
| X26 -> (false, (true, (true, (false, (false, (true, (false, false)))))))
| X27 -> (true, (true, (true, (false, (false, (true, (false, false)))))))
| X28 -> (false, (false, (false, (true, (false, (true, (false, false)))))))
| X29 -> (true, (false, (false, (true, (false, (true, (false, false)))))))
| X2a -> (false, (true, (false, (true, (false, (true, (false, false)))))))
| X2b -> (true, (true, (false, (true, (false, (true, (false, false)))))))
| X2c -> (false, (false, (true, (true, (false, (true, (false, false)))))))
| X2d -> (true, (false, (true, (true, (false, (true, (false, false)))))))
| X2e -> (false, (true, (true, (true, (false, (true, (false, false)))))))
| X2f -> (true, (true, (true, (true, (false, (true, (false, false)))))))
| X30 -> (false, (false, (false, (false, (true, (true, (false, false)))))))
| X31 -> (true, (false, (false, (false, (true, (true, (false, false)))))))
| X32 -> (false, (true, (false, (false, (true, (true, (false, false)))))))
| X33 -> (true, (true, (false, (false, (true, (true, (false, false)))))))
| X34 -> (false, (false, (true, (false, (true, (true, (false, false)))))))
| X35 -> (true, (false, (true, (false, (true, (true, (false, false)))))))
| X36 -> (false, (true, (true, (false, (true, (true, (false, false)))))))
| X37 -> (true, (true, (true, (false, (true, (true, (false, false)))))))
| X38 -> (false, (false, (false, (true, (true, (true, (false, false)))))))
| X39 -> (true, (false, (false, (true, (true, (true, (false, false)))))))
| X3a -> (false, (true, (false, (true, (true, (true, (false, false)))))))
| X3b -> (true, (true, (false, (true, (true, (true, (false, false)))))))
| X3c -> (false, (false, (true, (true, (true, (true, (false, false)))))))
| X3d -> (true, (false, (true, (true, (true, (true, (false, false)))))))
| X3e -> (false, (true, (true, (true, (true, (true, (false, false)))))))
| X3f -> (true, (true, (true, (true, (true, (true, (false, false)))))))
| X40 -> (false, (false, (false, (false, (false, (false, (true, false)))))))
| X41 -> (true, (false, (false, (false, (false, (false, (true, false)))))))
| X42 -> (false, (true, (false, (false, (false, (false, (true, false)))))))
| X43 -> (true, (true, (false, (false, (false, (false, (true, false)))))))
| X44 -> (false, (false, (true, (false, (false, (false, (true, false)))))))
| X45 -> (true, (false, (true, (false, (false, (false, (true, false)))))))
| X46 -> (false, (true, (true, (false, (false, (false, (true, false)))))))
| X47 -> (true, (true, (true, (false, (false, (false, (true, false)))))))
| X48 -> (false, (false, (false, (true, (false, (false, (true, false)))))))
| X49 -> (true, (false, (false, (true, (false, (false, (true, false)))))))
| X4a -> (false, (true, (false, (true, (false, (false, (true, false)))))))
| X4b -> (true, (true, (false, (true, (false, (false, (true, false)))))))
| X4c -> (false, (false, (true, (true, (false, (false, (true, false)))))))
| X4d -> (true, (false, (true, (true, (false, (false, (true, false)))))))
| X4e -> (false, (true, (true, (true, (false, (false, (true, false)))))))
| X4f -> (true, (true, (true, (true, (false, (false, (true, false)))))))
| X50 -> (false, (false, (false, (false, (true, (false, (true, false)))))))
| X51 -> (true, (false, (false, (false, (true, (false, (true, false)))))))
| X52 -> (false, (true, (false, (false, (true, (false, (true, false)))))))
| X53 -> (true, (true, (false, (false, (true, (false, (true, false)))))))
| X54 -> (false, (false, (true, (false, (true, (false, (true, false)))))))
| X55 -> (true, (false, (true, (false, (true, (false, (true, false)))))))
| X56 -> (false, (true, (true, (false, (true, (false, (true, false)))))))
| X57 -> (true, (true, (true, (false, (true, (false, (true, false)))))))
| X58 -> (false, (false, (false, (true, (true, (false, (true, false)))))))
| X59 -> (true, (false, (false, (true, (true, (false, (true, false)))))))
| X5a -> (false, (true, (false, (true, (true, (false, (true, false)))))))
| X5b -> (true, (true, (false, (true, (true, (false, (true, false)))))))
| X5c -> (false, (false, (true, (true, (true, (false, (true, false)))))))
| X5d -> (true, (false, (true, (true, (true, (false, (true, false)))))))
| X5e -> (false, (true, (true, (true, (true, (false, (true, false)))))))
| X5f -> (true, (true, (true, (true, (true, (false, (true, false)))))))
| X60 -> (false, (false, (false, (false, (false, (true, (true, false)))))))
| X61 -> (true, (false, (false, (false, (false, (true, (true, false)))))))
| X62 -> (false, (true, (false, (false, (false, (true, (true, false)))))))
| X63 -> (true, (true, (false, (false, (false, (true, (true, false)))))))
| X64 -> (false, (false, (true, (false, (false, (true, (true, false)))))))
| X65 -> (true, (false, (true, (false, (false, (true, (true, false)))))))
| X66 -> (false, (true, (true, (false, (false, (true, (true, false)))))))
| X67 -> (true, (true, (true, (false, (false, (true, (true, false)))))))
| X68 -> (false, (false, (false, (true, (false, (true, (true, false)))))))
| X69 -> (true, (false, (false, (true, (false, (true, (true, false)))))))
| X6a -> (false, (true, (false, (true, (false, (true, (true, false)))))))
| X6b -> (true, (true, (false, (true, (false, (true, (true, false)))))))
| X6c -> (false, (false, (true, (true, (false, (true, (true, false)))))))
| X6d -> (true, (false, (true, (true, (false, (true, (true, false)))))))
| X6e -> (false, (true, (true, (true, (false, (true, (true, false)))))))
| X6f -> (true, (true, (true, (true, (false, (true, (true, false)))))))
| X70 -> (false, (false, (false, (false, (true, (true, (true, false)))))))
| X71 -> (true, (false, (false, (false, (true, (true, (true, false)))))))
| X72 -> (false, (true, (false, (false, (true, (true, (true, false)))))))
| X73 -> (true, (true, (false, (false, (true, (true, (true, false)))))))
| X74 -> (false, (false, (true, (false, (true, (true, (true, false)))))))
| X75 -> (true, (false, (true, (false, (true, (true, (true, false)))))))
| X76 -> (false, (true, (true, (false, (true, (true, (true, false)))))))
| X77 -> (true, (true, (true, (false, (true, (true, (true, false)))))))
| X78 -> (false, (false, (false, (true, (true, (true, (true, false)))))))
| X79 -> (true, (false, (false, (true, (true, (true, (true, false)))))))
| X7a -> (false, (true, (false, (true, (true, (true, (true, false)))))))
| X7b -> (true, (true, (false, (true, (true, (true, (true, false)))))))
| X7c -> (false, (false, (true, (true, (true, (true, (true, false)))))))
| X7d -> (true, (false, (true, (true, (true, (true, (true, false)))))))
| X7e -> (false, (true, (true, (true, (true, (true, (true, false)))))))
| X7f -> (true, (true, (true, (true, (true, (true, (true, false)))))))
| X80 -> (false, (false, (false, (false, (false, (false, (false, true)))))))
| X81 -> (true, (false, (false, (false, (false, (false, (false, true)))))))
| X82 -> (false, (true, (false, (false, (false, (false, (false, true)))))))
| X83 -> (true, (true, (false, (false, (false, (false, (false, true)))))))
| X84 -> (false, (false, (true, (false, (false, (false, (false, true)))))))
| X85 -> (true, (false, (true, (false, (false, (false, (false, true)))))))
| X86 -> (false, (true, (true, (false, (false, (false, (false, true)))))))
| X87 -> (true, (true, (true, (false, (false, (false, (false, true)))))))
| X88 -> (false, (false, (false, (true, (false, (false, (false, true)))))))
| X89 -> (true, (false, (false, (true, (false, (false, (false, true)))))))
| X8a -> (false, (true, (false, (true, (false, (false, (false, true)))))))
| X8b -> (true, (true, (false, (true, (false, (false, (false, true)))))))
| X8c -> (false, (false, (true, (true, (false, (false, (false, true)))))))
| X8d -> (true, (false, (true, (true, (false, (false, (false, true)))))))
| X8e -> (false, (true, (true, (true, (false, (false, (false, true)))))))
| X8f -> (true, (true, (true, (true, (false, (false, (false, true)))))))
| X90 -> (false, (false, (false, (false, (true, (false, (false, true)))))))
| X91 -> (true, (false, (false, (false, (true, (false, (false, true)))))))
| X92 -> (false, (true, (false, (false, (true, (false, (false, true)))))))
| X93 -> (true, (true, (false, (false, (true, (false, (false, true)))))))
| X94 -> (false, (false, (true, (false, (true, (false, (false, true)))))))
| X95 -> (true, (false, (true, (false, (true, (false, (false, true)))))))
| X96 -> (false, (true, (true, (false, (true, (false, (false, true)))))))
| X97 -> (true, (true, (true, (false, (true, (false, (false, true)))))))
| X98 -> (false, (false, (false, (true, (true, (false, (false, true)))))))
| X99 -> (true, (false, (false, (true, (true, (false, (false, true)))))))
| X9a -> (false, (true, (false, (true, (true, (false, (false, true)))))))
| X9b -> (true, (true, (false, (true, (true, (false, (false, true)))))))
| X9c -> (false, (false, (true, (true, (true, (false, (false, true)))))))
| X9d -> (true, (false, (true, (true, (true, (false, (false, true)))))))
| X9e -> (false, (true, (true, (true, (true, (false, (false, true)))))))
| X9f -> (true, (true, (true, (true, (true, (false, (false, true)))))))
| Xa0 -> (false, (false, (false, (false, (false, (true, (false, true)))))))
| Xa1 -> (true, (false, (false, (false, (false, (true, (false, true)))))))
| Xa2 -> (false, (true, (false, (false, (false, (true, (false, true)))))))
| Xa3 -> (true, (true, (false, (false, (false, (true, (false, true)))))))
| Xa4 -> (false, (false, (true, (false, (false, (true, (false, true)))))))
| Xa5 -> (true, (false, (true, (false, (false, (true, (false, true)))))))
| Xa6 -> (false, (true, (true, (false, (false, (true, (false, true)))))))
| Xa7 -> (true, (true, (true, (false, (false, (true, (false, true)))))))
| Xa8 -> (false, (false, (false, (true, (false, (true, (false, true)))))))
| Xa9 -> (true, (false, (false, (true, (false, (true, (false, true)))))))
| Xaa -> (false, (true, (false, (true, (false, (true, (false, true)))))))
| Xab -> (true, (true, (false, (true, (false, (true, (false, true)))))))
| Xac -> (false, (false, (true, (true, (false, (true, (false, true)))))))
| Xad -> (true, (false, (true, (true, (false, (true, (false, true)))))))
| Xae -> (false, (true, (true, (true, (false, (true, (false, true)))))))
| Xaf -> (true, (true, (true, (true, (false, (true, (false, true)))))))
| Xb0 -> (false, (false, (false, (false, (true, (true, (false, true)))))))
| Xb1 -> (true, (false, (false, (false, (true, (true, (false, true)))))))
| Xb2 -> (false, (true, (false, (false, (true, (true, (false, true)))))))
| Xb3 -> (true, (true, (false, (false, (true, (true, (false, true)))))))
| Xb4 -> (false, (false, (true, (false, (true, (true, (false, true)))))))
| Xb5 -> (true, (false, (true, (false, (true, (true, (false, true)))))))
| Xb6 -> (false, (true, (true, (false, (true, (true, (false, true)))))))
| Xb7 -> (true, (true, (true, (false, (true, (true, (false, true)))))))
| Xb8 -> (false, (false, (false, (true, (true, (true, (false, true)))))))
| Xb9 -> (true, (false, (false, (true, (true, (true, (false, true)))))))
| Xba -> (false, (true, (false, (true, (true, (true, (false, true)))))))
| Xbb -> (true, (true, (false, (true, (true, (true, (false, true)))))))
| Xbc -> (false, (false, (true, (true, (true, (true, (false, true)))))))
| Xbd -> (true, (false, (true, (true, (true, (true, (false, true)))))))
| Xbe -> (false, (true, (true, (true, (true, (true, (false, true)))))))
| Xbf -> (true, (true, (true, (true, (true, (true, (false, true)))))))
| Xc0 -> (false, (false, (false, (false, (false, (false, (true, true)))))))
| Xc1 -> (true, (false, (false, (false, (false, (false, (true, true)))))))
| Xc2 -> (false, (true, (false, (false, (false, (false, (true, true)))))))
| Xc3 -> (true, (true, (false, (false, (false, (false, (true, true)))))))
| Xc4 -> (false, (false, (true, (false, (false, (false, (true, true)))))))
| Xc5 -> (true, (false, (true, (false, (false, (false, (true, true)))))))
| Xc6 -> (false, (true, (true, (false, (false, (false, (true, true)))))))
| Xc7 -> (true, (true, (true, (false, (false, (false, (true, true)))))))
| Xc8 -> (false, (false, (false, (true, (false, (false, (true, true)))))))
| Xc9 -> (true, (false, (false, (true, (false, (false, (true, true)))))))
| Xca -> (false, (true, (false, (true, (false, (false, (true, true)))))))
| Xcb -> (true, (true, (false, (true, (false, (false, (true, true)))))))
| Xcc -> (false, (false, (true, (true, (false, (false, (true, true)))))))
| Xcd -> (true, (false, (true, (true, (false, (false, (true, true)))))))
| Xce -> (false, (true, (true, (true, (false, (false, (true, true)))))))
| Xcf -> (true, (true, (true, (true, (false, (false, (true, true)))))))
| Xd0 -> (false, (false, (false, (false, (true, (false, (true, true)))))))
| Xd1 -> (true, (false, (false, (false, (true, (false, (true, true)))))))
| Xd2 -> (false, (true, (false, (false, (true, (false, (true, true)))))))
| Xd3 -> (true, (true, (false, (false, (true, (false, (true, true)))))))
| Xd4 -> (false, (false, (true, (false, (true, (false, (true, true)))))))
| Xd5 -> (true, (false, (true, (false, (true, (false, (true, true)))))))
| Xd6 -> (false, (true, (true, (false, (true, (false, (true, true)))))))
| Xd7 -> (true, (true, (true, (false, (true, (false, (true, true)))))))
| Xd8 -> (false, (false, (false, (true, (true, (false, (true, true)))))))
| Xd9 -> (true, (false, (false, (true, (true, (false, (true, true)))))))
| Xda -> (false, (true, (false, (true, (true, (false, (true, true)))))))
| Xdb -> (true, (true, (false, (true, (true, (false, (true, true)))))))
| Xdc -> (false, (false, (true, (true, (true, (false, (true, true)))))))
| Xdd -> (true, (false, (true, (true, (true, (false, (true, true)))))))
| Xde -> (false, (true, (true, (true, (true, (false, (true, true)))))))
| Xdf -> (true, (true, (true, (true, (true, (false, (true, true)))))))
| Xe0 -> (false, (false, (false, (false, (false, (true, (true, true)))))))
| Xe1 -> (true, (false, (false, (false, (false, (true, (true, true)))))))
| Xe2 -> (false, (true, (false, (false, (false, (true, (true, true)))))))
| Xe3 -> (true, (true, (false, (false, (false, (true, (true, true)))))))
| Xe4 -> (false, (false, (true, (false, (false, (true, (true, true)))))))
| Xe5 -> (true, (false, (true, (false, (false, (true, (true, true)))))))
| Xe6 -> (false, (true, (true, (false, (false, (true, (true, true)))))))
| Xe7 -> (true, (true, (true, (false, (false, (true, (true, true)))))))
| Xe8 -> (false, (false, (false, (true, (false, (true, (true, true)))))))
| Xe9 -> (true, (false, (false, (true, (false, (true, (true, true)))))))
| Xea -> (false, (true, (false, (true, (false, (true, (true, true)))))))
| Xeb -> (true, (true, (false, (true, (false, (true, (true, true)))))))
| Xec -> (false, (false, (true, (true, (false, (true, (true, true)))))))
| Xed -> (true, (false, (true, (true, (false, (true, (true, true)))))))
| Xee -> (false, (true, (true, (true, (false, (true, (true, true)))))))
| Xef -> (true, (true, (true, (true, (false, (true, (true, true)))))))
| Xf0 -> (false, (false, (false, (false, (true, (true, (true, true)))))))
| Xf1 -> (true, (false, (false, (false, (true, (true, (true, true)))))))
| Xf2 -> (false, (true, (false, (false, (true, (true, (true, true)))))))
| Xf3 -> (true, (true, (false, (false, (true, (true, (true, true)))))))
| Xf4 -> (false, (false, (true, (false, (true, (true, (true, true)))))))
| Xf5 -> (true, (false, (true, (false, (true, (true, (true, true)))))))
| Xf6 -> (false, (true, (true, (false, (true, (true, (true, true)))))))
| Xf7 -> (true, (true, (true, (false, (true, (true, (true, true)))))))
| Xf8 -> (false, (false, (false, (true, (true, (true, (true, true)))))))
| Xf9 -> (true, (false, (false, (true, (true, (true, (true, true)))))))
| Xfa -> (false, (true, (false, (true, (true, (true, (true, true)))))))
| Xfb -> (true, (true, (false, (true, (true, (true, (true, true)))))))
| Xfc -> (false, (false, (true, (true, (true, (true, (true, true)))))))
| Xfd -> (true, (false, (true, (true, (true, (true, (true, true)))))))
| Xfe -> (false, (true, (true, (true, (true, (true, (true, true)))))))
| Xff -> (true, (true, (true, (true, (true, (true, (true, true)))))))

(** val eqb : bool -> bool -> bool **)

let eqb b1 b2 =
  if b1 then b2 else if b2 then false else true

module Nat =
 struct
  (** val leb : nat -> nat -> bool **)

  let rec leb n0 m =
    match n0 with
    | O -> true
    | S n' -> (match m with
               | O -> false
               | S m' -> leb n' m')

  (** val ltb : nat -> nat -> bool **)

  let ltb n0 m =
    leb (S n0) m
 end

(** val flat_map : ('a1 -> 'a2 list) -> 'a1 list -> 'a2 list **)

let rec flat_map f = function
| [] -> []
| x :: t -> app (f x) (flat_map f t)

(** val repeat : 'a1 -> nat -> 'a1 list **)

let rec repeat x = function
| O -> []
| S k -> x :: (repeat x k)

type positive =
| XI of positive
| XO of positive
| XH

type n =
| N0
| Npos of positive

type z =
| Z0
| Zpos of positive
| Zneg of positive

module Pos =
 struct
  type mask =
  | IsNul
  | IsPos of positive
  | IsNeg
 end

module Coq_Pos =
 struct
  (** val succ : positive -> positive **)

  let rec succ = function
  | XI p -> XO (succ p)
  | XO p -> XI p
  | XH -> XO XH

  (** val add : positive -> positive -> positive **)

  let rec add x y =
    match x with
    | XI p ->
      (match y with
       | XI q -> XO (add_carry p q)
       | XO q -> XI (add p q)
       | XH -> XO (succ p))
    | XO p ->
      (match y with
       | XI q -> XI (add p q)
       | XO q -> XO (add p q)
       | XH -> XI p)
    | XH -> (match y with
             | XI q -> XO (succ q)
             | XO q -> XI q
             | XH -> XO XH)

  (** val add_carry : positive -> positive -> positive **)

  and add_carry x y =
    match x with
    | XI p ->
      (match y with
       | XI q -> XI (add_carry p q)
       | XO q -> XO (add_carry p q)
       | XH -> XI (succ p))
    | XO p ->
      (match y with
       | XI q -> XO (add_carry p q)
       | XO q -> XI (add p q)
       | XH -> XO (succ p))
    | XH ->
      (match y with
       | XI q -> XI (succ q)
       | XO q -> XO (succ q)
       | XH -> XI XH)

  (** val pred_double : positive -> positive **)

  let rec pred_double = function
  | XI p -> XI (XO p)
  | XO p -> XI (pred_double p)
  | XH -> XH

  type mask = Pos.mask =
  | IsNul
  | IsPos of positive
  | IsNeg

  (** val succ_double_mask : mask -> mask **)

  let succ_double_mask = function
  | IsNul -> IsPos XH
  | IsPos p -> IsPos (XI p)
  | IsNeg -> IsNeg

  (** val double_mask : mask -> mask **)

  let double_mask = function
  | IsPos p -> IsPos (XO p)
  | x0 -> x0

  (** val double_pred_mask : positive -> mask **)

  let double_pred_mask = function
  | XI p -> IsPos (XO (XO p))
  | XO p -> IsPos (XO (pred_double p))
  | XH -> IsNul

  (** val sub_mask : positive -> positive -> mask **)

  let rec sub_mask x y =
    match x with
    | XI p ->
      (match y with
       | XI q -> double_mask (sub_mask p q)
       | XO q -> succ_double_mask (sub_mask p q)
       | XH -> IsPos (XO p))
    | XO p ->
      (match y with
       | XI q -> succ_double_mask (sub_mask_carry p q)
       | XO q -> double_mask (sub_mask p q)
       | XH -> IsPos (pred_double p))
    | XH -> (match y with
             | XH -> IsNul
             | _ -> IsNeg)

  (** val sub_mask_carry : positive -> positive -> mask **)

  and sub_mask_carry x y =
    match x with
    | XI p ->
      (match y with
       | XI q -> succ_double_mask (sub_mask_carry p q)
       | XO q -> double_mask (sub_mask p q)
       | XH -> IsPos (pred_double p))
    | XO p ->
      (match y with
       | XI q -> double_mask (sub_mask_carry p q)
       | XO q -> succ_double_mask (sub_mask_carry p q)
       | XH -> double_pred_mask p)
    | XH -> IsNeg

  (** val mul : positive -> positive -> positive **)

  let rec mul x y =
    match x with
    | XI p -> add y (XO (mul p y))
    | XO p -> XO (mul p y)
    | XH -> y

  (** val iter : ('a1 -> 'a1) -> 'a1 -> positive -> 'a1 **)

  let rec iter f x = function
  | XI n' -> f (iter f (iter f x n') n')
  | XO n' -> iter f (iter f x n') n'
  | XH -> f x

  (** val pow : positive -> positive -> positive **)

  let pow x =
    iter (mul x) XH

  (** val compare_cont : comparison -> positive -> positive -> comparison **)

  let rec compare_cont r x y =
    match x with
    | XI p ->
      (match y with
       | XI q -> compare_cont r p q
       | XO q -> compare_cont Gt p q
       | XH -> Gt)
    | XO p ->
      (match y with
       | XI q -> compare_cont Lt p q
       | XO q -> compare_cont r p q
       | XH -> Gt)
    | XH -> (match y with
             | XH -> r
             | _ -> Lt)

  (** val compare : positive -> positive -> comparison **)

  let compare =
    compare_cont Eq

  (** val eqb : positive -> positive -> bool **)

  let rec eqb p q =
    match p with
    | XI p0 -> (match q with
                | XI q0 -> eqb p0 q0
                | _ -> false)
    | XO p0 -> (match q with
                | XO q0 -> eqb p0 q0
                | _ -> false)
    | XH -> (match q with
             | XH -> true
             | _ -> false)

  (** val iter_op : ('a1 -> 'a1 -> 'a1) -> positive -> 'a1 -> 'a1 **)

  let rec iter_op op p a =
    match p with
    | XI p0 -> op a (iter_op op p0 (op a a))
    | XO p0 -> iter_op op p0 (op a a)
    | XH -> a

  (** val to_nat : positive -> nat **)

  let to_nat x =
    iter_op Coq__1.add x (S O)
 end

module N =
 struct
  (** val succ_double : n -> n **)

  let succ_double = function
  | N0 -> Npos XH
  | Npos p -> Npos (XI p)

  (** val double : n -> n **)

  let double = function
  | N0 -> N0
  | Npos p -> Npos (XO p)

  (** val add : n -> n -> n **)

  let add n0 m =
    match n0 with
    | N0 -> m
    | Npos p -> (match m with
                 | N0 -> n0
                 | Npos q -> Npos (Coq_Pos.add p q))

  (** val sub : n -> n -> n **)

  let sub n0 m =
    match n0 with
    | N0 -> N0
    | Npos n' ->
      (match m with
       | N0 -> n0
       | Npos m' ->
         (match Coq_Pos.sub_mask n' m' with
          | Coq_Pos.IsPos p -> Npos p
          | _ -> N0))

  (** val mul : n -> n -> n **)

  let mul n0 m =
    match n0 with
    | N0 -> N0
    | Npos p -> (match m with
                 | N0 -> N0
                 | Npos q -> Npos (Coq_Pos.mul p q))

  (** val compare : n -> n -> comparison **)

  let compare n0 m =
    match n0 with
    | N0 -> (match m with
             | N0 -> Eq
             | Npos _ -> Lt)
    | Npos n' -> (match m with
                  | N0 -> Gt
                  | Npos m' -> Coq_Pos.compare n' m')

  (** val eqb : n -> n -> bool **)

  let eqb n0 m =
    match n0 with
    | N0 -> (match m with
             | N0 -> true
             | Npos _ -> false)
    | Npos p -> (match m with
                 | N0 -> false
                 | Npos q -> Coq_Pos.eqb p q)

  (** val leb : n -> n -> bool **)

  let leb x y =
    match compare x y with
    | Gt -> false
    | _ -> true

  (** val ltb : n -> n -> bool **)

  let ltb x y =
    match compare x y with
    | Lt -> true
    | _ -> false

  (** val pow : n -> n -> n **)

  let pow n0 = function
  | N0 -> Npos XH
  | Npos p0 -> (match n0 with
                | N0 -> N0
                | Npos q -> Npos (Coq_Pos.pow q p0))

  (** val pos_div_eucl : positive -> n -> n * n **)

  let rec pos_div_eucl a b =
    match a with
    | XI a' ->
      let (q, r) = pos_div_eucl a' b in
      let r' = succ_double r in
      if leb b r' then ((succ_double q), (sub r' b)) else ((double q), r')
    | XO a' ->
      let (q, r) = pos_div_eucl a' b in
      let r' = double r in
      if leb b r' then ((succ_double q), (sub r' b)) else ((double q), r')
    | XH ->
      (match b with
       | N0 -> (N0, (Npos XH))
       | Npos p -> (match p with
                    | XH -> ((Npos XH), N0)
                    | _ -> (N0, (Npos XH))))

  (** val div_eucl : n -> n -> n * n **)

  let div_eucl a b =
    match a with
    | N0 -> (N0, N0)
    | Npos na -> (match b with
                  | N0 -> (N0, a)
                  | Npos _ -> pos_div_eucl na b)

  (** val div : n -> n -> n **)

  let div a b =
    fst (div_eucl a b)

  (** val modulo : n -> n -> n **)

  let modulo a b =
    snd (div_eucl a b)
 end

(** val eqb0 : byte -> byte -> bool **)

let eqb0 a b =
  let (a0, p) = to_bits a in
  let (a1, p0) = p in
  let (a2, p1) = p0 in
  let (a3, p2) = p1 in
  let (a4, p3) = p2 in
  let (a5, p4) = p3 in
  let (a6, a7) = p4 in
  let (b0, p5) = to_bits b in
  let (b1, p6) = p5 in
  let (b2, p7) = p6 in
  let (b3, p8) = p7 in
  let (b4, p9) = p8 in
  let (b5, p10) = p9 in
  let (b6, b7) = p10 in
  (&&)
    ((&&)
      ((&&)
        ((&&)
          ((&&) ((&&) ((&&) (eqb a0 b0) (eqb a1 b1)) (eqb a2 b2)) (eqb a3 b3))
          (eqb a4 b4)) (eqb a5 b5)) (eqb a6 b6)) (eqb a7 b7)

(** val to_N : byte -> n **)

let to_N = function
| X00 -> N0
| X01 -> Npos XH
| X02 -> Npos (XO XH)
| X03 -> Npos (XI XH)
| X04 -> Npos (XO (XO XH))
| X05 -> Npos (XI (XO XH))
| X06 -> Npos (XO (XI XH))
| X07 -> Npos (XI (XI XH))
| X08 -> Npos (XO (XO (XO XH)))
| X09 -> Npos (XI (XO (XO XH)))
| X0a -> Npos (XO (XI (XO XH)))
| X0b -> Npos (XI (XI (XO XH)))
| X0c -> Npos (XO (XO (XI XH)))
| X0d -> Npos (XI (XO (XI XH)))
| X0e -> Npos (XO (XI (XI XH)))
| X0f -> Npos (XI (XI (XI XH)))
| X10 -> Npos (XO (XO (XO (XO XH))))
| X11 -> Npos (XI (XO (XO (XO XH))))
| X12 -> Npos (XO (XI (XO (XO XH))))
| X13 -> Npos (XI (XI (XO (XO XH))))
| X14 -> Npos (XO (XO (XI (XO XH))))
| X15 -> Npos (XI (XO (XI (XO XH))))
| X16 -> Npos (XO (XI (XI (XO XH))))
| X17 -> Npos (XI (XI (XI (XO XH))))
| X18 -> Npos (XO (XO (XO (XI XH))))
| X19 -> Npos (XI (XO (XO (XI XH))))
| X1a -> Npos (XO (XI (XO (XI XH))))
| X1b -> Npos (XI (XI (XO (XI XH))))
| X1c -> Npos (XO (XO (XI (XI XH))))
| X1d -> Npos (XI (XO (XI (XI XH))))
| X1e -> Npos (XO (XI (XI (XI XH))))
| X1f -> Npos (XI (XI (XI (XI XH))))
| X20 -> Npos (XO (XO (XO (XO (XO XH)))))
| X21 -> Npos (XI (XO (XO (XO (XO XH)))))
| X22 -> Npos (XO (XI (XO (XO (XO XH)))))
| X23 -> Npos (XI (XI (XO (XO (XO XH)))))
| X24 -> Npos (XO (XO (XI (XO (XO XH)))))
| X25 -> Npos (XI (XO (XI (XO (XO XH)))))
| X26 -> Npos (XO (XI (XI (XO (XO XH)))))
| X27 -> Npos (XI (XI (XI (XO (XO XH)))))
| X28 -> Npos (XO (XO (XO (XI (XO XH)))))
| X29 -> Npos (XI (XO (XO (XI (XO XH)))))
| X2a -> Npos (XO (XI (XO (XI (XO XH)))))
| X2b -> Npos (XI (XI (XO (XI (XO XH)))))
| X2c -> Npos (XO (XO (XI (XI (XO XH)))))
| X2d -> Npos (XI (XO (XI (XI (XO XH)))))
| X2e -> Npos (XO (XI (XI (XI (XO XH)))))
| X2f -> Npos (XI (XI (XI (XI (XO XH)))))
| X30 -> Npos (XO (XO (XO (XO (XI XH)))))
| X31 -> Npos (XI (XO (XO (XO (XI XH)))))
| X32 -> Npos (XO (XI (XO (XO (XI XH)))))
| X33 -> Npos (XI (XI (XO (XO (XI XH)))))
| X34 -> Npos (XO (XO (XI (XO (XI XH)))))
| X35 -> Npos (XI (XO (XI (XO (XI XH)))))
| X36 -> Npos (XO (XI (XI (XO (XI XH)))))
| X37 -> Npos (XI (XI (XI (XO (XI XH)))))
| X38 -> Npos (XO (XO (XO (XI (XI XH)))))
| X39 -> Npos (XI (XO (XO (XI (XI XH)))))
| X3a -> Npos (XO (XI (XO (XI (XI XH)))))
| X3b -> Npos (XI (XI (XO (XI (XI XH)))))
| X3c -> Npos (XO (XO (XI (XI (XI XH)))))
| X3d -> Npos (XI (XO (XI (XI (XI XH)))))
| X3e -> Npos (XO (XI (XI (XI (XI XH)))))
| X3f -> Npos (XI (XI (XI (XI (XI XH)))))
| X40 -> Npos (XO (XO (XO (XO (XO (XO XH))))))
| X41 -> Npos (XI (XO (XO (XO (XO (XO XH))))))
| X42 -> Npos (XO (XI (XO (XO (XO (XO XH))))))
| X43 -> Npos (XI (XI (XO (XO (XO (XO XH))))))
| X44 -> Npos (XO (XO (XI (XO (XO (XO XH))))))
| X45 -> Npos (XI (XO (XI (XO (XO (XO XH))))))
| X46 -> Npos (XO (XI (XI (XO (XO (XO XH))))))
| X47 -> Npos (XI (XI (XI (XO (XO (XO XH))))))
| X48 -> Npos (XO (XO (XO (XI (XO (XO XH))))))
| X49 -> Npos (XI (XO (XO (XI (XO (XO XH))))))
| X4a -> Npos (XO (XI (XO (XI (XO (XO XH))))))
| X4b -> Npos (XI (XI (XO (XI (XO (XO XH))))))
| X4c -> Npos (XO (XO (XI (XI (XO (XO XH))))))
| X4d -> Npos (XI (XO (XI (XI (XO (XO XH))))))
| X4e -> Npos (XO (XI (XI (XI (XO (XO XH))))))
| X4f -> Npos (XI (XI (XI (XI (XO (XO XH))))))
| X50 -> Npos (XO (XO (XO (XO (XI (XO XH))))))
| X51 -> Npos (XI (XO (XO (XO (XI (XO XH))))))
| X52 -> Npos (XO (XI (XO (XO (XI (XO XH))))))
| X53 -> Npos (XI (XI (XO (XO (XI (XO XH))))))
| X54 -> Npos (XO (XO (XI (XO (XI (XO XH))))))
| X55 -> Npos (XI (XO (XI (XO (XI (XO XH))))))
| X56 -> Npos (XO (XI (XI (XO (XI (XO XH))))))
| X57 -> Npos (XI (XI (XI (XO (XI (XO XH))))))
| X58 -> Npos (XO (XO (XO (XI (XI (XO XH))))))
| X59 -> Npos (XI (XO (XO (XI (XI (XO XH))))))
| X5a -> Npos (XO (XI (XO (XI (XI (XO XH))))))
| X5b -> Npos (XI (XI (XO (XI (XI (XO XH))))))
| X5c -> Npos (XO (XO (XI (XI (XI (XO XH))))))
| X5d -> Npos (XI (XO (XI (XI (XI (XO XH))))))
| X5e -> Npos (XO (XI (XI (XI (XI (XO XH))))))
| X5f -> Npos (XI (XI (XI (XI (XI (XO XH))))))
| X60 -> Npos (XO (XO (XO (XO (XO (XI XH))))))
| X61 -> Npos (XI (XO (XO (XO (XO (XI XH))))))
| X62 -> Npos (XO (XI (XO (XO (XO (XI XH))))))
| X63 -> Npos (XI (XI (XO (XO (XO (XI XH))))))
| X64 -> Npos (XO (XO (XI (XO (XO (XI XH))))))
| X65 -> Npos (XI (XO (XI (XO (XO (XI XH))))))
| X66 -> Npos (XO (XI (XI (XO (XO (XI XH))))))
| X67 -> Npos (XI (XI (XI (XO (XO (XI XH))))))
| X68 -> Npos (XO (XO (XO (XI (XO (XI XH))))))
| X69 -> Npos (XI (XO (XO (XI (XO (XI XH))))))
| X6a -> Npos (XO (XI (XO (XI (XO (XI XH))))))
| X6b -> Npos (XI (XI (XO (XI (XO (XI XH))))))
| X6c -> Npos (XO (XO (XI (XI (XO (XI XH))))))
| X6d -> Npos (XI (XO (XI (XI (XO (XI XH))))))
| X6e -> Npos (XO (XI (XI (XI (XO (XI XH))))))
| X6f -> Npos (XI (XI (XI (XI (XO (XI XH))))))
| X70 -> Npos (XO (XO (XO (XO (XI (XI XH))))))
| X71 -> Npos (XI (XO (XO (XO (XI (XI XH))))))
| X72 -> Npos (XO (XI (XO (XO (XI (XI XH))))))
| X73 -> Npos (XI (XI (XO (XO (XI (XI XH))))))
| X74 -> Npos (XO (XO (XI (XO (XI (XI XH))))))
| X75 -> Npos (XI (XO (XI (XO (XI (XI XH))))))
| X76 -> Npos (XO (XI (XI (XO (XI (XI XH))))))
| X77 -> Npos (XI (XI (XI (XO (XI (XI XH))))))
| X78 -> Npos (XO (XO (XO (XI (XI (XI XH))))))
| X79 -> Npos (XI (XO (XO (XI (XI (XI XH))))))
| X7a -> Npos (XO (XI (XO (XI (XI (XI XH))))))
| X7b -> Npos (XI (XI (XO (XI (XI (XI XH))))))
| X7c -> Npos (XO (XO (XI (XI (XI (XI XH))))))
| X7d -> Npos (XI (XO (XI (XI (XI (XI XH))))))
| X7e -> Npos (XO (XI (XI (XI (XI (XI XH))))))
| X7f -> Npos (XI (XI (XI (XI (XI (XI XH))))))
| X80 -> Npos (XO (XO (XO (XO (XO (XO (XO XH)))))))
| X81 -> Npos (XI (XO (XO (XO (XO (XO (XO XH)))))))
| X82 -> Npos (XO (XI (XO (XO (XO (XO (XO XH)))))))
| X83 -> Npos (XI (XI (XO (XO (XO (XO (XO XH)))))))
| X84 -> Npos (XO (XO (XI (XO (XO (XO (XO XH)))))))
| X85 -> Npos (XI (XO (XI (XO (XO (XO (XO XH)))))))
| X86 -> Npos (XO (XI (XI (XO (XO (XO (XO XH)))))))
| X87 -> Npos (XI (XI (XI (XO (XO (XO (XO XH)))))))
| X88 -> Npos (XO (XO (XO (XI (XO (XO (XO XH)))))))
| X89 -> Npos (XI (XO (XO (XI (XO (XO (XO XH)))))))
| X8a -> Npos (XO (XI (XO (XI (XO (XO (XO XH)))))))
| X8b -> Npos (XI (XI (XO (XI (XO (XO (XO XH)))))))
| X8c -> Npos (XO (XO (XI (XI (XO (XO (XO XH)))))))
| X8d -> Npos (XI (XO (XI (XI (XO (XO (XO XH)))))))
| X8e -> Npos (XO (XI (XI (XI (XO (XO (XO XH)))))))
| X8f -> Npos (XI (XI (XI (XI (XO (XO (XO XH)))))))
| X90 -> Npos (XO (XO (XO (XO (XI (XO (XO XH)))))))
| X91 -> Npos (XI (XO (XO (XO (XI (XO (XO XH)))))))
| X92 -> Npos (XO (XI (XO (XO (XI (XO (XO XH)))))))
| X93 -> Npos (XI (XI (XO (XO (XI (XO (XO XH)))))))
| X94 -> Npos (XO (XO (XI (XO (XI (XO (XO XH)))))))
| X95 -> Npos (XI (XO (XI (XO (XI (XO (XO XH)))))))
| X96 -> Npos (XO (XI (XI (XO (XI (XO (XO XH)))))))
| X97 -> Npos (XI (XI (XI (XO (XI (XO (XO XH)))))))
| X98 -> Npos (XO (XO (XO (XI (XI (XO (XO XH)))))))
| X99 -> Npos (XI (XO (XO (XI (XI (XO (XO XH)))))))
| X9a -> Npos (XO (XI (XO (XI (XI (XO (XO XH)))))))
| X9b -> Npos (XI (XI (XO (XI (XI (XO (XO XH)))))))
| X9c -> Npos (XO (XO (XI (XI (XI (XO (XO XH)))))))
| X9d -> Npos (XI (XO (XI (XI (XI (XO (XO XH)))))))
| X9e -> Npos (XO (XI (XI (XI (XI (XO (XO XH)))))))
| X9f -> Npos (XI (XI (XI (XI (XI (XO (XO XH)))))))
| Xa0 -> Npos (XO (XO (XO (XO (XO (XI (XO XH)))))))
| Xa1 -> Npos (XI (XO (XO (XO (XO (XI (XO XH)))))))
| Xa2 -> Npos (XO (XI (XO (XO (XO (XI (XO XH)))))))
| Xa3 -> Npos (XI (XI (XO (XO (XO (XI (XO XH)))))))
| Xa4 -> Npos (XO (XO (XI (XO (XO (XI (XO XH)))))))
| Xa5 -> Npos (XI (XO (XI (XO (XO (XI (XO XH)))))))
| Xa6 -> Npos (XO (XI (XI (XO (XO (XI (XO XH)))))))
| Xa7 -> Npos (XI (XI (XI (XO (XO (XI (XO XH)))))))
| Xa8 -> Npos (XO (XO (XO (XI (XO (XI (XO XH)))))))
| Xa9 -> Npos (XI (XO (XO (XI (XO (XI (XO XH)))))))
| Xaa -> Npos (XO (XI (XO (XI (XO (XI (XO XH)))))))
| Xab -> Npos (XI (XI (XO (XI (XO (XI (XO XH)))))))
| Xac -> Npos (XO (XO (XI (XI (XO (XI (XO XH)))))))
| Xad -> Npos (XI (XO (XI (XI (XO (XI (XO XH)))))))
| Xae -> Npos (XO (XI (XI (XI (XO (XI (XO XH)))))))
| Xaf -> Npos (XI (XI (XI (XI (XO (XI (XO XH)))))))
| Xb0 -> Npos (XO (XO (XO (XO (XI (XI (XO XH)))))))
| Xb1 -> Npos (XI (XO (XO (XO (XI (XI (XO XH)))))))
| Xb2 -> Npos (XO (XI (XO (XO (XI (XI (XO XH)))))))
| Xb3 -> Npos (XI (XI (XO (XO (XI (XI (XO XH)))))))
| Xb4 -> Npos (XO (XO (XI (XO (XI (XI (XO XH)))))))
| Xb5 -> Npos (XI (XO (XI (XO (XI (XI (XO XH)))))))
| Xb6 -> Npos (XO (XI (XI (XO (XI (XI (XO XH)))))))
| Xb7 -> Npos (XI (XI (XI (XO (XI (XI (XO XH)))))))
| Xb8 -> Npos (XO (XO (XO (XI (XI (XI (XO XH)))))))
| Xb9 -> Npos (XI (XO (XO (XI (XI (XI (XO XH)))))))
| Xba -> Npos (XO (XI (XO (XI (XI (XI (XO XH)))))))
| Xbb -> Npos (XI (XI (XO (XI (XI (XI (XO XH)))))))
| Xbc -> Npos (XO (XO (XI (XI (XI (XI (XO XH)))))))
| Xbd -> Npos (XI (XO (XI (XI (XI (XI (XO XH)))))))
| Xbe -> Npos (XO (XI (XI (XI (XI (XI (XO XH)))))))
| Xbf -> Npos (XI (XI (XI (XI (XI (XI (XO XH)))))))
| Xc0 -> Npos (XO (XO (XO (XO (XO (XO (XI XH)))))))
| Xc1 -> Npos (XI (XO (XO (XO (XO (XO (XI XH)))))))
| Xc2 -> Npos (XO (XI (XO (XO (XO (XO (XI XH)))))))
| Xc3 -> Npos (XI (XI (XO (XO (XO (XO (XI XH)))))))
| Xc4 -> Npos (XO (XO (XI (XO (XO (XO (XI XH)))))))
| Xc5 -> Npos (XI (XO (XI (XO (XO (XO (XI XH)))))))
| Xc6 -> Npos (XO (XI (XI (XO (XO (XO (XI XH)))))))
| Xc7 -> Npos (XI (XI (XI (XO (XO (XO (XI XH)))))))
| Xc8 -> Npos (XO (XO (XO (XI (XO (XO (XI XH)))))))
| Xc9 -> Npos (XI (XO (XO (XI (XO (XO (XI XH)))))))
| Xca -> Npos (XO (XI (XO (XI (XO (XO (XI XH)))))))
| Xcb -> Npos (XI (XI (XO (XI (XO (XO (XI XH)))))))
| Xcc -> Npos (XO (XO (XI (XI (XO (XO (XI XH)))))))
| Xcd -> Npos (XI (XO (XI (XI (XO (XO (XI XH)))))))
| Xce -> Npos (XO (XI (XI (XI (XO (XO (XI XH)))))))
| Xcf -> Npos (XI (XI (XI (XI (XO (XO (XI XH)))))))
| Xd0 -> Npos (XO (XO (XO (XO (XI (XO (XI XH)))))))
| Xd1 -> Npos (XI (XO (XO (XO (XI (XO (XI XH)))))))
| Xd2 -> Npos (XO (XI (XO (XO (XI (XO (XI XH)))))))
| Xd3 -> Npos (XI (XI (XO (XO (XI (XO (XI XH)))))))
| Xd4 -> Npos (XO (XO (XI (XO (XI (XO (XI XH)))))))
| Xd5 -> Npos (XI (XO (XI (XO (XI (XO (XI XH)))))))
| Xd6 -> Npos (XO (XI (XI (XO (XI (XO (XI XH)))))))
| Xd7 -> Npos (XI (XI (XI (XO (XI (XO (XI XH)))))))
| Xd8 -> Npos (XO (XO (XO (XI (XI (XO (XI XH)))))))
| Xd9 -> Npos (XI (XO (XO (XI (XI (XO (XI XH)))))))
| Xda -> Npos (XO (XI (XO (XI (XI (XO (XI XH)))))))
| Xdb -> Npos (XI (XI (XO (XI (XI (XO (XI XH)))))))
| Xdc -> Npos (XO (XO (XI (XI (XI (XO (XI XH)))))))
| Xdd -> Npos (XI (XO (XI (XI (XI (XO (XI XH)))))))
| Xde -> Npos (XO (XI (XI (XI (XI (XO (XI XH)))))))
| Xdf -> Npos (XI (XI (XI (XI (XI (XO (XI XH)))))))
| Xe0 -> Npos (XO (XO (XO (XO (XO (XI (XI XH)))))))
| Xe1 -> Npos (XI (XO (XO (XO (XO (XI (XI XH)))))))
| Xe2 -> Npos (XO (XI (XO (XO (XO (XI (XI XH)))))))
| Xe3 -> Npos (XI (XI (XO (XO (XO (XI (XI XH)))))))
| Xe4 -> Npos (XO (XO (XI (XO (XO (XI (XI XH)))))))
| Xe5 -> Npos (XI (XO (XI (XO (XO (XI (XI XH)))))))
| Xe6 -> Npos (XO (XI (XI (XO (XO (XI (XI XH)))))))
| Xe7 -> Npos (XI (XI (XI (XO (XO (XI (XI XH)))))))
| Xe8 -> Npos (XO (XO (XO (XI (XO (XI (XI XH)))))))
| Xe9 -> Npos (XI (XO (XO (XI (XO (XI (XI XH)))))))
| Xea -> Npos (XO (XI (XO (XI (XO (XI (XI XH)))))))
| Xeb -> Npos (XI (XI (XO (XI (XO (XI (XI XH)))))))
| Xec -> Npos (XO (XO (XI (XI (XO (XI (XI XH)))))))
| Xed -> Npos (XI (XO (XI (XI (XO (XI (XI XH)))))))
| Xee -> Npos (XO (XI (XI (XI (XO (XI (XI XH)))))))
| Xef -> Npos (XI (XI (XI (XI (XO (XI (XI XH)))))))
| Xf0 -> Npos (XO (XO (XO (XO (XI (XI (XI XH)))))))
| Xf1 -> Npos (XI (XO (XO (XO (XI (XI (XI XH)))))))
| Xf2 -> Npos (XO (XI (XO (XO (XI (XI (XI XH)))))))
| Xf3 -> Npos (XI (XI (XO (XO (XI (XI (XI XH)))))))
| Xf4 -> Npos (XO (XO (XI (XO (XI (XI (XI XH)))))))
| Xf5 -> Npos (XI (XO (XI (XO (XI (XI (XI XH)))))))
| Xf6 -> Npos (XO (XI (XI (XO (XI (XI (XI XH)))))))
| Xf7 -> Npos (XI (XI (XI (XO (XI (XI (XI XH)))))))
| Xf8 -> Npos (XO (XO (XO (XI (XI (XI (XI XH)))))))
| Xf9 -> Npos (XI (XO (XO (XI (XI (XI (XI XH)))))))
| Xfa -> Npos (XO (XI (XO (XI (XI (XI (XI XH)))))))
| Xfb -> Npos (XI (XI (XO (XI (XI (XI (XI XH)))))))
| Xfc -> Npos (XO (XO (XI (XI (XI (XI (XI XH)))))))
| Xfd -> Npos (XI (XO (XI (XI (XI (XI (XI XH)))))))
| Xfe -> Npos (XO (XI (XI (XI (XI (XI (XI XH)))))))
| Xff -> Npos (XI (XI (XI (XI (XI (XI (XI XH)))))))

(** val of_N : n -> byte option **)

let of_N = function
| N0 -> Some X00
| Npos p ->
  (match p with
   | XI p0 ->
     (match p0 with
      | XI p1 ->
        (match p1 with
         | XI p2 ->
           (match p2 with
            | XI p3 ->
              (match p3 with
               | XI p4 ->
                 (match p4 with
                  | XI p5 ->
                    (match p5 with
                     | XI p6 -> (match p6 with
                                 | XH -> Some Xff
                                 | _ -> None)
                     | XO p6 -> (match p6 with
                                 | XH -> Some Xbf
                                 | _ -> None)
                     | XH -> Some X7f)
                  | XO p5 ->
                    (match p5 with
                     | XI p6 -> (match p6 with
                                 | XH -> Some Xdf
                                 | _ -> None)
                     | XO p6 -> (match p6 with
                                 | XH -> Some X9f
                                 | _ -> None)
                     | XH -> Some X5f)
                  | XH -> Some X3f)
               | XO p4 ->
                 (match p4 with
                  | XI p5 ->
                    (match p5 with
                     | XI p6 -> (match p6 with
                                 | XH -> Some Xef
                                 | _ -> None)
                     | XO p6 -> (match p6 with
                                 | XH -> Some Xaf
                                 | _ -> None)
                     | XH -> Some X6f)
                  | XO p5 ->
                    (match p5 with
                     | XI p6 -> (match p6 with
                                 | XH -> Some Xcf
                                 | _ -> None)
                     | XO p6 -> (match p6 with
                                 | XH -> Some X8f
                                 | _ -> None)
                     | XH -> Some X4f)
                  | XH -> Some X2f)
               | XH -> Some X1f)
            | XO p3 ->
              (match p3 with
               | XI p4 ->
                 (match p4 with
                  | XI p5 ->
                    (match p5 with
                     | XI p6 -> (match p6 with
                                 | XH -> Some Xf7
                                 | _ -> None)
                     | XO p6 -> (match p6 with
                                 | XH -> Some Xb7
                                 | _ -> None)
                     | XH -> Some X77)
                  | XO p5 ->
                    (match p5 with
                     | XI p6 -> (match p6 with
                                 | XH -> Some Xd7
                                 | _ -> None)
                     | XO p6 -> (match p6 with
                                 | XH -> Some X97
                                 | _ -> None)
                     | XH -> Some X57)
                  | XH -> Some X37)
               | XO p4 ->
                 (match p4 with
                  | XI p5 ->
                    (match p5 with
                     | XI p6 -> (match p6 with
                                 | XH -> Some Xe7
                                 | _ -> None)
                     | XO p6 -> (match p6 with
                                 | XH -> Some Xa7
                                 | _ -> None)
                     | XH -> Some X67)
                  | XO p5 ->
                    (match p5 with
                     | XI p6 -> (match p6 with
                                 | XH -> Some Xc7
                                 | _ -> None)
                     | XO p6 -> (match p6 with
                                 | XH -> Some X87
                                 | _ -> None)
                     | XH -> Some X47)
                  | XH -> Some X27)
               | XH -> Some X17)
            | XH -> Some X0f)
         | XO p2 ->
           (match p2 with
            | XI p3 ->
              (match p3 with
               | XI p4 ->
                 (match p4 with
                  | XI p5 ->
                    (match p5 with
                     | XI p6 -> (match p6 with
                                 | XH -> Some Xfb
                                 | _ -> None)
                     | XO p6 -> (match p6 with
                                 | XH -> Some Xbb
                                 | _ -> None)
                     | XH -> Some X7b)
                  | XO p5 ->
                    (match p5 with
                     | XI p6 -> (match p6 with
                                 | XH -> Some Xdb
                                 | _ -> None)
                     | XO p6 -> (match p6 with
                                 | XH -> Some X9b
                                 | _ -> None)
                     | XH -> Some X5b)
                  | XH -> Some X3b)
               | XO p4 ->
                 (match p4 with
                  | XI p5 ->
                    (match p5 with
                     | XI p6 -> (match p6 with
                                 | XH -> Some Xeb
                                 | _ -> None)
                     | XO p6 -> (match p6 with
                                 | XH -> Some Xab
                                 | _ -> None)
                     | XH -> Some X6b)
                  | XO p5 ->
                    (match p5 with
                     | XI p6 -> (match p6 with
                                 | XH -> Some Xcb
                                 | _ -> None)
                     | XO p6 -> (match p6 with
                                 | XH -> Some X8b
                                 | _ -> None)
                     | XH -> Some X4b)
                  | XH -> Some X2b)
               | XH -> Some X1b)
            | XO p3 ->
              (match p3 with
               | XI p4 ->
                 (match p4 with
                  | XI p5 ->
                    (match p5 with
                     | XI p6 -> (match p6 with
                                 | XH -> Some Xf3
                                 | _ -> None)
                     | XO p6 -> (match p6 with
                                 | XH -> Some Xb3
                                 | _ -> None)
                     | XH -> Some X73)
                  | XO p5 ->
                    (match p5 with
                     | XI p6 -> (match p6 with
                                 | XH -> Some Xd3
                                 | _ -> None)
                     | XO p6 -> (match p6 with
                                 | XH -> Some X93
                                 | _ -> None)
                     | XH -> Some X53)
                  | XH -> Some X33)
               | XO p4 ->
                 (match p4 with
                  | XI p5 ->
                    (match p5 with
                     | XI p6 -> (match p6 with
                                 | XH -> Some Xe3
                                 | _ -> None)
                     | XO p6 -> (match p6 with
                                 | XH -> Some Xa3
                                 | _ -> None)
                     | XH -> Some X63)
                  | XO p5 ->
                    (match p5 with
                     | XI p6 -> (match p6 with
                                 | XH -> Some Xc3
                                 | _ -> None)
                     | XO p6 -> (match p6 with
                                 | XH -> Some X83
                                 | _ -> None)
                     | XH -> Some X43)
                  | XH -> Some X23)
               | XH -> Some X13)
            | XH -> Some X0b)
         | XH -> Some X07)
      | XO p1 ->
        (match p1 with
         | XI p2 ->
           (match p2 with
            | XI p3 ->
              (match p3 with
               | XI p4 ->
                 (match p4 with
                  | XI p5 ->
                    (match p5 with
                     | XI p6 -> (match p6 with
                                 | XH -> Some Xfd
                                 | _ -> None)
                     | XO p6 -> (match p6 with
                                 | XH -> Some Xbd
                                 | _ -> None)
                     | XH -> Some X7d)
                  | XO p5 ->
                    (match p5 with
                     | XI p6 -> (match p6 with
                                 | XH -> Some Xdd
                                 | _ -> None)
                     | XO p6 -> (match p6 with
                                 | XH -> Some X9d
                                 | _ -> None)
                     | XH -> Some X5d)
                  | XH -> Some X3d)
               | XO p4 ->
                 (match p4 with
                  | XI p5 ->
                    (match p5 with
                     | XI p6 -> (match p6 with
                                 | XH -> Some Xed
                                 | _ -> None)
                     | XO p6 -> (match p6 with
                                 | XH -> Some Xad
                                 | _ -> None)
                     | XH -> Some X6d)
                  | XO p5 ->
                    (match p5 with
                     | XI p6 -> (match p6 with
                                 | XH -> Some Xcd
                                 | _ -> None)
                     | XO p6 -> (match p6 with
                                 | XH -> Some X8d
                                 | _ -> None)
                     | XH -> Some X4d)
                  | XH -> Some X2d)
               | XH -> Some X1d)
            | XO p3 ->
              (match p3 with
               | XI p4 ->
                 (match p4 with
                  | XI p5 ->
                    (match p5 with
                     | XI p6 -> (match p6 with
                                 | XH -> Some Xf5
                                 | _ -> None)
                     | XO p6 -> (match p6 with
                                 | XH -> Some Xb5
                                 | _ -> None)
                     | XH -> Some X75)
                  | XO p5 ->
                    (match p5 with
                     | XI p6 -> (match p6 with
                                 | XH -> Some Xd5
                                 | _ -> None)
                     | XO p6 -> (match p6 with
                                 | XH -> Some X95
                                 | _ -> None)
                     | XH -> Some X55)
                  | XH -> Some X35)
               | XO p4 ->
                 (match p4 with
                  | XI p5 ->
                    (match p5 with
                     | XI p6 -> (match p6 with
                                 | XH -> Some Xe5
                                 | _ -> None)
                     | XO p6 -> (match p6 with
                                 | XH -> Some Xa5
                                 | _ -> None)
                     | XH -> Some X65)
                  | XO p5 ->
                    (match p5 with
                     | XI p6 -> (match p6 with
                                 | XH -> Some Xc5
                                 | _ -> None)
                     | XO p6 -> (match p6 with
                                 | XH -> Some X85
                                 | _ -> None)
                     | XH -> Some X45)
                  | XH -> Some X25)
               | XH -> Some X15)
            | XH -> Some X0d)
         | XO p2 ->
           (match p2 with
            | XI p3 ->
              (match p3 with
               | XI p4 ->
                 (match p4 with
                  | XI p5 ->
                    (match p5 with
                     | XI p6 -> (match p6 with
                                 | XH -> Some Xf9
                                 | _ -> None)
                     | XO p6 -> (match p6 with
                                 | XH -> Some Xb9
                                 | _ -> None)
                     | XH -> Some X79)
                  | XO p5 ->
                    (match p5 with
                     | XI p6 -> (match p6 with
                                 | XH -> Some Xd9
                                 | _ -> None)
                     | XO p6 -> (match p6 with
                                 | XH -> Some X99
                                 | _ -> None)
                     | XH -> Some X59)
                  | XH -> Some X39)
               | XO p4 ->
                 (match p4 with
                  | XI p5 ->
                    (match p5 with
                     | XI p6 -> (match p6 with
                                 | XH -> Some Xe9
                                 | _ -> None)
                     | XO p6 -> (match p6 with
                                 | XH -> Some Xa9
                                 | _ -> None)
                     | XH -> Some X69)
                  | XO p5 ->
                    (match p5 with
                     | XI p6 -> (match p6 with
                                 | XH -> Some Xc9
                                 | _ -> None)
                     | XO p6 -> (match p6 with
                                 | XH -> Some X89
                                 | _ -> None)
                     | XH -> Some X49)
                  | XH -> Some X29)
               | XH -> Some X19)
            | XO p3 ->
              (match p3 with
               | XI p4 ->
                 (match p4 with
                  | XI p5 ->
                    (match p5 with
                     | XI p6 -> (match p6 with
                                 | XH -> Some Xf1
                                 | _ -> None)
                     | XO p6 -> (match p6 with
                                 | XH -> Some Xb1
                                 | _ -> None)
                     | XH -> Some X71)
                  | XO p5 ->
                    (match p5 with
                     | XI p6 -> (match p6 with
                                 | XH -> Some Xd1
                                 | _ -> None)
                     | XO p6 -> (match p6 with
                                 | XH -> Some X91
                                 | _ -> None)
                     | XH -> Some X51)
                  | XH -> Some X31)
               | XO p4 ->
                 (match p4 with
                  | XI p5 ->
                    (match p5 with
                     | XI p6 -> (match p6 with
                                 | XH -> Some Xe1
                                 | _ -> None)
                     | XO p6 -> (match p6 with
                                 | XH -> Some Xa1
                                 | _ -> None)
                     | XH -> Some X61)
                  | XO p5 ->
                    (match p5 with
                     | XI p6 -> (match p6 with
                                 | XH -> Some Xc1
                                 | _ -> None)
                     | XO p6 -> (match p6 with
                                 | XH -> Some X81
                                 | _ -> None)
                     | XH -> Some X41)
                  | XH -> Some X21)
               | XH -> Some X11)
            | XH -> Some X09)
         | XH -> Some X05)
      | XH -> Some X03)
   | XO p0 ->
     (match p0 with
      | XI p1 ->
        (match p1 with
         | XI p2 ->
           (match p2 with
            | XI p3 ->
              (match p3 with
               | XI p4 ->
                 (match p4 with
                  | XI p5 ->
                    (match p5 with
                     | XI p6 -> (match p6 with
                                 | XH -> Some Xfe
                                 | _ -> None)
                     | XO p6 -> (match p6 with
                                 | XH -> Some Xbe
                                 | _ -> None)
                     | XH -> Some X7e)
                  | XO p5 ->
                    (match p5 with
                     | XI p6 -> (match p6 with
                                 | XH -> Some Xde
                                 | _ -> None)
                     | XO p6 -> (match p6 with
                                 | XH -> Some X9e
                                 | _ -> None)
                     | XH -> Some X5e)
                  | XH -> Some X3e)
               | XO p4 ->
                 (match p4 with
                  | XI p5 ->
                    (match p5 with
                     | XI p6 -> (match p6 with
                                 | XH -> Some Xee
                                 | _ -> None)
                     | XO p6 -> (match p6 with
                                 | XH -> Some Xae
                                 | _ -> None)
                     | XH -> Some X6e)
                  | XO p5 ->
                    (match p5 with
                     | XI p6 -> (match p6 with
                                 | XH -> Some Xce
                                 | _ -> None)
                     | XO p6 -> (match p6 with
                                 | XH -> Some X8e
                                 | _ -> None)
                     | XH -> Some X4e)
                  | XH -> Some X2e)
               | XH -> Some X1e)
            | XO p3 ->
              (match p3 with
               | XI p4 ->
                 (match p4 with
                  | XI p5 ->
                    (match p5 with
                     | XI p6 -> (match p6 with
                                 | XH -> Some Xf6
                                 | _ -> None)
                     | XO p6 -> (match p6 with
                                 | XH -> Some Xb6
                                 | _ -> None)
                     | XH -> Some X76)
                  | XO p5 ->
                    (match p5 with
                     | XI p6 -> (match p6 with
                                 | XH -> Some Xd6
                                 | _ -> None)
                     | XO p6 -> (match p6 with
                                 | XH -> Some X96
                                 | _ -> None)
                     | XH -> Some X56)
                  | XH -> Some X36)
               | XO p4 ->
                 (match p4 with
                  | XI p5 ->
                    (match p5 with
                     | XI p6 -> (match p6 with
                                 | XH -> Some Xe6
                                 | _ -> None)
                     | XO p6 -> (match p6 with
                                 | XH -> Some Xa6
                                 | _ -> None)
                     | XH -> Some X66)
                  | XO p5 ->
                    (match p5 with
                     | XI p6 -> (match p6 with
                                 | XH -> Some Xc6
                                 | _ -> None)
                     | XO p6 -> (match p6 with
                                 | XH -> Some X86
                                 | _ -> None)
                     | XH -> Some X46)
                  | XH -> Some X26)
               | XH -> Some X16)
            | XH -> Some X0e)
         | XO p2 ->
           (match p2 with
            | XI p3 ->
              (match p3 with
               | XI p4 ->
                 (match p4 with
                  | XI p5 ->
                    (match p5 with
                     | XI p6 -> (match p6 with
                                 | XH -> Some Xfa
                                 | _ -> None)
                     | XO p6 -> (match p6 with
                                 | XH -> Some Xba
                                 | _ -> None)
                     | XH -> Some X7a)
                  | XO p5 ->
                    (match p5 with
                     | XI p6 -> (match p6 with
                                 | XH -> Some Xda
                                 | _ -> None)
                     | XO p6 -> (match p6 with
                                 | XH -> Some X9a
                                 | _ -> None)
                     | XH -> Some X5a)
                  | XH -> Some X3a)
               | XO p4 ->
                 (match p4 with
                  | XI p5 ->
                    (match p5 with
                     | XI p6 -> (match p6 with
                                 | XH -> Some Xea
                                 | _ -> None)
                     | XO p6 -> (match p6 with
                                 | XH -> Some Xaa
                                 | _ -> None)
                     | XH -> Some X6a)
                  | XO p5 ->
                    (match p5 with
                     | XI p6 -> (match p6 with
                                 | XH -> Some Xca
                                 | _ -> None)
                     | XO p6 -> (match p6 with
                                 | XH -> Some X8a
                                 | _ -> None)
                     | XH -> Some X4a)
                  | XH -> Some X2a)
               | XH -> Some X1a)
            | XO p3 ->
              (match p3 with
               | XI p4 ->
                 (match p4 with
                  | XI p5 ->
                    (match p5 with
                     | XI p6 -> (match p6 with
                                 | XH -> Some Xf2
                                 | _ -> None)
                     | XO p6 -> (match p6 with
                                 | XH -> Some Xb2
                                 | _ -> None)
                     | XH -> Some X72)
                  | XO p5 ->
                    (match p5 with
                     | XI p6 -> (match p6 with
                                 | XH -> Some Xd2
                                 | _ -> None)
                     | XO p6 -> (match p6 with
                                 | XH -> Some X92
                                 | _ -> None)
                     | XH -> Some X52)
                  | XH -> Some X32)
               | XO p4 ->
                 (match p4 with
                  | XI p5 ->
                    (match p5 with
                     | XI p6 -> (match p6 with
                                 | XH -> Some Xe2
                                 | _ -> None)
                     | XO p6 -> (match p6 with
                                 | XH -> Some Xa2
                                 | _ -> None)
                     | XH -> Some X62)
                  | XO p5 ->
                    (match p5 with
                     | XI p6 -> (match p6 with
                                 | XH -> Some Xc2
                                 | _ -> None)
                     | XO p6 -> (match p6 with
                                 | XH -> Some X82
                                 | _ -> None)
                     | XH -> Some X42)
                  | XH -> Some X22)
               | XH -> Some X12)
            | XH -> Some X0a)
         | XH -> Some X06)
      | XO p1 ->
        (match p1 with
         | XI p2 ->
           (match p2 with
            | XI p3 ->
              (match p3 with
               | XI p4 ->
                 (match p4 with
                  | XI p5 ->
                    (match p5 with
                     | XI p6 -> (match p6 with
                                 | XH -> Some Xfc
                                 | _ -> None)
                     | XO p6 -> (match p6 with
                                 | XH -> Some Xbc
                                 | _ -> None)
                     | XH -> Some X7c)
                  | XO p5 ->
                    (match p5 with
                     | XI p6 -> (match p6 with
                                 | XH -> Some Xdc
                                 | _ -> None)
                     | XO p6 -> (match p6 with
                                 | XH -> Some X9c
                                 | _ -> None)
                     | XH -> Some X5c)
                  | XH -> Some X3c)
               | XO p4 ->
                 (match p4 with
                  | XI p5 ->
                    (match p5 with
                     | XI p6 -> (match p6 with
                                 | XH -> Some Xec
                                 | _ -> None)
                     | XO p6 -> (match p6 with
                                 | XH -> Some Xac
                                 | _ -> None)
                     | XH -> Some X6c)
                  | XO p5 ->
                    (match p5 with
                     | XI p6 -> (match p6 with
                                 | XH -> Some Xcc
                                 | _ -> None)
                     | XO p6 -> (match p6 with
                                 | XH -> Some X8c
                                 | _ -> None)
                     | XH -> Some X4c)
                  | XH -> Some X2c)
               | XH -> Some X1c)
            | XO p3 ->
              (match p3 with
               | XI p4 ->
                 (match p4 with
                  | XI p5 ->
                    (match p5 with
                     | XI p6 -> (match p6 with
                                 | XH -> Some Xf4
                                 | _ -> None)
                     | XO p6 -> (match p6 with
                                 | XH -> Some Xb4
                                 | _ -> None)
                     | XH -> Some X74)
                  | XO p5 ->
                    (match p5 with
                     | XI p6 -> (match p6 with
                                 | XH -> Some Xd4
                                 | _ -> None)
                     | XO p6 -> (match p6 with
                                 | XH -> Some X94
                                 | _ -> None)
                     | XH -> Some X54)
                  | XH -> Some X34)
               | XO p4 ->
                 (match p4 with
                  | XI p5 ->
                    (match p5 with
                     | XI p6 -> (match p6 with
                                 | XH -> Some Xe4
                                 | _ -> None)
                     | XO p6 -> (match p6 with
                                 | XH -> Some Xa4
                                 | _ -> None)
                     | XH -> Some X64)
                  | XO p5 ->
                    (match p5 with
                     | XI p6 -> (match p6 with
                                 | XH -> Some Xc4
                                 | _ -> None)
                     | XO p6 -> (match p6 with
                                 | XH -> Some X84
                                 | _ -> None)
                     | XH -> Some X44)
                  | XH -> Some X24)
               | XH -> Some X14)
            | XH -> Some X0c)
         | XO p2 ->
           (match p2 with
            | XI p3 ->
              (match p3 with
               | XI p4 ->
                 (match p4 with
                  | XI p5 ->
                    (match p5 with
                     | XI p6 -> (match p6 with
                                 | XH -> Some Xf8
                                 | _ -> None)
                     | XO p6 -> (match p6 with
                                 | XH -> Some Xb8
                                 | _ -> None)
                     | XH -> Some X78)
                  | XO p5 ->
                    (match p5 with
                     | XI p6 -> (match p6 with
                                 | XH -> Some Xd8
                                 | _ -> None)
                     | XO p6 -> (match p6 with
                                 | XH -> Some X98
                                 | _ -> None)
                     | XH -> Some X58)
                  | XH -> Some X38)
               | XO p4 ->
                 (match p4 with
                  | XI p5 ->
                    (match p5 with
                     | XI p6 -> (match p6 with
                                 | XH -> Some Xe8
                                 | _ -> None)
                     | XO p6 -> (match p6 with
                                 | XH -> Some Xa8
                                 | _ -> None)
                     | XH -> Some X68)
                  | XO p5 ->
                    (match p5 with
                     | XI p6 -> (match p6 with
                                 | XH -> Some Xc8
                                 | _ -> None)
                     | XO p6 -> (match p6 with
                                 | XH -> Some X88
                                 | _ -> None)
                     | XH -> Some X48)
                  | XH -> Some X28)
               | XH -> Some X18)
            | XO p3 ->
              (match p3 with
               | XI p4 ->
                 (match p4 with
                  | XI p5 ->
                    (match p5 with
                     | XI p6 -> (match p6 with
                                 | XH -> Some Xf0
                                 | _ -> None)
                     | XO p6 -> (match p6 with
                                 | XH -> Some Xb0
                                 | _ -> None)
                     | XH -> Some X70)
                  | XO p5 ->
                    (match p5 with
                     | XI p6 -> (match p6 with
                                 | XH -> Some Xd0
                                 | _ -> None)
                     | XO p6 -> (match p6 with
                                 | XH -> Some X90
                                 | _ -> None)
                     | XH -> Some X50)
                  | XH -> Some X30)
               | XO p4 ->
                 (match p4 with
                  | XI p5 ->
                    (match p5 with
                     | XI p6 -> (match p6 with
                                 | XH -> Some Xe0
                                 | _ -> None)
                     | XO p6 -> (match p6 with
                                 | XH -> Some Xa0
                                 | _ -> None)
                     | XH -> Some X60)
                  | XO p5 ->
                    (match p5 with
                     | XI p6 -> (match p6 with
                                 | XH -> Some Xc0
                                 | _ -> None)
                     | XO p6 -> (match p6 with
                                 | XH -> Some X80
                                 | _ -> None)
                     | XH -> Some X40)
                  | XH -> Some X20)
               | XH -> Some X10)
            | XH -> Some X08)
         | XH -> Some X04)
      | XH -> Some X02)
   | XH -> Some X01)

module Z =
 struct
  (** val to_nat : z -> nat **)

  let to_nat = function
  | Zpos p -> Coq_Pos.to_nat p
  | _ -> O
 end

type bytes = byte list

(** val b2n : byte -> n **)

let b2n =
  to_N

(** val n2b : n -> byte **)

let n2b n0 =
  match of_N n0 with
  | Some b -> b
  | None -> X00

(** val beqb : byte -> byte -> bool **)

let beqb =
  eqb0

(** val in_range : n -> n -> byte -> bool **)

let in_range lo hi b =
  (&&) (N.leb lo (b2n b)) (N.leb (b2n b) hi)

(** val is_lower : byte -> bool **)

let is_lower b =
  in_range (Npos (XI (XO (XO (XO (XO (XI XH))))))) (Npos (XO (XI (XO (XI (XI
    (XI XH))))))) b

(** val is_upper : byte -> bool **)

let is_upper b =
  in_range (Npos (XI (XO (XO (XO (XO (XO XH))))))) (Npos (XO (XI (XO (XI (XI
    (XO XH))))))) b

(** val is_digit : byte -> bool **)

let is_digit b =
  in_range (Npos (XO (XO (XO (XO (XI XH)))))) (Npos (XI (XO (XO (XI (XI
    XH)))))) b

(** val is_alnum : byte -> bool **)

let is_alnum b =
  (||) ((||) (is_lower b) (is_upper b)) (is_digit b)

(** val hex_lo_digit : n -> byte **)

let hex_lo_digit n0 =
  n2b
    (if N.ltb n0 (Npos (XO (XI (XO XH))))
     then N.add (Npos (XO (XO (XO (XO (XI XH)))))) n0
     else N.add (Npos (XI (XI (XI (XO (XI (XO XH))))))) n0)

(** val hex_val : byte -> n option **)

let hex_val b =
  let n0 = b2n b in
  if in_range (Npos (XO (XO (XO (XO (XI XH)))))) (Npos (XI (XO (XO (XI (XI
       XH)))))) b
  then Some (N.sub n0 (Npos (XO (XO (XO (XO (XI XH)))))))
  else if in_range (Npos (XI (XO (XO (XO (XO (XO XH))))))) (Npos (XO (XI (XI
            (XO (XO (XO XH))))))) b
       then Some (N.sub n0 (Npos (XI (XI (XI (XO (XI XH)))))))
       else if in_range (Npos (XI (XO (XO (XO (XO (XI XH))))))) (Npos (XO (XI
                 (XI (XO (XO (XI XH))))))) b
            then Some (N.sub n0 (Npos (XI (XI (XI (XO (XI (XO XH))))))))
            else None

(** val repeat_app : ('a1 -> 'a1) -> nat -> 'a1 -> 'a1 **)

let rec repeat_app f n0 x =
  match n0 with
  | O -> x
  | S k -> repeat_app f k (f x)

type rune = n

(** val rune_error : rune **)

let rune_error =
  Npos (XI (XO (XI (XI (XI (XI (XI (XI (XI (XI (XI (XI (XI (XI (XI
    XH)))))))))))))))

(** val btw : n -> n -> n -> bool **)

let btw lo hi x =
  (&&) (N.leb lo x) (N.leb x hi)

(** val utf8_decode : bytes -> rune list **)

let rec utf8_decode = function
| [] -> []
| b0 :: t0 ->
  let n0 = b2n b0 in
  if N.ltb n0 (Npos (XO (XO (XO (XO (XO (XO (XO XH))))))))
  then n0 :: (utf8_decode t0)
  else if btw (Npos (XO (XI (XO (XO (XO (XO (XI XH)))))))) (Npos (XI (XI (XI
            (XI (XI (XO (XI XH)))))))) n0
       then (match t0 with
             | [] -> rune_error :: []
             | b1 :: t1 ->
               let n1 = b2n b1 in
               if btw (Npos (XO (XO (XO (XO (XO (XO (XO XH)))))))) (Npos (XI
                    (XI (XI (XI (XI (XI (XO XH)))))))) n1
               then (N.add
                      (N.mul
                        (N.sub n0 (Npos (XO (XO (XO (XO (XO (XO (XI
                          XH))))))))) (Npos (XO (XO (XO (XO (XO (XO XH))))))))
                      (N.sub n1 (Npos (XO (XO (XO (XO (XO (XO (XO XH)))))))))) :: 
                      (utf8_decode t1)
               else rune_error :: (utf8_decode t0))
       else if btw (Npos (XO (XO (XO (XO (XO (XI (XI XH)))))))) (Npos (XI (XI
                 (XI (XI (XO (XI (XI XH)))))))) n0
            then (match t0 with
                  | [] -> rune_error :: (utf8_decode t0)
                  | b1 :: l ->
                    (match l with
                     | [] -> rune_error :: (utf8_decode t0)
                     | b2 :: t2 ->
                       let n1 = b2n b1 in
                       let n2 = b2n b2 in
                       let lo =
                         if N.eqb n0 (Npos (XO (XO (XO (XO (XO (XI (XI
                              XH))))))))
                         then Npos (XO (XO (XO (XO (XO (XI (XO XH)))))))
                         else Npos (XO (XO (XO (XO (XO (XO (XO XH)))))))
                       in
                       let hi =
                         if N.eqb n0 (Npos (XI (XO (XI (XI (XO (XI (XI
                              XH))))))))
                         then Npos (XI (XI (XI (XI (XI (XO (XO XH)))))))
                         else Npos (XI (XI (XI (XI (XI (XI (XO XH)))))))
                       in
                       if (&&) (btw lo hi n1)
                            (btw (Npos (XO (XO (XO (XO (XO (XO (XO XH))))))))
                              (Npos (XI (XI (XI (XI (XI (XI (XO XH)))))))) n2)
                       then (N.add
                              (N.add
                                (N.mul
                                  (N.sub n0 (Npos (XO (XO (XO (XO (XO (XI (XI
                                    XH))))))))) (Npos (XO (XO (XO (XO (XO (XO
                                  (XO (XO (XO (XO (XO (XO XH))))))))))))))
                                (N.mul
                                  (N.sub n1 (Npos (XO (XO (XO (XO (XO (XO (XO
                                    XH))))))))) (Npos (XO (XO (XO (XO (XO (XO
                                  XH)))))))))
                              (N.sub n2 (Npos (XO (XO (XO (XO (XO (XO (XO
                                XH)))))))))) :: (utf8_decode t2)
                       else rune_error :: (utf8_decode t0)))
            else if btw (Npos (XO (XO (XO (XO (XI (XI (XI XH)))))))) (Npos
                      (XO (XO (XI (XO (XI (XI (XI XH)))))))) n0
                 then (match t0 with
                       | [] -> rune_error :: (utf8_decode t0)
                       | b1 :: l ->
                         (match l with
                          | [] -> rune_error :: (utf8_decode t0)
                          | b2 :: l0 ->
                            (match l0 with
                             | [] -> rune_error :: (utf8_decode t0)
                             | b3 :: t3 ->
                               let n1 = b2n b1 in
                               let n2 = b2n b2 in
                               let n3 = b2n b3 in
                               let lo =
                                 if N.eqb n0 (Npos (XO (XO (XO (XO (XI (XI
                                      (XI XH))))))))
                                 then Npos (XO (XO (XO (XO (XI (XO (XO
                                        XH)))))))
                                 else Npos (XO (XO (XO (XO (XO (XO (XO
                                        XH)))))))
                               in
                               let hi =
                                 if N.eqb n0 (Npos (XO (XO (XI (XO (XI (XI
                                      (XI XH))))))))
                                 then Npos (XI (XI (XI (XI (XO (XO (XO
                                        XH)))))))
                                 else Npos (XI (XI (XI (XI (XI (XI (XO
                                        XH)))))))
                               in
                               if (&&)
                                    ((&&) (btw lo hi n1)
                                      (btw (Npos (XO (XO (XO (XO (XO (XO (XO
                                        XH)))))))) (Npos (XI (XI (XI (XI (XI
                                        (XI (XO XH)))))))) n2))
                                    (btw (Npos (XO (XO (XO (XO (XO (XO (XO
                                      XH)))))))) (Npos (XI (XI (XI (XI (XI
                                      (XI (XO XH)))))))) n3)
                               then (N.add
                                      (N.add
                                        (N.add
                                          (N.mul
                                            (N.sub n0 (Npos (XO (XO (XO (XO
                                              (XI (XI (XI XH))))))))) (Npos
                                            (XO (XO (XO (XO (XO (XO (XO (XO
                                            (XO (XO (XO (XO (XO (XO (XO (XO
                                            (XO (XO XH))))))))))))))))))))
                                          (N.mul
                                            (N.sub n1 (Npos (XO (XO (XO (XO
                                              (XO (XO (XO XH))))))))) (Npos
                                            (XO (XO (XO (XO (XO (XO (XO (XO
                                            (XO (XO (XO (XO XH)))))))))))))))
                                        (N.mul
                                          (N.sub n2 (Npos (XO (XO (XO (XO (XO
                                            (XO (XO XH))))))))) (Npos (XO (XO
                                          (XO (XO (XO (XO XH)))))))))
                                      (N.sub n3 (Npos (XO (XO (XO (XO (XO (XO
                                        (XO XH)))))))))) :: (utf8_decode t3)
                               else rune_error :: (utf8_decode t0))))
                 else rune_error :: (utf8_decode t0)

(** val hexd : n -> n -> byte **)

let hexd n0 k =
  hex_lo_digit
    (N.modulo (N.div n0 (N.pow (Npos (XO (XO (XO (XO XH))))) k)) (Npos (XO
      (XO (XO (XO XH))))))

(** val hex_lo : n -> bytes **)

let hex_lo n0 =
  if N.ltb n0 (Npos (XO (XO (XO (XO XH)))))
  then (hexd n0 N0) :: []
  else if N.ltb n0 (Npos (XO (XO (XO (XO (XO (XO (XO (XO XH)))))))))
       then (hexd n0 (Npos XH)) :: ((hexd n0 N0) :: [])
       else if N.ltb n0 (Npos (XO (XO (XO (XO (XO (XO (XO (XO (XO (XO (XO (XO
                 XH)))))))))))))
            then (hexd n0 (Npos (XO XH))) :: ((hexd n0 (Npos XH)) :: (
                   (hexd n0 N0) :: []))
            else if N.ltb n0 (Npos (XO (XO (XO (XO (XO (XO (XO (XO (XO (XO
                      (XO (XO (XO (XO (XO (XO XH)))))))))))))))))
                 then (hexd n0 (Npos (XI XH))) :: ((hexd n0 (Npos (XO XH))) :: (
                        (hexd n0 (Npos XH)) :: ((hexd n0 N0) :: [])))
                 else if N.ltb n0 (Npos (XO (XO (XO (XO (XO (XO (XO (XO (XO
                           (XO (XO (XO (XO (XO (XO (XO (XO (XO (XO (XO
                           XH)))))))))))))))))))))
                      then (hexd n0 (Npos (XO (XO XH)))) :: ((hexd n0 (Npos
                                                               (XI XH))) :: (
                             (hexd n0 (Npos (XO XH))) :: ((hexd n0 (Npos XH)) :: (
                             (hexd n0 N0) :: []))))
                      else (hexd n0 (Npos (XI (XO XH)))) :: ((hexd n0 (Npos
                                                               (XO (XO XH)))) :: (
                             (hexd n0 (Npos (XI XH))) :: ((hexd n0 (Npos (XO
                                                            XH))) :: (
                             (hexd n0 (Npos XH)) :: ((hexd n0 N0) :: [])))))

(** val pad0 : nat -> bytes -> bytes **)

let pad0 w s =
  app (repeat X30 (sub w (length s))) s

(** val is_hex : byte -> bool **)

let is_hex b =
  match hex_val b with
  | Some _ -> true
  | None -> false

(** val is_lo_hex : byte -> bool **)

let is_lo_hex b =
  (||) (is_digit b)
    (in_range (Npos (XI (XO (XO (XO (XO (XI XH))))))) (Npos (XO (XI (XI (XO
      (XO (XI XH))))))) b)

(** val bSL : byte **)

let bSL =
  X5c

(** val is_alnum_r : rune -> bool **)

let is_alnum_r r =
  (||)
    ((||)
      (btw (Npos (XI (XO (XO (XO (XO (XI XH))))))) (Npos (XO (XI (XO (XI (XI
        (XI XH))))))) r)
      (btw (Npos (XI (XO (XO (XO (XO (XO XH))))))) (Npos (XO (XI (XO (XI (XI
        (XO XH))))))) r))
    (btw (Npos (XO (XO (XO (XO (XI XH)))))) (Npos (XI (XO (XO (XI (XI
      XH)))))) r)

(** val js_plain : rune -> bool **)

let js_plain r =
  (||)
    ((||)
      ((||) (N.eqb r (Npos (XO (XO (XI (XI (XO XH)))))))
        (N.eqb r (Npos (XO (XI (XI (XI (XO XH))))))))
      (N.eqb r (Npos (XI (XI (XI (XI (XI (XO XH))))))))) (is_alnum_r r)

(** val hex4 : n -> bytes **)

let hex4 n0 =
  pad0 (S (S (S (S O)))) (hex_lo n0)

(** val js_u : n -> bytes **)

let js_u n0 =
  bSL :: (X75 :: (hex4 n0))

(** val js_tok : rune -> bytes **)

let js_tok r =
  if N.eqb r (Npos (XO (XO (XI (XI (XI (XO XH)))))))
  then bSL :: (bSL :: [])
  else if N.eqb r (Npos (XI (XI (XI (XI (XO XH))))))
       then bSL :: (X2f :: [])
       else if N.eqb r (Npos (XO (XO (XO XH))))
            then bSL :: (X62 :: [])
            else if N.eqb r (Npos (XO (XO (XI XH))))
                 then bSL :: (X66 :: [])
                 else if N.eqb r (Npos (XO (XI (XO XH))))
                      then bSL :: (X6e :: [])
                      else if N.eqb r (Npos (XI (XO (XI XH))))
                           then bSL :: (X72 :: [])
                           else if N.eqb r (Npos (XI (XO (XO XH))))
                                then bSL :: (X74 :: [])
                                else if js_plain r
                                     then (n2b r) :: []
                                     else if N.ltb r (Npos (XO (XO (XO (XO
                                               (XO (XO (XO (XO (XO (XO (XO
                                               (XO (XO (XO (XO (XO
                                               XH)))))))))))))))))
                                          then js_u r
                                          else let u =
                                                 N.sub r (Npos (XO (XO (XO
                                                   (XO (XO (XO (XO (XO (XO
                                                   (XO (XO (XO (XO (XO (XO
                                                   (XO XH)))))))))))))))))
                                               in
                                               app
                                                 (js_u
                                                   (N.add (Npos (XO (XO (XO
                                                     (XO (XO (XO (XO (XO (XO
                                                     (XO (XO (XI (XI (XO (XI
                                                     XH))))))))))))))))
                                                     (N.div u (Npos (XO (XO
                                                       (XO (XO (XO (XO (XO
                                                       (XO (XO (XO
                                                       XH))))))))))))))
                                                 (js_u
                                                   (N.add (Npos (XO (XO (XO
                                                     (XO (XO (XO (XO (XO (XO
                                                     (XO (XI (XI (XI (XO (XI
                                                     XH))))))))))))))))
                                                     (N.modulo u (Npos (XO
                                                       (XO (XO (XO (XO (XO
                                                       (XO (XO (XO (XO
                                                       XH))))))))))))))

(** val js_escape : rune list -> bytes **)

let js_escape rs =
  flat_map js_tok rs

(** val js_escape_bytes : bytes -> bytes **)

let js_escape_bytes s =
  js_escape (utf8_decode s)

(** val mod_js_escape : z -> bytes -> bytes **)

let mod_js_escape itr s =
  repeat_app js_escape_bytes (Z.to_nat itr) s

(** val css_tok : rune -> bytes **)

let css_tok r =
  if N.eqb r (Npos (XI (XO (XI XH))))
  then bSL :: (X44 :: (X20 :: []))
  else if N.eqb r (Npos (XO (XI (XO XH))))
       then bSL :: (X41 :: (X20 :: []))
       else if N.eqb r (Npos (XI (XO (XO XH))))
            then bSL :: (X39 :: (X20 :: []))
            else if N.eqb r N0
                 then bSL :: (X30 :: (X20 :: []))
                 else if N.eqb r (Npos (XO (XO (XO (XO (XO XH))))))
                      then bSL :: (X32 :: (X30 :: (X20 :: [])))
                      else if is_alnum_r r
                           then (n2b r) :: []
                           else bSL :: (app (hex_lo r) (X20 :: []))

(** val css_escape : rune list -> bytes **)

let css_escape rs =
  flat_map css_tok rs

(** val css_escape_bytes : bytes -> bytes **)

let css_escape_bytes s =
  css_escape (utf8_decode s)

(** val mod_css_escape : z -> bytes -> bytes **)

let mod_css_escape itr s =
  repeat_app css_escape_bytes (Z.to_nat itr) s

(** val hexv : rune -> n option **)

let hexv r =
  if btw (Npos (XO (XO (XO (XO (XI XH)))))) (Npos (XI (XO (XO (XI (XI
       XH)))))) r
  then Some (N.sub r (Npos (XO (XO (XO (XO (XI XH)))))))
  else if btw (Npos (XI (XO (XO (XO (XO (XO XH))))))) (Npos (XO (XI (XI (XO
            (XO (XO XH))))))) r
       then Some (N.sub r (Npos (XI (XI (XI (XO (XI XH)))))))
       else if btw (Npos (XI (XO (XO (XO (XO (XI XH))))))) (Npos (XO (XI (XI
                 (XO (XO (XI XH))))))) r
            then Some (N.sub r (Npos (XI (XI (XI (XO (XI (XO XH))))))))
            else None

(** val hex2v : rune -> rune -> n option **)

let hex2v a b =
  match hexv a with
  | Some x ->
    (match hexv b with
     | Some y -> Some (N.add (N.mul x (Npos (XO (XO (XO (XO XH)))))) y)
     | None -> None)
  | None -> None

(** val hex4v : rune -> rune -> rune -> rune -> n option **)

let hex4v a b c d =
  match hexv a with
  | Some x ->
    (match hexv b with
     | Some y ->
       (match hexv c with
        | Some z0 ->
          (match hexv d with
           | Some w ->
             Some
               (N.add
                 (N.mul
                   (N.add
                     (N.mul (N.add (N.mul x (Npos (XO (XO (XO (XO XH)))))) y)
                       (Npos (XO (XO (XO (XO XH)))))) z0) (Npos (XO (XO (XO
                   (XO XH)))))) w)
           | None -> None)
        | None -> None)
     | None -> None)
  | None -> None

(** val is_hi_surr : n -> bool **)

let is_hi_surr r =
  btw (Npos (XO (XO (XO (XO (XO (XO (XO (XO (XO (XO (XO (XI (XI (XO (XI
    XH)))))))))))))))) (Npos (XI (XI (XI (XI (XI (XI (XI (XI (XI (XI (XO (XI
    (XI (XO (XI XH)))))))))))))))) r

(** val is_lo_surr : n -> bool **)

let is_lo_surr r =
  btw (Npos (XO (XO (XO (XO (XO (XO (XO (XO (XO (XO (XI (XI (XI (XO (XI
    XH)))))))))))))))) (Npos (XI (XI (XI (XI (XI (XI (XI (XI (XI (XI (XI (XI
    (XI (XO (XI XH)))))))))))))))) r

(** val surr_pair : n -> n -> n **)

let surr_pair hi lo =
  N.add
    (N.add (Npos (XO (XO (XO (XO (XO (XO (XO (XO (XO (XO (XO (XO (XO (XO (XO
      (XO XH)))))))))))))))))
      (N.mul
        (N.sub hi (Npos (XO (XO (XO (XO (XO (XO (XO (XO (XO (XO (XO (XI (XI
          (XO (XI XH))))))))))))))))) (Npos (XO (XO (XO (XO (XO (XO (XO (XO
        (XO (XO XH)))))))))))))
    (N.sub lo (Npos (XO (XO (XO (XO (XO (XO (XO (XO (XO (XO (XI (XI (XI (XO
      (XI XH)))))))))))))))))

(** val js_line_term : rune -> bool **)

let js_line_term r =
  (||)
    ((||)
      ((||) (N.eqb r (Npos (XO (XI (XO XH)))))
        (N.eqb r (Npos (XI (XO (XI XH))))))
      (N.eqb r (Npos (XO (XO (XO (XI (XO (XI (XO (XO (XO (XO (XO (XO (XO
        XH))))))))))))))))
    (N.eqb r (Npos (XI (XO (XO (XI (XO (XI (XO (XO (XO (XO (XO (XO (XO
      XH)))))))))))))))

(** val js_single : rune -> rune option **)

let js_single e =
  if js_line_term e
  then None
  else if N.eqb e (Npos (XO (XI (XO (XO (XO (XI XH)))))))
       then Some (Npos (XO (XO (XO XH))))
       else if N.eqb e (Npos (XO (XI (XI (XO (XO (XI XH)))))))
            then Some (Npos (XO (XO (XI XH))))
            else if N.eqb e (Npos (XO (XI (XI (XI (XO (XI XH)))))))
                 then Some (Npos (XO (XI (XO XH))))
                 else if N.eqb e (Npos (XO (XI (XO (XO (XI (XI XH)))))))
                      then Some (Npos (XI (XO (XI XH))))
                      else if N.eqb e (Npos (XO (XO (XI (XO (XI (XI XH)))))))
                           then Some (Npos (XI (XO (XO XH))))
                           else if N.eqb e (Npos (XO (XI (XI (XO (XI (XI
                                     XH)))))))
                                then Some (Npos (XI (XI (XO XH))))
                                else Some e

(** val js_unescape_runes : rune list -> rune list option **)

let rec js_unescape_runes = function
| [] -> Some []
| c :: rest ->
  if N.eqb c (Npos (XO (XO (XI (XI (XI (XO XH)))))))
  then (match rest with
        | [] -> None
        | e :: rest1 ->
          if N.eqb e (Npos (XI (XO (XI (XO (XI (XI XH)))))))
          then (match rest1 with
                | [] -> None
                | h1 :: l ->
                  (match l with
                   | [] -> None
                   | h2 :: l0 ->
                     (match l0 with
                      | [] -> None
                      | h3 :: l1 ->
                        (match l1 with
                         | [] -> None
                         | h4 :: rest2 ->
                           (match hex4v h1 h2 h3 h4 with
                            | Some hi ->
                              let alone =
                                option_map (fun x -> hi :: x)
                                  (js_unescape_runes rest2)
                              in
                              if is_hi_surr hi
                              then (match rest2 with
                                    | [] -> alone
                                    | c2 :: l2 ->
                                      (match l2 with
                                       | [] -> alone
                                       | e2 :: l3 ->
                                         (match l3 with
                                          | [] -> alone
                                          | l4 :: l5 ->
                                            (match l5 with
                                             | [] -> alone
                                             | l6 :: l7 ->
                                               (match l7 with
                                                | [] -> alone
                                                | l8 :: l9 ->
                                                  (match l9 with
                                                   | [] -> alone
                                                   | l10 :: rest3 ->
                                                     if (&&)
                                                          (N.eqb c2 (Npos (XO
                                                            (XO (XI (XI (XI
                                                            (XO XH))))))))
                                                          (N.eqb e2 (Npos (XI
                                                            (XO (XI (XO (XI
                                                            (XI XH))))))))
                                                     then (match hex4v l4 l6
                                                                   l8 l10 with
                                                           | Some lo ->
                                                             if is_lo_surr lo
                                                             then option_map
                                                                    (fun x ->
                                                                    (surr_pair
                                                                    hi lo) :: x)
                                                                    (js_unescape_runes
                                                                    rest3)
                                                             else alone
                                                           | None -> alone)
                                                     else alone))))))
                              else alone
                            | None -> None)))))
          else if N.eqb e (Npos (XO (XO (XO (XI (XI (XI XH)))))))
               then (match rest1 with
                     | [] -> None
                     | h1 :: l ->
                       (match l with
                        | [] -> None
                        | h2 :: rest2 ->
                          (match hex2v h1 h2 with
                           | Some v ->
                             option_map (fun x -> v :: x)
                               (js_unescape_runes rest2)
                           | None -> None)))
               else if N.eqb e (Npos (XO (XO (XO (XO (XI XH))))))
                    then (match rest1 with
                          | [] -> Some (N0 :: [])
                          | d :: _ ->
                            if btw (Npos (XO (XO (XO (XO (XI XH)))))) (Npos
                                 (XI (XO (XO (XI (XI XH)))))) d
                            then None
                            else option_map (fun x -> N0 :: x)
                                   (js_unescape_runes rest1))
                    else if btw (Npos (XI (XO (XO (XO (XI XH)))))) (Npos (XI
                              (XO (XO (XI (XI XH)))))) e
                         then None
                         else (match js_single e with
                               | Some v ->
                                 option_map (fun x -> v :: x)
                                   (js_unescape_runes rest1)
                               | None -> None))
  else if (||)
            ((||)
              ((||) (N.eqb c (Npos (XO (XI (XO (XO (XO XH)))))))
                (N.eqb c (Npos (XI (XI (XI (XO (XO XH))))))))
              (N.eqb c (Npos (XO (XI (XO XH))))))
            (N.eqb c (Npos (XI (XO (XI XH)))))
       then None
       else option_map (fun x -> c :: x) (js_unescape_runes rest)

(** val js_unescape : bytes -> rune list option **)

let js_unescape s =
  js_unescape_runes (utf8_decode s)

(** val js_safe_char : byte -> bool **)

let js_safe_char b =
  (||) ((||) ((||) (is_alnum b) (beqb b X2c)) (beqb b X2e)) (beqb b X5f)

(** val js_esc_letter : byte -> bool **)

let js_esc_letter b =
  (||)
    ((||)
      ((||)
        ((||) ((||) ((||) (beqb b X5c) (beqb b X2f)) (beqb b X62))
          (beqb b X66)) (beqb b X6e)) (beqb b X72)) (beqb b X74)

(** val js_alphabet : bytes -> bool **)

let rec js_alphabet = function
| [] -> true
| c :: rest ->
  if beqb c X5c
  then (match rest with
        | [] -> false
        | e :: rest1 ->
          if beqb e X75
          then (match rest1 with
                | [] -> false
                | h1 :: l ->
                  (match l with
                   | [] -> false
                   | h2 :: l0 ->
                     (match l0 with
                      | [] -> false
                      | h3 :: l1 ->
                        (match l1 with
                         | [] -> false
                         | h4 :: rest2 ->
                           (&&)
                             ((&&)
                               ((&&) ((&&) (is_lo_hex h1) (is_lo_hex h2))
                                 (is_lo_hex h3)) (is_lo_hex h4))
                             (js_alphabet rest2)))))
          else (&&) (js_esc_letter e) (js_alphabet rest1))
  else (&&) (js_safe_char c) (js_alphabet rest)

(** val css_ws : rune -> bool **)

let css_ws r =
  (||)
    ((||) (N.eqb r (Npos (XO (XO (XO (XO (XO XH)))))))
      (N.eqb r (Npos (XI (XO (XO XH)))))) (N.eqb r (Npos (XO (XI (XO XH)))))

(** val css_cp : n -> rune **)

let css_cp v =
  if (||)
       ((||) (N.eqb v N0)
         (btw (Npos (XO (XO (XO (XO (XO (XO (XO (XO (XO (XO (XO (XI (XI (XO
           (XI XH)))))))))))))))) (Npos (XI (XI (XI (XI (XI (XI (XI (XI (XI
           (XI (XI (XI (XI (XO (XI XH)))))))))))))))) v))
       (N.ltb (Npos (XI (XI (XI (XI (XI (XI (XI (XI (XI (XI (XI (XI (XI (XI
         (XI (XI (XO (XO (XO (XO XH))))))))))))))))))))) v)
  then rune_error
  else v

type css_state =
| CsText
| CsEsc
| CsHex of n * nat

(** val css_run : css_state -> rune list -> rune list **)

let rec css_run st = function
| [] ->
  (match st with
   | CsText -> []
   | CsEsc -> rune_error :: []
   | CsHex (acc, _) -> (css_cp acc) :: [])
| c :: rest ->
  (match st with
   | CsText ->
     if N.eqb c (Npos (XO (XO (XI (XI (XI (XO XH)))))))
     then css_run CsEsc rest
     else c :: (css_run CsText rest)
   | CsEsc ->
     (match hexv c with
      | Some v -> css_run (CsHex (v, (S (S (S (S (S O))))))) rest
      | None ->
        if N.eqb c (Npos (XO (XI (XO XH))))
        then (Npos (XO (XO (XI (XI (XI (XO
               XH))))))) :: (c :: (css_run CsText rest))
        else c :: (css_run CsText rest))
   | CsHex (acc, more) ->
     (match more with
      | O ->
        (css_cp acc) :: (if css_ws c
                         then css_run CsText rest
                         else if N.eqb c (Npos (XO (XO (XI (XI (XI (XO
                                   XH)))))))
                              then css_run CsEsc rest
                              else c :: (css_run CsText rest))
      | S more' ->
        (match hexv c with
         | Some v ->
           css_run (CsHex
             ((N.add (N.mul acc (Npos (XO (XO (XO (XO XH)))))) v), more'))
             rest
         | None ->
           (css_cp acc) :: (if css_ws c
                            then css_run CsText rest
                            else if N.eqb c (Npos (XO (XO (XI (XI (XI (XO
                                      XH)))))))
                                 then css_run CsEsc rest
                                 else c :: (css_run CsText rest)))))

(** val css_unescape_runes : rune list -> rune list **)

let css_unescape_runes s =
  css_run CsText s

(** val css_unescape : bytes -> rune list **)

let css_unescape s =
  css_unescape_runes (utf8_decode s)

(** val css_alpha : nat option -> bytes -> bool **)

let rec css_alpha st = function
| [] -> (match st with
         | Some _ -> false
         | None -> true)
| c :: rest ->
  (match st with
   | Some n0 ->
     if is_hex c
     then (&&) (Nat.ltb n0 (S (S (S (S (S (S O)))))))
            (css_alpha (Some (S n0)) rest)
     else (&&) ((&&) (beqb c X20) (Nat.ltb O n0)) (css_alpha None rest)
   | None ->
     if beqb c X5c
     then css_alpha (Some O) rest
     else (&&) (is_alnum c) (css_alpha None rest))

(** val css_alphabet : bytes -> bool **)

let css_alphabet s =
  css_alpha None s
