(* Theorems re-checked on every run over the facts regenerated from /repo's source
   (Gen/SrcFacts.v, written by harness/srcfacts.go into the run's work directory). *)
From Coq Require Import List String Bool.
Import ListNotations.
From Gen Require Import SrcFacts.
Open Scope string_scope.

Definition lock_eqb (a b : lockk) : bool :=
  match a, b with NoLock, NoLock | RLock, RLock | WLock, WLock => true | _, _ => false end.

Definition callers (n : string) : list dbm :=
  filter (fun m => existsb (String.eqb n) (dm_callees m)) db_methods.

(* C06: every registry method that reads the indexes or the slot array holds the read or write
   lock itself, or is only ever called by methods that hold it (and is called at all);
   every method that writes them holds the write lock, directly or through all its callers. *)
Definition reads_ok (m : dbm) : bool :=
  negb (dm_reads m) ||
  negb (lock_eqb (dm_lock m) NoLock) ||
  (negb (match callers (dm_name m) with [] => true | _ => false end) &&
   forallb (fun c => negb (lock_eqb (dm_lock c) NoLock)) (callers (dm_name m))).
Definition writes_ok (m : dbm) : bool :=
  negb (dm_writes m) ||
  lock_eqb (dm_lock m) WLock ||
  (negb (match callers (dm_name m) with [] => true | _ => false end) &&
   forallb (fun c => lock_eqb (dm_lock c) WLock) (callers (dm_name m))).

Theorem db_methods_locked : forallb (fun m => reads_ok m && writes_ok m) db_methods = true.
Proof. vm_compute. reflexivity. Qed.

(* the extractor found the registry at all (non-vacuity) *)
Theorem db_methods_present :
  existsb (fun m => String.eqb (dm_name m) "set" && dm_writes m) db_methods &&
  existsb (fun m => String.eqb (dm_name m) "get" && dm_reads m) db_methods = true.
Proof. vm_compute. reflexivity. Qed.

(* C06: no function outside the parser/tree-building files assigns through a parsed-tree type
   (node, Tree, Tpl, mod, arg): trees are read-only once Parse has returned *)
Theorem render_path_readonly : tree_writes = [].
Proof. vm_compute. reflexivity. Qed.

(* C05 / C19: every field of Ctx is classified by the model — cleared by Reset, grow-only storage
   whose length Reset sets to zero, or scratch that is overwritten before it is read *)
Definition reset_cleared : list string :=
  ["ln"; "chQB"; "chJQ"; "chHE"; "chUE"; "bufX"; "brkD"; "wd"; "wl"; "kvl"; "ipvl"; "Err";
   "BufB"; "BufI"; "BufU"; "BufF"; "BufT"; "BufX"].
Definition grow_only_truncated : list string :=
  ["vars"; "buf"; "bufS"; "bufA"; "bufLC"; "bufMO"; "bufCB"; "rl"; "dfr"; "ipv"; "w"; "kv"; "BufAcc"; "Buf"; "Buf1"; "Buf2"].
Definition scratch_overwritten : list string :=
  ["noesc";   (* set from the node before each modifier chain, cleared after it *)
   "bufI"].   (* written by Length/Capacity immediately before it is read *)

(* ---- C05: what the classification says Reset does, Reset's source does (through the helpers
   it calls and through local pointers into the stores) ---- *)
Definition mem (x : string) (l : list string) : bool := existsb (String.eqb x) l.

Definition touched (f : string) : bool := mem f reset_touched || mem (f ++ ".Reset()") reset_touched.

(* grow-only stores whose logical length is a separate field (found in the source: ctx.S[ctx.L],
   ctx.S[:ctx.L], loops over ctx.S bounded by ctx.L): Reset zeroes the length and clears what a
   recycled element could still show.  The length fields are not named here: a renamed length
   field is still the length field. *)
Definition lens_of (s : string) : list string :=
  map snd (filter (fun p => String.eqb (fst p) s) store_len).

Definition governed : list (string * list string) :=
  [("vars", ["vars[].val"; "vars[].buf"; "vars[].cntrF"]);
   ("w", ["w[].Reset()"]);
   ("kv", []);
   ("ipv", ["ipv[].key"; "ipv[].val"])].

Definition truncated (f : string) : bool :=
  touched f ||
  match find (fun p => String.eqb (fst p) f) governed with
  | Some p => existsb touched (lens_of f) && forallb (fun x => mem x reset_touched) (snd p)
  | None => false
  end.

(* a field is accounted for when Reset clears it (under whatever name), when it is a store whose
   length Reset zeroes, or when it is scratch that is written before it is read *)
Definition classified (f : string) : bool := touched f || truncated f || mem f scratch_overwritten.

Theorem ctx_fields_classified : forallb classified ctx_fields = true.
Proof. vm_compute. reflexivity. Qed.

Theorem ctx_fields_present : Nat.leb 25 (List.length ctx_fields) && mem "Err" ctx_fields = true.
Proof. vm_compute. reflexivity. Qed.

(* the fields the model assumes cleared / truncated are (as far as they still exist under these names) *)
Definition still (f : string) : bool := mem f ctx_fields.

Theorem reset_touches_cleared : forallb (fun f => negb (still f) || touched f) reset_cleared = true.
Proof. vm_compute. reflexivity. Qed.

Theorem reset_truncates_stores : forallb (fun f => negb (still f) || truncated f) grow_only_truncated = true.
Proof. vm_compute. reflexivity. Qed.

(* ---- C05 / C15: a variable slot shows exactly one representation after every setter ----
   A slot has three representations (inspected value, byte buffer, counter); which one is live is
   decided by val / buf / cntrF.  A block that updates an existing variable (index i) must assign
   all three; a block that recycles a slot beyond the logical length (index ctx.ln) may rely on
   Reset for the ones it does not assign. *)
Definition repr_fields : list string := ["val"; "buf"; "cntrF"].
Definition reset_slot (f : string) : bool := mem ("vars[]." ++ f) reset_touched.

Definition block_ok (b : string * string * list string) : bool :=
  let '(fn, idx, fs) := b in
  (negb (String.eqb idx "i") || forallb (fun f => mem f fs) ("ins" :: repr_fields)) &&
  (negb (String.eqb idx "ctx.ln") ||
   (mem "key" fs && mem "ins" fs && forallb (fun f => mem f fs || reset_slot f) repr_fields)) &&
  (negb (String.eqb fn "SetCounter") || (mem "cntr" fs && mem "cntrF" fs)).

Theorem setters_leave_one_representation : forallb block_ok slot_blocks = true.
Proof. vm_compute. reflexivity. Qed.

(* non-vacuity: both kinds of block of all three setters were found, and ctxVar has no field the
   argument above does not know *)
Definition has_block (fn idx : string) : bool :=
  existsb (fun b => let '(f, i, _) := b in String.eqb f fn && String.eqb i idx) slot_blocks.

Theorem slot_blocks_present :
  forallb (fun fn => has_block fn "i" && has_block fn "ctx.ln") ["Set"; "SetBytes"; "SetCounter"] = true.
Proof. vm_compute. reflexivity. Qed.

Theorem ctxvar_fields_known :
  forallb (fun f => mem f ["key"; "val"; "buf"; "cntrF"; "cntr"; "ins"]) ctxvar_fields &&
  forallb (fun f => mem f ctxvar_fields) ("key" :: "ins" :: "cntr" :: repr_fields) = true.
Proof. vm_compute. reflexivity. Qed.

(* ---- inventories: what the model covers is what the source declares ----
   A node type, an error value or a built-in modifier added to the code breaks one of these until
   the model (and the statement of what is modelled) is brought up to date. *)
From Coq Require Import ZArith.

(* node types and the constructor of Model/Tree.v that carries each (harness/gallina.go maps by number) *)
Definition modelled_node_types : list (string * Z * string) :=
  [("typeRaw", 0%Z, "NRaw"); ("typeTpl", 1%Z, "NTpl"); ("typeCond", 2%Z, "NCond"); ("typeCondOK", 3%Z, "NCondOK");
   ("typeCondTrue", 4%Z, "NBlock BTrue"); ("typeCondFalse", 5%Z, "NBlock BFalse"); ("typeLoopRange", 6%Z, "NLoopRange");
   ("typeLoopCount", 7%Z, "NLoopCount"); ("typeBreak", 8%Z, "NBreak"); ("typeLBreak", 9%Z, "NLBreak"); ("typeContinue", 10%Z, "NContinue");
   ("typeCtx", 11%Z, "NCtx"); ("typeCounter", 12%Z, "NCounter"); ("typeSwitch", 13%Z, "NSwitch"); ("typeCase", 14%Z, "NBlock BCase");
   ("typeDefault", 15%Z, "NBlock BDefault"); ("typeDiv", 16%Z, "NOther (parser-internal divider, never left in a tree)");
   ("typeJsonQ", 17%Z, "NFlag FJson true"); ("typeEndJsonQ", 18%Z, "NFlag FJson false"); ("typeHtmlE", 19%Z, "NFlag FHtml true");
   ("typeEndHtmlE", 20%Z, "NFlag FHtml false"); ("typeUrlEnc", 21%Z, "NFlag FUrl true"); ("typeEndUrlEnc", 22%Z, "NFlag FUrl false");
   ("typeInclude", 23%Z, "NInclude"); ("typeExit", 24%Z, "NExit")].

Fixpoint same_types (a : list (string * Z)) (b : list (string * Z * string)) : bool :=
  match a, b with
  | [], [] => true
  | (n, z) :: a', (n', z', _) :: b' => String.eqb n n' && Z.eqb z z' && same_types a' b'
  | _, _ => false
  end.

Theorem node_types_all_modelled : same_types node_types modelled_node_types = true.
Proof. vm_compute. reflexivity. Qed.

(* error values and the class number of Model/VCase.v err_code / harness errCode (by message) *)
Definition modelled_errors : list (string * string * Z) :=
  [("ErrUnexpectedEOF", "unexpected end of file: control structure couldn't be closed", (-1)%Z);   (* parser only *)
   ("ErrUnbalancedCtl", "unbalanced control structures found", (-1)%Z);                             (* parser only *)
   ("ErrUnknownCtl", "unknown ctl", 1%Z); ("ErrSenselessCond", "comparison of two static args", 2%Z);
   ("ErrCondHlpNotFound", "condition helper not found", 3%Z); ("ErrTplNotFound", "template not found", 4%Z);
   ("ErrInterrupt", "tpl processing interrupted", 5%Z); ("ErrModNoArgs", "empty arguments list", 6%Z);
   ("ErrModPoorArgs", "arguments list is too small", 7%Z); ("ErrModNoStr", "argument is not string or bytes", 8%Z);
   ("ErrWrongLoopLim", "wrong count loop limit argument", 9%Z); ("ErrWrongLoopCond", "wrong loop condition operation", 10%Z);
   ("ErrWrongLoopOp", "wrong loop operation", 11%Z); ("ErrBreakLoop", "break loop", 12%Z); ("ErrLBreakLoop", "lazybreak loop", 13%Z);
   ("ErrContLoop", "continue loop", 14%Z); ("ErrUnknownPool", "unknown pool", 19%Z)].

Fixpoint same_errors (a : list (string * string)) (b : list (string * string * Z)) : bool :=
  match a, b with
  | [], [] => true
  | (n, _) :: a', (n', _, _) :: b' => String.eqb n n' && same_errors a' b'
  | _, _ => false
  end.

Theorem error_values_all_classified : same_errors error_values modelled_errors = true.
Proof. vm_compute. reflexivity. Qed.

(* built-in modifiers: in the interpreter model (Model/Mods.v pure_mod), in a model of their own
   (Model/Round.v, Model/Arith.v), measured against an external oracle only, or outside the properties *)
Inductive coverage := InInterp | OwnModel | Measured | TerminationOnly | NotAProperty.
Definition mod_coverage : list (string * string * coverage) :=
  [("", "default", InInterp); ("", "ifThen", InInterp); ("", "ifThenElse", InInterp); ("", "jsonEscape", InInterp);
   ("", "jsonQuote", InInterp); ("", "htmlEscape", InInterp); ("", "linkEscape", InInterp); ("", "urlEncode", InInterp);
   ("", "attrEscape", InInterp); ("", "cssEscape", InInterp); ("", "jsEscape", InInterp); ("", "raw", InInterp);
   ("", "round", OwnModel); ("", "roundPrec", OwnModel); ("", "ceil", OwnModel); ("", "ceilPrec", OwnModel);
   ("", "floor", OwnModel); ("", "floorPrec", OwnModel);
   ("time", "now", NotAProperty); ("time", "format", Measured); ("time", "add", Measured);
   ("math", "abs", OwnModel); ("math", "inc", OwnModel); ("math", "dec", OwnModel); ("math", "add", OwnModel);
   ("math", "sub", OwnModel); ("math", "mul", OwnModel); ("math", "div", OwnModel); ("math", "mod", Measured);
   ("math", "sqrt", OwnModel); ("math", "cbrt", Measured); ("math", "radical", TerminationOnly); ("math", "exp", Measured);
   ("math", "log", Measured); ("math", "factorial", TerminationOnly); ("math", "max", OwnModel); ("math", "min", OwnModel);
   ("math", "pow", Measured);
   ("", "testNameOf", NotAProperty); ("testns", "pack", NotAProperty); ("testns", "extract", NotAProperty);
   ("testns", "marshal", NotAProperty); ("testns", "modCB", NotAProperty)].

Definition mod_known (m : string * string * string) : bool :=
  let '(ns, name, _) := m in
  existsb (fun c => let '(ns', name', _) := c in String.eqb ns ns' && String.eqb name name') mod_coverage.

Theorem registered_mods_all_accounted : forallb mod_known registered_mods = true.
Proof. vm_compute. reflexivity. Qed.

Theorem registered_mods_present :
  existsb (fun m => let '(_, n, _) := m in String.eqb n "default") registered_mods &&
  Nat.leb 40 (List.length registered_mods) = true.
Proof. vm_compute. reflexivity. Qed.
