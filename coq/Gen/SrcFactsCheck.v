(* Theorems re-checked on every run over the facts regenerated from /repo's source
   (Gen/SrcFacts.v, written by harness/srcfacts.go into the run's work directory). *)
From Coq Require Import List String Bool.
Import ListNotations.
From Gen Require Import SrcFacts.
Open Scope string_scope.

Definition lock_eqb (a b : lockk) : bool :=
  match a, b with NoLock, NoLock | RLock, RLock | WLock, WLock => true | _, _ => false end.

Definition callers (n : string) : list dbm :=
  filter (fun m => existsb (String.eqb n) (dm_callees m)) db_methods.

(* C06: every registry method that reads the indexes or the slot array holds the read or write
   lock itself, or is only ever called by methods that hold it (and is called at all);
   every method that writes them holds the write lock, directly or through all its callers. *)
Definition reads_ok (m : dbm) : bool :=
  negb (dm_reads m) ||
  negb (lock_eqb (dm_lock m) NoLock) ||
  (negb (match callers (dm_name m) with [] => true | _ => false end) &&
   forallb (fun c => negb (lock_eqb (dm_lock c) NoLock)) (callers (dm_name m))).
Definition writes_ok (m : dbm) : bool :=
  negb (dm_writes m) ||
  lock_eqb (dm_lock m) WLock ||
  (negb (match callers (dm_name m) with [] => true | _ => false end) &&
   forallb (fun c => lock_eqb (dm_lock c) WLock) (callers (dm_name m))).

Theorem db_methods_locked : forallb (fun m => reads_ok m && writes_ok m) db_methods = true.
Proof. vm_compute. reflexivity. Qed.

(* the extractor found the registry at all (non-vacuity) *)
Theorem db_methods_present :
  existsb (fun m => String.eqb (dm_name m) "set" && dm_writes m) db_methods &&
  existsb (fun m => String.eqb (dm_name m) "get" && dm_reads m) db_methods = true.
Proof. vm_compute. reflexivity. Qed.

(* C06: no function outside the parser/tree-building files assigns through a parsed-tree type
   (node, Tree, Tpl, mod, arg): trees are read-only once Parse has returned *)
Theorem render_path_readonly : tree_writes = [].
Proof. vm_compute. reflexivity. Qed.

(* C05 / C19: every field of Ctx is classified by the model — cleared by Reset, grow-only storage
   whose length Reset sets to zero, or scratch that is overwritten before it is read *)
Definition reset_cleared : list string :=
  ["ln"; "chQB"; "chJQ"; "chHE"; "chUE"; "bufX"; "brkD"; "wd"; "wl"; "kvl"; "ipvl"; "Err";
   "BufB"; "BufI"; "BufU"; "BufF"; "BufT"; "BufX"].
Definition grow_only_truncated : list string :=
  ["vars"; "buf"; "bufS"; "bufA"; "bufLC"; "bufMO"; "bufCB"; "rl"; "dfr"; "ipv"; "w"; "kv"; "BufAcc"; "Buf"; "Buf1"; "Buf2"].
Definition scratch_overwritten : list string :=
  ["noesc";   (* set from the node before each modifier chain, cleared after it *)
   "bufI"].   (* written by Length/Capacity immediately before it is read *)

Definition classified (f : string) : bool :=
  existsb (String.eqb f) (reset_cleared ++ grow_only_truncated ++ scratch_overwritten).

Theorem ctx_fields_classified : forallb classified ctx_fields = true.
Proof. vm_compute. reflexivity. Qed.

Theorem ctx_fields_present : existsb (String.eqb "vars") ctx_fields && existsb (String.eqb "Err") ctx_fields = true.
Proof. vm_compute. reflexivity. Qed.

(* ---- C05: what the hand-written classification says Reset does, Reset's source does ---- *)
Definition mem (x : string) (l : list string) : bool := existsb (String.eqb x) l.

Definition touched (f : string) : bool := mem f reset_touched || mem (f ++ ".Reset()") reset_touched.

(* grow-only stores whose logical length is a separate field: Reset zeroes the length and
   clears what a recycled element could still show *)
Definition governed : list (string * list string) :=
  [("vars", ["ln"; "vars[].val"; "vars[].buf"; "vars[].cntrF"]);
   ("w", ["wl"; "w[].Reset()"]);
   ("kv", ["kvl"]);
   ("ipv", ["ipvl"; "ipv[].key"; "ipv[].val"])].

Definition truncated (f : string) : bool :=
  touched f ||
  match find (fun p => String.eqb (fst p) f) governed with
  | Some p => forallb (fun x => mem x reset_touched) (snd p)
  | None => false
  end.

Theorem reset_touches_cleared : forallb touched reset_cleared = true.
Proof. vm_compute. reflexivity. Qed.

Theorem reset_truncates_stores : forallb truncated grow_only_truncated = true.
Proof. vm_compute. reflexivity. Qed.

(* ---- C05 / C15: a variable slot shows exactly one representation after every setter ----
   A slot has three representations (inspected value, byte buffer, counter); which one is live is
   decided by val / buf / cntrF.  A block that updates an existing variable (index i) must assign
   all three; a block that recycles a slot beyond the logical length (index ctx.ln) may rely on
   Reset for the ones it does not assign. *)
Definition repr_fields : list string := ["val"; "buf"; "cntrF"].
Definition reset_slot (f : string) : bool := mem ("vars[]." ++ f) reset_touched.

Definition block_ok (b : string * string * list string) : bool :=
  let '(fn, idx, fs) := b in
  (negb (String.eqb idx "i") || forallb (fun f => mem f fs) ("ins" :: repr_fields)) &&
  (negb (String.eqb idx "ctx.ln") ||
   (mem "key" fs && mem "ins" fs && forallb (fun f => mem f fs || reset_slot f) repr_fields)) &&
  (negb (String.eqb fn "SetCounter") || (mem "cntr" fs && mem "cntrF" fs)).

Theorem setters_leave_one_representation : forallb block_ok slot_blocks = true.
Proof. vm_compute. reflexivity. Qed.

(* non-vacuity: both kinds of block of all three setters were found, and ctxVar has no field the
   argument above does not know *)
Definition has_block (fn idx : string) : bool :=
  existsb (fun b => let '(f, i, _) := b in String.eqb f fn && String.eqb i idx) slot_blocks.

Theorem slot_blocks_present :
  forallb (fun fn => has_block fn "i" && has_block fn "ctx.ln") ["Set"; "SetBytes"; "SetCounter"] = true.
Proof. vm_compute. reflexivity. Qed.

Theorem ctxvar_fields_known :
  forallb (fun f => mem f ["key"; "val"; "buf"; "cntrF"; "cntr"; "ins"]) ctxvar_fields &&
  forallb (fun f => mem f ctxvar_fields) ("key" :: "ins" :: "cntr" :: repr_fields) = true.
Proof. vm_compute. reflexivity. Qed.
