
type nat =
| O
| S of nat

val option_map : ('a1 -> 'a2) -> 'a1 option -> 'a2 option

val fst : ('a1 * 'a2) -> 'a1

val snd : ('a1 * 'a2) -> 'a2

val length : 'a1 list -> nat

val app : 'a1 list -> 'a1 list -> 'a1 list

type comparison =
| Eq
| Lt
| Gt

val add : nat -> nat -> nat

val sub : nat -> nat -> nat

type byte =
| X00
| X01
| X02
| X03
| X04
| X05
| X06
| X07
| X08
| X09
| X0a
| X0b
| X0c
| X0d
| X0e
| X0f
| X10
| X11
| X12
| X13
| X14
| X15
| X16
| X17
| X18
| X19
| X1a
| X1b
| X1c
| X1d
| X1e
| X1f
| X20
| X21
| X22
| X23
| X24
| X25
| X26
| X27
| X28
| X29
| X2a
| X2b
| X2c
| X2d
| X2e
| X2f
| X30
| X31
| X32
| X33
| X34
| X35
| X36
| X37
| X38
| X39
| X3a
| X3b
| X3c
| X3d
| X3e
| X3f
| X40
| X41
| X42
| X43
| X44
| X45
| X46
| X47
| X48
| X49
| X4a
| X4b
| X4c
| X4d
| X4e
| X4f
| X50
| X51
| X52
| X53
| X54
| X55
| X56
| X57
| X58
| X59
| X5a
| X5b
| X5c
| X5d
| X5e
| X5f
| X60
| X61
| X62
| X63
| X64
| X65
| X66
| X67
| X68
| X69
| X6a
| X6b
| X6c
| X6d
| X6e
| X6f
| X70
| X71
| X72
| X73
| X74
| X75
| X76
| X77
| X78
| X79
| X7a
| X7b
| X7c
| X7d
| X7e
| X7f
| X80
| X81
| X82
| X83
| X84
| X85
| X86
| X87
| X88
| X89
| X8a
| X8b
| X8c
| X8d
| X8e
| X8f
| X90
| X91
| X92
| X93
| X94
| X95
| X96
| X97
| X98
| X99
| X9a
| X9b
| X9c
| X9d
| X9e
| X9f
| Xa0
| Xa1
| Xa2
| Xa3
| Xa4
| Xa5
| Xa6
| Xa7
| Xa8
| Xa9
| Xaa
| Xab
| Xac
| Xad
| Xae
| Xaf
| Xb0
| Xb1
| Xb2
| Xb3
| Xb4
| Xb5
| Xb6
| Xb7
| Xb8
| Xb9
| Xba
| Xbb
| Xbc
| Xbd
| Xbe
| Xbf
| Xc0
| Xc1
| Xc2
| Xc3
| Xc4
| Xc5
| Xc6
| Xc7
| Xc8
| Xc9
| Xca
| Xcb
| Xcc
| Xcd
| Xce
| Xcf
| Xd0
| Xd1
| Xd2
| Xd3
| Xd4
| Xd5
| Xd6
| Xd7
| Xd8
| Xd9
| Xda
| Xdb
| Xdc
| Xdd
| Xde
| Xdf
| Xe0
| Xe1
| Xe2
| Xe3
| Xe4
| Xe5
| Xe6
| Xe7
| Xe8
| Xe9
| Xea
| Xeb
| Xec
| Xed
| Xee
| Xef
| Xf0
| Xf1
| Xf2
| Xf3
| Xf4
| Xf5
| Xf6
| Xf7
| Xf8
| Xf9
| Xfa
| Xfb
| Xfc
| Xfd
| Xfe
| Xff

val to_bits :
  byte -> bool * (bool * (bool * (bool * (bool * (bool * (bool * bool))))))

val eqb : bool -> bool -> bool

module Nat :
 sig
  val leb : nat -> nat -> bool

  val ltb : nat -> nat -> bool
 end

val flat_map : ('a1 -> 'a2 list) -> 'a1 list -> 'a2 list

val repeat : 'a1 -> nat -> 'a1 list

type positive =
| XI of positive
| XO of positive
| XH

type n =
| N0
| Npos of positive

type z =
| Z0
| Zpos of positive
| Zneg of positive

module Pos :
 sig
  type mask =
  | IsNul
  | IsPos of positive
  | IsNeg
 end

module Coq_Pos :
 sig
  val succ : positive -> positive

  val add : positive -> positive -> positive

  val add_carry : positive -> positive -> positive

  val pred_double : positive -> positive

  type mask = Pos.mask =
  | IsNul
  | IsPos of positive
  | IsNeg

  val succ_double_mask : mask -> mask

  val double_mask : mask -> mask

  val double_pred_mask : positive -> mask

  val sub_mask : positive -> positive -> mask

  val sub_mask_carry : positive -> positive -> mask

  val mul : positive -> positive -> positive

  val iter : ('a1 -> 'a1) -> 'a1 -> positive -> 'a1

  val pow : positive -> positive -> positive

  val compare_cont : comparison -> positive -> positive -> comparison

  val compare : positive -> positive -> comparison

  val eqb : positive -> positive -> bool

  val iter_op : ('a1 -> 'a1 -> 'a1) -> positive -> 'a1 -> 'a1

  val to_nat : positive -> nat
 end

module N :
 sig
  val succ_double : n -> n

  val double : n -> n

  val add : n -> n -> n

  val sub : n -> n -> n

  val mul : n -> n -> n

  val compare : n -> n -> comparison

  val eqb : n -> n -> bool

  val leb : n -> n -> bool

  val ltb : n -> n -> bool

  val pow : n -> n -> n

  val pos_div_eucl : positive -> n -> n * n

  val div_eucl : n -> n -> n * n

  val div : n -> n -> n

  val modulo : n -> n -> n
 end

val eqb0 : byte -> byte -> bool

val to_N : byte -> n

val of_N : n -> byte option

module Z :
 sig
  val to_nat : z -> nat
 end

type bytes = byte list

val b2n : byte -> n

val n2b : n -> byte

val beqb : byte -> byte -> bool

val in_range : n -> n -> byte -> bool

val is_lower : byte -> bool

val is_upper : byte -> bool

val is_digit : byte -> bool

val is_alnum : byte -> bool

val hex_lo_digit : n -> byte

val hex_val : byte -> n option

val repeat_app : ('a1 -> 'a1) -> nat -> 'a1 -> 'a1

type rune = n

val rune_error : rune

val btw : n -> n -> n -> bool

val utf8_decode : bytes -> rune list

val hexd : n -> n -> byte

val hex_lo : n -> bytes

val pad0 : nat -> bytes -> bytes

val is_hex : byte -> bool

val is_lo_hex : byte -> bool

val bSL : byte

val is_alnum_r : rune -> bool

val js_plain : rune -> bool

val hex4 : n -> bytes

val js_u : n -> bytes

val js_tok : rune -> bytes

val js_escape : rune list -> bytes

val js_escape_bytes : bytes -> bytes

val mod_js_escape : z -> bytes -> bytes

val css_tok : rune -> bytes

val css_escape : rune list -> bytes

val css_escape_bytes : bytes -> bytes

val mod_css_escape : z -> bytes -> bytes

val hexv : rune -> n option

val hex2v : rune -> rune -> n option

val hex4v : rune -> rune -> rune -> rune -> n option

val is_hi_surr : n -> bool

val is_lo_surr : n -> bool

val surr_pair : n -> n -> n

val js_line_term : rune -> bool

val js_single : rune -> rune option

val js_unescape_runes : rune list -> rune list option

val js_unescape : bytes -> rune list option

val js_safe_char : byte -> bool

val js_esc_letter : byte -> bool

val js_alphabet : bytes -> bool

val css_ws : rune -> bool

val css_cp : n -> rune

type css_state =
| CsText
| CsEsc
| CsHex of n * nat

val css_run : css_state -> rune list -> rune list

val css_unescape_runes : rune list -> rune list

val css_unescape : bytes -> rune list

val css_alpha : nat option -> bytes -> bool

val css_alphabet : bytes -> bool
