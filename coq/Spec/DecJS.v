(* Specification side of C10, written independently of the escapers:
   - [js_unescape]: the string value of the body of an ECMAScript string literal
     (ECMA-262 StringLiteral, strict mode, no line continuations), with UTF-16
     surrogate pairs combined into scalar values;
   - [css_unescape]: CSS Syntax Level 3 "consume an escaped code point" applied
     along a text;
   - the output alphabets [js_alphabet] and [css_alphabet].
   All decoders work on the rune list of their input ([utf8_decode]) and test
   runes with boolean comparisons only. *)
From DT Require Import Model.Bytes Model.Utf8 Model.Hex.
Local Open Scope N_scope.

(* value of a hex digit given as a rune (either case) *)
Definition hexv (r : rune) : option N :=
  if btw 48 57 r then Some (r - 48)
  else if btw 65 70 r then Some (r - 55)
  else if btw 97 102 r then Some (r - 87)
  else None.

Definition hex2v (a b : rune) : option N :=
  match hexv a, hexv b with
  | Some x, Some y => Some (x * 16 + y)
  | _, _ => None
  end.

Definition hex4v (a b c d : rune) : option N :=
  match hexv a, hexv b, hexv c, hexv d with
  | Some x, Some y, Some z, Some w => Some (((x * 16 + y) * 16 + z) * 16 + w)
  | _, _, _, _ => None
  end.

Definition is_hi_surr (r : N) : bool := btw 55296 56319 r.   (* D800..DBFF *)
Definition is_lo_surr (r : N) : bool := btw 56320 57343 r.   (* DC00..DFFF *)
Definition surr_pair (hi lo : N) : N := 65536 + (hi - 55296) * 1024 + (lo - 56320).

(* LF CR LS PS *)
Definition js_line_term (r : rune) : bool :=
  (r =? 10) || (r =? 13) || (r =? 8232) || (r =? 8233).

(* backslash followed by [e], [e] none of u x 0..9:
   SingleEscapeCharacter or NonEscapeCharacter; None for a line terminator
   (that would be a line continuation) *)
Definition js_single (e : rune) : option rune :=
  if js_line_term e then None
  else if e =? 98 then Some 8         (* b *)
  else if e =? 102 then Some 12       (* f *)
  else if e =? 110 then Some 10       (* n *)
  else if e =? 114 then Some 13       (* r *)
  else if e =? 116 then Some 9        (* t *)
  else if e =? 118 then Some 11       (* v *)
  else Some e.                        (* backslash, slash, both quotes and every other character denote themselves *)

Fixpoint js_unescape_runes (s : list rune) : option (list rune) :=
  match s with
  | [] => Some []
  | c :: rest =>
    if c =? 92 then
      match rest with
      | [] => None                                       (* backslash at the end *)
      | e :: rest1 =>
        if e =? 117 then                                 (* u H H H H *)
          match rest1 with
          | h1 :: h2 :: h3 :: h4 :: rest2 =>
            match hex4v h1 h2 h3 h4 with
            | None => None
            | Some hi =>
              let alone := option_map (cons hi) (js_unescape_runes rest2) in
              if is_hi_surr hi then
                match rest2 with
                | c2 :: e2 :: l1 :: l2 :: l3 :: l4 :: rest3 =>
                  if (c2 =? 92) && (e2 =? 117) then
                    match hex4v l1 l2 l3 l4 with
                    | Some lo =>
                      if is_lo_surr lo
                      then option_map (cons (surr_pair hi lo)) (js_unescape_runes rest3)
                      else alone
                    | None => alone                      (* = None: the next escape is malformed *)
                    end
                  else alone
                | _ => alone
                end
              else alone
            end
          | _ => None
          end
        else if e =? 120 then                            (* x H H *)
          match rest1 with
          | h1 :: h2 :: rest2 =>
            match hex2v h1 h2 with
            | Some v => option_map (cons v) (js_unescape_runes rest2)
            | None => None
            end
          | _ => None
          end
        else if e =? 48 then                             (* 0 not followed by a decimal digit *)
          match rest1 with
          | d :: _ => if btw 48 57 d then None else option_map (cons 0) (js_unescape_runes rest1)
          | [] => Some [0]
          end
        else if btw 49 57 e then None                    (* octal / \8 \9: not in strict mode *)
        else
          match js_single e with
          | Some v => option_map (cons v) (js_unescape_runes rest1)
          | None => None
          end
      end
    else if (c =? 34) || (c =? 39) || (c =? 10) || (c =? 13) then None   (* raw quote, LF, CR *)
    else option_map (cons c) (js_unescape_runes rest)
  end.

Definition js_unescape (s : bytes) : option (list rune) := js_unescape_runes (utf8_decode s).

(* ----- JS output alphabet ----- *)

Definition js_safe_char (b : byte) : bool :=
  is_alnum b || beqb b ","%byte || beqb b "."%byte || beqb b "_"%byte.

Definition js_esc_letter (b : byte) : bool :=
  beqb b x5c || beqb b "/"%byte || beqb b "b"%byte || beqb b "f"%byte
  || beqb b "n"%byte || beqb b "r"%byte || beqb b "t"%byte.

(* letters, digits, , . _ ; backslash + one of \ / b f n r t ; backslash u + 4 lower-case hex digits *)
Fixpoint js_alphabet (s : bytes) : bool :=
  match s with
  | [] => true
  | c :: rest =>
    if beqb c x5c then
      match rest with
      | e :: rest1 =>
        if beqb e "u"%byte then
          match rest1 with
          | h1 :: h2 :: h3 :: h4 :: rest2 =>
            is_lo_hex h1 && is_lo_hex h2 && is_lo_hex h3 && is_lo_hex h4 && js_alphabet rest2
          | _ => false
          end
        else js_esc_letter e && js_alphabet rest1
      | [] => false
      end
    else js_safe_char c && js_alphabet rest
  end.

(* ----- CSS ----- *)

Definition css_ws (r : rune) : bool := (r =? 32) || (r =? 9) || (r =? 10).

(* the code point denoted by a hex escape *)
Definition css_cp (v : N) : rune :=
  if (v =? 0) || btw 55296 57343 v || (1114111 <? v) then rune_error else v.

Inductive css_state : Type :=
| CsText                         (* between tokens *)
| CsEsc                          (* just after a backslash *)
| CsHex (acc : N) (more : nat).  (* in a hex escape; [more] further digits may follow *)

Fixpoint css_run (st : css_state) (s : list rune) : list rune :=
  match s with
  | [] =>
    match st with
    | CsText => []
    | CsEsc => [rune_error]                      (* backslash at the end of input *)
    | CsHex acc _ => [css_cp acc]
    end
  | c :: rest =>
    match st with
    | CsText =>
      if c =? 92 then css_run CsEsc rest else c :: css_run CsText rest
    | CsEsc =>
      match hexv c with
      | Some v => css_run (CsHex v 5) rest
      | None =>
        if c =? 10 then 92 :: c :: css_run CsText rest      (* not a valid escape: copied *)
        else c :: css_run CsText rest
      end
    | CsHex acc more =>
      match more, hexv c with
      | S more', Some v => css_run (CsHex (acc * 16 + v) more') rest
      | _, _ =>
        css_cp acc ::
        (if css_ws c then css_run CsText rest                (* one whitespace is swallowed *)
         else if c =? 92 then css_run CsEsc rest
         else c :: css_run CsText rest)
      end
    end
  end.

Definition css_unescape_runes (s : list rune) : list rune := css_run CsText s.
Definition css_unescape (s : bytes) : list rune := css_unescape_runes (utf8_decode s).

(* letters, digits, and backslash + 1..6 hex digits + exactly one space.
   State: None between tokens, Some n inside an escape after n digits. *)
Fixpoint css_alpha (st : option nat) (s : bytes) : bool :=
  match s with
  | [] => match st with None => true | Some _ => false end
  | c :: rest =>
    match st with
    | None => if beqb c x5c then css_alpha (Some 0%nat) rest else is_alnum c && css_alpha None rest
    | Some n =>
      if is_hex c then Nat.ltb n 6 && css_alpha (Some (S n)) rest
      else beqb c " "%byte && Nat.ltb 0 n && css_alpha None rest
    end
  end.

Definition css_alphabet (s : bytes) : bool := css_alpha None s.
