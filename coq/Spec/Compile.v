(* The tree the parser is supposed to build for a template of the generators' language
   (parser.go processCtl / processCond / extractMods / extractArgs, tree_node.go splitNodes /
   rollupSwitchNodes), as a function of the AST.  Tied to the real parser by the parser
   correspondence: compile a = dump of Parse (print a). *)
From DT Require Import Model.Bytes Model.Value Model.Tree Model.Mods Spec.Ast Spec.RefEval.
Local Open Scope Z_scope.

Definition c_arg (a : aarg) : targ := mkArg (aa_kv a) (aa_text a) (aa_lit a) false.
Definition c_mod (m : amod) : tmod := mkMod (am_name m) (map c_arg (am_args m)).

(* escape letters: one modifier per run, with the run length as its (literal) argument *)
Fixpoint c_letters (runs : list (byte * Z)) : list tmod :=
  match runs with
  | [] => []
  | (l, n) :: r =>
    match letter_mod l with
    | Some name => mkMod name [mkArg [] (print_Z n) true false] :: c_letters r
    | None => c_letters r
    end
  end.

Definition c_print (letters path : bytes) (mods : list amod) (pfx sfx : bytes) (raw : bool) : node :=
  NTpl path pfx sfx raw (map c_mod mods ++ c_letters (letter_runs letters)).

Local Open Scope byte_scope.
Definition b_len : bytes := ["l";"e";"n"].
Definition b_cap : bytes := ["c";"a";"p"].
Definition b_static : bytes := ["s";"t";"a";"t";"i";"c"].
Definition n_vok : bytes := ["v";"o";"k"].
Local Close Scope byte_scope.

Definition c_cond (c : acond) : condinfo :=
  match ac_helper c with
  | [] => mkCond (ac_l c) (ac_r c) (ac_llit c) (ac_rlit c) (ac_op c) [] [] LcNone
  | h =>
    let arg := [mkArg [] (ac_harg c) false false] in
    if bytes_eqb h b_len || bytes_eqb h b_cap then
      (* the whole left side "len(x)" is also recorded as the (unused) left operand *)
      mkCond (h ++ ["("%byte] ++ ac_harg c ++ [")"%byte]) (ac_r c) false true (ac_op c) h arg
             (if bytes_eqb h b_len then LcLen else LcCap)
    else mkCond [] [] false false OpUnk h arg LcNone
  end.

Definition c_case_free (c : acond) : caseinfo :=
  match ac_helper c with
  | [] => mkCase (ac_l c) (ac_r c) (ac_llit c) (ac_rlit c) (ac_op c) [] []
  | h => mkCase [] [] false false OpUnk h [mkArg [] (ac_harg c) false false]
  end.
Definition c_case_classic (c : acond) : caseinfo := mkCase (ac_l c) [] (ac_llit c) false OpUnk [] [].

(* adjacent static text is one raw node (comments and empty text leave nothing) *)
Fixpoint merge_raws (l : list node) : list node :=
  match l with
  | NRaw a :: r =>
    match merge_raws r with
    | NRaw b :: r' => NRaw (a ++ b) :: r'
    | r' => NRaw a :: r'
    end
  | x :: r => x :: merge_raws r
  | [] => []
  end.

Section CompileList.
  Variable f : ast -> list node.
  Fixpoint c_list (l : list ast) : list node :=
    match l with [] => [] | a :: r => f a ++ c_list r end.
  Variable classic : bool.
  Fixpoint c_cases (l : list ast) : list node :=
    match l with
    | [] => []
    | ACase c body :: r =>
      NBlock BCase (if classic then c_case_classic c else c_case_free c) (merge_raws (c_list body)) :: c_cases r
    | _ :: r => c_cases r
    end.
End CompileList.

Definition loop_children (body els : list node) (has_else : bool) : list node :=
  if has_else then [NBlock BTrue no_case body; NBlock BFalse no_case els] else body.

(* rollupSwitchNodes appends the last group only when it has children: a trailing case or default
   with an empty body leaves no node (it could render nothing anyway) *)
Definition drop_empty_tail (l : list node) : list node :=
  match rev l with
  | NBlock _ _ [] :: r => rev r
  | _ => l
  end.

Fixpoint compile (a : ast) : list node :=
  match a with
  | AText [] => []
  | AText t => [NRaw t]
  | AComment _ => []
  | APrint letters path mods pfx sfx raw => [c_print letters path mods pfx sfx raw]
  | ATernary c p1 p2 =>
    [NCond (c_cond c) [NBlock BTrue no_case [NTpl p1 [] [] false []]; NBlock BFalse no_case [NTpl p2 [] [] false []]]]
  | AIf c th el has_else =>
    [NCond (c_cond c) (NBlock BTrue no_case (merge_raws (c_list compile th)) ::
                       (if has_else then [NBlock BFalse no_case (merge_raws (c_list compile el))] else []))]
  | AIfOK v okv arg arglit neg th el has_else =>
    [NCondOK (mkOk v okv b_static)
       (if neg then mkCond okv b_true false true OpNq n_vok [mkArg [] arg arglit false] LcNone
        else mkCond okv [] false false OpUnk n_vok [mkArg [] arg arglit false] LcNone)
       (NBlock BTrue no_case (merge_raws (c_list compile th)) ::
        (if has_else then [NBlock BFalse no_case (merge_raws (c_list compile el))] else []))]
  | ASwitch arg cases dflt has_default =>
    [NSwitch arg (drop_empty_tail
                    (c_cases compile (match arg with [] => false | _ => true end) cases ++
                     (if has_default then [NBlock BDefault no_case (merge_raws (c_list compile dflt))] else [])))]
  | ACase _ _ => []
  | ACLoop var init lim initlit limlit cop step sep body els has_else =>
    [NLoopCount var init lim sep initlit limlit cop step
       (loop_children (merge_raws (c_list compile body)) (merge_raws (c_list compile els)) has_else)]
  | ARLoop key val src sep body els has_else =>
    [NLoopRange key val src sep
       (loop_children (merge_raws (c_list compile body)) (merge_raws (c_list compile els)) has_else)]
  | ABreak lazy n has_cond c =>
    let b := if lazy then NLBreak n else NBreak n in
    if has_cond then [NCond (c_cond c) [b]] else [b]
  | AContinue has_cond c => if has_cond then [NCond (c_cond c) [NContinue]] else [NContinue]
  | ACtx var src ok lit mods => [NCtx var src ok b_static lit (if lit then [] else map c_mod mods)]
  | ACounter var is_init cop arg =>
    [NCounter var is_init (if is_init then arg else 0) (if is_init then OpUnk else cop) (if is_init then 0 else arg)]
  | AInclude names => [NInclude names]
  | AExit => [NExit]
  | ARegion f body => NFlag f true :: c_list compile body ++ [NFlag f false]
  end.

Definition compile_tpl (l : list ast) : tree := merge_raws (c_list compile l).
