(* Specification side of C08: Go's html.UnescapeString, restricted to the character
   references that matter here (numeric references and amp/lt/gt/quot), and the output
   alphabets of the two escapers.  Written independently of the escapers. *)
From DT Require Import Model.Bytes Model.Utf8.
Local Open Scope byte_scope.

(* ------------------------------------------------------------------ *)
(* generic helpers                                                      *)

(* [strip_prefix p s] = Some t  iff  s = p ++ t *)
Fixpoint strip_prefix (p s : bytes) : option bytes :=
  match p, s with
  | [], _ => Some s
  | a :: p', b :: s' => if beqb a b then strip_prefix p' s' else None
  | _ :: _, [] => None
  end.

Definition starts_with (p s : bytes) : bool :=
  match strip_prefix p s with Some _ => true | None => false end.

(* ------------------------------------------------------------------ *)
(* numeric character references                                         *)

Definition dec_val (b : byte) : option N :=
  if is_digit b then Some (b2n b - 48)%N else None.

Definition digit_val (hex : bool) (b : byte) : option N :=
  if hex then hex_val b else dec_val b.

(* consume digits; returns the value, the number of digits read, and the unread text.
   Stops at the first byte that is not a digit of the base. *)
Fixpoint scan_num (hex : bool) (acc : N) (nd : nat) (s : bytes) : N * nat * bytes :=
  match s with
  | [] => (acc, nd, [])
  | c :: rest =>
    match digit_val hex c with
    | Some v => scan_num hex (acc * (if hex then 16 else 10) + v)%N (S nd) rest
    | None => (acc, nd, s)
    end
  end.

(* html.replacementTable: what 0x80 .. 0x9F stand for (Windows-1252) *)
Definition win1252 : list N :=
  [ 0x20AC; 0x0081; 0x201A; 0x0192; 0x201E; 0x2026; 0x2020; 0x2021;
    0x02C6; 0x2030; 0x0160; 0x2039; 0x0152; 0x008D; 0x017D; 0x008F;
    0x0090; 0x2018; 0x2019; 0x201C; 0x201D; 0x2022; 0x2013; 0x2014;
    0x02DC; 0x2122; 0x0161; 0x203A; 0x0153; 0x009D; 0x017E; 0x0178 ]%N.

(* The rune written for the accumulated number [x].  Go accumulates in an int32, so
   the number is taken modulo 2^32 and the upper half is negative; a negative rune is
   written as U+FFFD by utf8.EncodeRune. *)
Definition ref_value (x : N) : N :=
  let v := (x mod 4294967296)%N in
  if (2147483648 <=? v)%N then 0xFFFD%N
  else if ((0x80 <=? v) && (v <=? 0x9F))%N then nth (N.to_nat (v - 0x80)) win1252 0xFFFD%N
  else if ((v =? 0) || ((0xD800 <=? v) && (v <=? 0xDFFF)) || (0x10FFFF <? v))%N then 0xFFFD%N
  else v.

(* [t] is the text after "&#".  Result: decoded bytes and unread text, or None when the
   '&' is to be copied literally.  As in Go: at least two bytes must follow "&#", and at
   least two bytes (of  x, digits, ';') must have been consumed after "&#". *)
Definition numeric_ref (t : bytes) : option (bytes * bytes) :=
  match t with
  | c :: _ :: _ =>
    let hex := beqb c "x" || beqb c "X" in
    let '(v, nd, rem) := scan_num hex 0%N O (if hex then tl t else t) in
    let semi := match rem with c' :: _ => beqb c' ";" | [] => false end in
    let consumed := ((if hex then 1 else 0) + nd + (if semi then 1 else 0))%nat in
    if Nat.leb consumed 1 then None
    else Some (utf8_encode (ref_value v), if semi then tl rem else rem)
  | _ => None
  end.

(* ------------------------------------------------------------------ *)
(* named references: amp lt gt quot, with and without ';', longest match first *)

Definition named_table : list (bytes * byte) :=
  [ (["q"; "u"; "o"; "t"; ";"], """"); (["q"; "u"; "o"; "t"], """");
    (["a"; "m"; "p"; ";"], "&");       (["a"; "m"; "p"], "&");
    (["l"; "t"; ";"], "<");            (["l"; "t"], "<");
    (["g"; "t"; ";"], ">");            (["g"; "t"], ">") ].

Fixpoint named_ref_in (tbl : list (bytes * byte)) (s : bytes) : option (bytes * bytes) :=
  match tbl with
  | [] => None
  | (name, v) :: tbl' =>
    match strip_prefix name s with
    | Some rem => Some ([v], rem)
    | None => named_ref_in tbl' s
    end
  end.

(* [s] is the text after '&' *)
Definition char_ref (s : bytes) : option (bytes * bytes) :=
  match s with
  | c :: t => if beqb c "#" then numeric_ref t else named_ref_in named_table s
  | [] => None
  end.

(* ------------------------------------------------------------------ *)
(* html.UnescapeString.  Every step consumes at least one byte, so [length s] steps are enough. *)

Fixpoint unescape_fuel (fuel : nat) (s : bytes) : bytes :=
  match fuel with
  | O => []
  | S k =>
    match s with
    | [] => []
    | c :: rest =>
      if beqb c "&" then
        match char_ref rest with
        | Some (out, rem) => out ++ unescape_fuel k rem
        | None => c :: unescape_fuel k rest
        end
      else c :: unescape_fuel k rest
    end
  end.

Definition html_unescape (s : bytes) : bytes := unescape_fuel (length s) s.

(* ------------------------------------------------------------------ *)
(* output alphabet of the HTML escaper: none of the four bytes  <  >  double quote,
   single quote,  and every ampersand starts one of
   &lt; &gt; &quot; &#39; &amp; *)

Definition html_refs : list bytes :=
  [ ["l"; "t"; ";"]; ["g"; "t"; ";"]; ["q"; "u"; "o"; "t"; ";"]; ["#"; "3"; "9"; ";"]; ["a"; "m"; "p"; ";"] ].

Fixpoint html_alphabet (s : bytes) : bool :=
  match s with
  | [] => true
  | c :: rest =>
    (if beqb c "&" then existsb (fun p => starts_with p rest) html_refs
     else negb (beqb c "<") && negb (beqb c ">") && negb (beqb c """") && negb (beqb c "'"))
    && html_alphabet rest
  end.

(* ------------------------------------------------------------------ *)
(* output alphabet of the attribute escaper: ASCII letters, digits, , . - _ and the
   references &amp; &lt; &gt; &quot; &#xH...;  (one or more hex digits, then ';') *)

Definition attr_safe_char (b : byte) : bool :=
  is_alnum b || beqb b "," || beqb b "." || beqb b "-" || beqb b "_".

Definition attr_named : list bytes :=
  [ ["a"; "m"; "p"; ";"]; ["l"; "t"; ";"]; ["g"; "t"; ";"]; ["q"; "u"; "o"; "t"; ";"] ].

Fixpoint first_prefix (ps : list bytes) (s : bytes) : option bytes :=
  match ps with
  | [] => None
  | p :: ps' => match strip_prefix p s with Some rem => Some rem | None => first_prefix ps' s end
  end.

(* [s] is the text after '&'; result: the text after the reference *)
Definition attr_ref (s : bytes) : option bytes :=
  match strip_prefix ["#"; "x"] s with
  | Some t =>
    let '(_, nd, rem) := scan_num true 0%N O t in
    match nd, rem with
    | S _, c :: rem' => if beqb c ";" then Some rem' else None
    | _, _ => None
    end
  | None => first_prefix attr_named s
  end.

Fixpoint attr_alphabet_fuel (fuel : nat) (s : bytes) : bool :=
  match s with
  | [] => true
  | c :: rest =>
    match fuel with
    | O => false
    | S k =>
      if beqb c "&" then
        match attr_ref rest with
        | Some rem => attr_alphabet_fuel k rem
        | None => false
        end
      else attr_safe_char c && attr_alphabet_fuel k rest
    end
  end.

Definition attr_alphabet (s : bytes) : bool := attr_alphabet_fuel (length s) s.

(* what the attribute escaper does to a rune before writing it *)
Definition attr_norm (r : N) : N :=
  if (((r <? 0x1f) && negb (r =? 9) && negb (r =? 10) && negb (r =? 13))
      || ((0x7f <=? r) && (r <=? 0x9f)))%N
  then 0xFFFD%N else r.
