(* Specification side of C12: the properly nested tag sequences, written as the
   textbook stack checker for a Dyck language with three bracket kinds.  Nothing
   here looks at depth counters or snapshots. *)
From DT Require Import Model.Bytes Model.ParserSkel.

Inductive bracket := BIf | BFor | BSwitch.

(* [bal st w]: reading w with the stack st of currently open blocks (innermost first)
   ends with an empty stack, every closer matched the innermost open block, and no
   tag was erroneous. *)
Fixpoint bal (st : list bracket) (w : list tag) : bool :=
  match w with
  | [] => match st with [] => true | _ :: _ => false end
  | tg :: w' =>
    match tg with
    | OpenIf => bal (BIf :: st) w'
    | OpenFor => bal (BFor :: st) w'
    | OpenSwitch => bal (BSwitch :: st) w'
    | EndIf => match st with BIf :: st' => bal st' w' | _ => false end
    | EndFor => match st with BFor :: st' => bal st' w' | _ => false end
    | EndSwitch => match st with BSwitch :: st' => bal st' w' | _ => false end
    | ElseT | CaseT | DefaultT | Leaf => bal st w'
    | Bad => false
    end
  end.

Definition balanced (w : list tag) : bool := bal [] w.

(* The same language as a grammar, for reference:
     B ::= eps | n B | if B endif B | for B endfor B | switch B endswitch B
   with n one of Leaf, ElseT, CaseT, DefaultT. *)
Definition neutral (tg : tag) : bool :=
  match tg with ElseT | CaseT | DefaultT | Leaf => true | _ => false end.

Inductive Balanced : list tag -> Prop :=
| BalNil : Balanced []
| BalNeutral n w : neutral n = true -> Balanced w -> Balanced (n :: w)
| BalIf b w : Balanced b -> Balanced w -> Balanced (OpenIf :: b ++ EndIf :: w)
| BalFor b w : Balanced b -> Balanced w -> Balanced (OpenFor :: b ++ EndFor :: w)
| BalSwitch b w : Balanced b -> Balanced w -> Balanced (OpenSwitch :: b ++ EndSwitch :: w).

(* Scan side: the two-byte sequence a b occurs somewhere in s. *)
Definition occurs2 (a b : byte) (s : bytes) : Prop :=
  exists p r, s = p ++ a :: b :: r.

(* Shape of the tokens of a scan: raw text is non-empty and free of "{%"; inside a tag
   the first "%}" at or after the opening "{" is the closing one (no "%}" starts
   anywhere in "{%" ++ s ++ "%"). *)
Local Open Scope byte_scope.
Definition tok_wf (t : tok) : Prop :=
  match t with
  | TRawT s => s <> [] /\ ~ occurs2 "{" "%" s
  | TCtl s => ~ occurs2 "%" "}" ("{" :: "%" :: s ++ ["%"])
  | TCtlOverlap => True
  end.
