(* What the rounding modifiers are supposed to compute, stated on exact real numbers.
   Nothing here mentions the float operations of the model (Bmult, Bdiv, Bnearbyint):
   only the real value of the input, integer parts of reals, and the one rounding
   real -> binary64 (nearest, ties to even) that any float64 result has to go through. *)
From Coq Require Import ZArith Reals.
From Flocq Require Import Core.Core.
Local Open Scope R_scope.

(* ---- integer modes: floor / ceil / round of a real, as integers ---- *)
(* Zfloor r = the greatest integer <= r, Zceil r = the least integer >= r,
   Ztrunc r = the integer part toward zero (Flocq Raux) *)
Definition real_floor (r : R) : Z := Zfloor r.
Definition real_ceil  (r : R) : Z := Zceil r.
Definition real_trunc (r : R) : Z := Ztrunc r.
(* round half away from zero (math.Round) *)
Definition round_half_away (r : R) : Z :=
  if Rle_bool 0 r then Zfloor (r + / 2) else Zceil (r - / 2).

(* ---- precision modes: the mathematically right value  m(x * 10^p) / 10^p ---- *)
Definition pow10R (p : Z) : R := IZR (10 ^ p).
Definition prec_value (m : R -> Z) (p : Z) (r : R) : R := IZR (m (r * pow10R p)) / pow10R p.

(* ---- binary64 ---- *)
(* exponent function of binary64: 53 bits of precision, least exponent -1074 *)
Definition f64_exp : Z -> Z := FLT_exp (-1074) 53.
(* r is (the value of) a finite binary64, up to overflow *)
Definition is_f64 (r : R) : Prop := generic_format radix2 f64_exp r.
(* the binary64 nearest to r, ties to even: the best any float64 result can be *)
Definition round_NE (r : R) : R := round radix2 f64_exp ZnearestE r.

(* "exact at the requested number of decimals": the float result is the binary64 nearest to
   the exact decimal value *)
Definition prec_spec (m : R -> Z) (p : Z) (r : R) : R := round_NE (prec_value m p r).
