(* V-mode, specification side: the same case evaluated by the reference semantics on the
   generator's AST (not on the parsed tree), compared with what the real engine produced in
   the fault-free run. *)
From Coq Require Import String.
From DT Require Import Model.Bytes Model.Value Model.Tree Model.TreeEq Model.Interp Model.VCase Spec.Ast Spec.RefEval Spec.Compile.

Record scase := mkSCase {
  sc_ast : list ast;
  sc_reg : list (bytes * list ast);
  sc_env : list (bytes * entry);
  sc_flits : list (bytes * Z);
  sc_budget : nat;
  sc_out : bytes;      (* fault-free run of the real engine *)
  sc_err : N }.

Inductive sverdict :=
| SpecOk
| SpecNA                                   (* outside the specified domain *)
| SpecBad (out : string) (e : N).          (* what the reference semantics demands instead *)

Definition areg_lookup (reg : list (bytes * list ast)) (names : list bytes) : option (list ast) :=
  (fix go ns := match ns with
                | [] => None
                | n :: r =>
                  match (fix find l := match l with [] => None | (k, t) :: l' => if bytes_eqb k n then Some t else find l' end) reg with
                  | Some t => Some t
                  | None => go r
                  end
                end) names.

Definition spec_check (sc : scase) : sverdict :=
  let '(o, _, e, defined) := ref_render (sc_flits sc) (areg_lookup (sc_reg sc)) (sc_budget sc) 8 (sc_ast sc) (env_with (sc_env sc)) in
  if defined then
    if bytes_eqb o (sc_out sc) && N.eqb (err_code e) (sc_err sc) then SpecOk
    else SpecBad (hex_string o) (err_code e)
  else SpecNA.

(* parser correspondence: the tree dumped from the real parser is the compiled AST *)
Inductive pverdict := ParseOk | ParseBad.
Definition parse_check (sc : scase) (dump : tree) (regdumps : list (bytes * tree)) : pverdict :=
  if tree_eqb (compile_tpl (sc_ast sc)) dump &&
     forallb (fun kt => match areg_lookup (sc_reg sc) [fst kt] with
                        | Some a => tree_eqb (compile_tpl a) (snd kt)
                        | None => false
                        end) regdumps
  then ParseOk else ParseBad.
