(* Surface language of the generators: the templates the properties quantify over, as a tree
   the harness builds (and prints as concrete syntax for the real parser). *)
From DT Require Import Model.Bytes Model.Tree.

Record aarg := mkAArg {
  aa_lit : bool;        (* literal (its text, without quotes) or variable path *)
  aa_text : bytes;
  aa_kv : bytes }.      (* non-empty: member of a {k:v} group *)

Record amod := mkAMod { am_name : bytes; am_args : list aarg }.

Record acond := mkACond {
  ac_l : bytes; ac_r : bytes;         (* operand texts (literals without their quotes) *)
  ac_llit : bool; ac_rlit : bool;
  ac_op : op;
  ac_helper : bytes;                  (* "" | "len" | "cap" | a registered helper's name *)
  ac_harg : bytes }.

Inductive ast :=
| AText (t : bytes)
| AComment (t : bytes)
| APrint (letters path : bytes) (mods : list amod) (pfx sfx : bytes) (raw : bool)
| ATernary (c : acond) (p1 p2 : bytes)
| AIf (c : acond) (th el : list ast) (has_else : bool)
| AIfOK (v okv arg : bytes) (arglit neg : bool) (th el : list ast) (has_else : bool)
                                          (* {% if v, okv := vok(arg).(static); [!]okv %} *)
| ASwitch (arg : bytes) (cases : list ast) (dflt : list ast) (has_default : bool)
| ACase (c : acond) (body : list ast)      (* only inside ASwitch; classic form: ac_l is the case value *)
| ACLoop (var init lim : bytes) (initlit limlit : bool) (cop step : op) (sep : bytes)
         (body els : list ast) (has_else : bool)
| ARLoop (key val src sep : bytes) (body els : list ast) (has_else : bool)
| ABreak (lazy : bool) (n : Z) (has_cond : bool) (c : acond)
| AContinue (has_cond : bool) (c : acond)
| ACtx (var src ok : bytes) (lit : bool) (mods : list amod)
| ACounter (var : bytes) (is_init : bool) (cop : op) (arg : Z)
| AInclude (names : list bytes)
| AExit
| ARegion (f : flag) (body : list ast).

Definition no_cond : acond := mkACond [] [] false false OpUnk [] [].
