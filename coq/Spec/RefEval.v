(* Reference semantics of the template language: compositional, store-passing, no scratch
   state.  A condition is a function of its operands' current values; a loop folds its body
   over the counter values / the elements; include evaluates the included template in place.
   Anything the properties leave unspecified (a failing modifier, an operand of the wrong
   kind, a control instruction escaping an included template ...) evaluates to [SNA]: such a
   case is judged by the model/implementation correspondence only. *)
From DT Require Import Model.Bytes Model.Value Model.Tree Model.Mods Model.Interp Spec.Ast.
Local Open Scope Z_scope.

Record entry := mkEntry { en_val : value; en_static : bool }.

Record env := mkEnv {
  ev : list (bytes * entry);          (* name -> value, first match wins *)
  e_jq : bool; e_he : bool; e_ue : bool;   (* inside jsonquote / htmlescape / urlencode *)
  e_qb : bool;                        (* inside a counter-loop body: [x] in paths is substituted *)
  e_brk : Z }.                        (* enclosing loops still to be ended by a break/lazybreak N *)

Definition env_with (l : list (bytes * entry)) : env := mkEnv l false false false false 0.

Definition set_ev x (e : env) := mkEnv x (e_jq e) (e_he e) (e_ue e) (e_qb e) (e_brk e).
Definition set_eqb x (e : env) := mkEnv (ev e) (e_jq e) (e_he e) (e_ue e) x (e_brk e).
Definition set_ebrk x (e : env) := mkEnv (ev e) (e_jq e) (e_he e) (e_ue e) (e_qb e) x.
Definition set_eflag (f : flag) x (e : env) :=
  match f with
  | FJson => mkEnv (ev e) x (e_he e) (e_ue e) (e_qb e) (e_brk e)
  | FHtml => mkEnv (ev e) (e_jq e) x (e_ue e) (e_qb e) (e_brk e)
  | FUrl => mkEnv (ev e) (e_jq e) (e_he e) x (e_qb e) (e_brk e)
  end.

Fixpoint env_find (k : bytes) (l : list (bytes * entry)) : option entry :=
  match l with
  | [] => None
  | (k', x) :: r => if bytes_eqb k' k then Some x else env_find k r
  end.

(* assignment: update in place or append *)
Fixpoint env_upd (k : bytes) (x : entry) (l : list (bytes * entry)) : option (list (bytes * entry)) :=
  match l with
  | [] => None
  | (k', y) :: r => if bytes_eqb k' k then Some ((k', x) :: r)
                    else match env_upd k x r with Some r' => Some ((k', y) :: r') | None => None end
  end.
Definition env_set (k : bytes) (v : value) (static : bool) (e : env) : env :=
  match env_upd k (mkEntry v static) (ev e) with
  | Some l => set_ev l e
  | None => set_ev (ev e ++ [(k, mkEntry v static)]) e
  end.

Definition entry_get (x : entry) (rest : list bytes) : value :=
  if en_static x then en_val x else ins_get (en_val x) rest.

Definition env_get_plain (e : env) (path : bytes) : value :=
  match split_dot path with
  | [] => VNil
  | k :: rest => match env_find k (ev e) with Some x => entry_get x rest | None => VNil end
  end.

(* a[i] -> a.<text of i>, inside counter loops *)
Definition env_get (e : env) (path : bytes) : option value :=
  if e_qb e then
    match index_of "["%byte path 0, index_of "]"%byte path 0 with
    | Some l, Some r =>
      if Nat.ltb l r then
        let inner := firstn (r - S l) (skipn (S l) path) in
        match env_get_plain e inner with
        | VNil => Some (env_get_plain e (firstn l path ++ ["."%byte] ++ skipn (S r) path))
        | v => match text_of [] v with
               | Some t => Some (env_get_plain e (firstn l path ++ ["."%byte] ++ t ++ skipn (S r) path))
               | None => None
               end
        end
      else Some (env_get_plain e path)
    | _, _ => Some (env_get_plain e path)
    end
  else Some (env_get_plain e path).

Inductive sig :=
| SNone
| SBrk            (* break: the innermost loop ends now; e_brk holds the depth *)
| SLazy           (* lazybreak: the innermost loop ends after this iteration *)
| SCont
| SExit
| SErr (e : err)
| SNA.            (* outside the specified domain *)

Definition res := (bytes * env * sig)%type.

Definition region_of (e : env) (p : bytes) : bytes :=
  if e_jq e then EscJSON.json_escape p
  else if e_he e then EscHTML.html_escape p
  else if e_ue e then EscURL.url_encode p
  else p.

(* ---- conditions ---- *)
Inductive cres := CB (b : bool) | CErr (x : err) | CNA.

Definition cmp_path (flits : list (bytes * Z)) (e : env) (path : bytes) (o : op) (lit : bytes) : cres :=
  match split_dot path with
  | [] => CB false
  | k :: rest =>
    match env_find k (ev e) with
    | None => CB false
    | Some x =>
      let v := entry_get x rest in
      match leaf_cmp (en_static x) [] v (cmp_of_op o) lit (flit_of flits lit) with
      | Some b => CB b
      | None => match v with
                | VInt _ | VUint _ | VFloat _ _ => if en_static x then CB false else CNA   (* unparseable literal *)
                | _ => CB false
                end
      end
    end
  end.

Definition ref_cond (flits : list (bytes * Z)) (e : env) (c : acond) : cres :=
  match ac_helper c with
  | [] =>
    if ac_llit c && ac_rlit c then CErr ESenseless
    else if ac_rlit c then cmp_path flits e (ac_l c) (ac_op c) (ac_r c)
    else if ac_llit c then cmp_path flits e (ac_r c) (op_swap (ac_op c)) (ac_l c)
    else
      match env_get e (ac_r c) with
      | None => CNA
      | Some v => match text_of [] v with
                  | Some t => cmp_path flits e (ac_l c) (ac_op c) t
                  | None => CNA
                  end
      end
  | h =>
    let is_len := bytes_eqb h ["l";"e";"n"]%byte in
    let is_cap := bytes_eqb h ["c";"a";"p"]%byte in
    if is_len || is_cap then
      match (if e_qb e then None else Some tt) with
      | None => CNA          (* index substitution inside len()/cap() is left to the correspondence *)
      | Some _ =>
        match split_dot (ac_harg c) with
        | [] => CB false
        | k :: rest =>
          match env_find k (ev e) with
          | None => CB false
          | Some x =>
            match leaf_len (entry_get x rest) with
            | Some n => CB (match option_map (cmp_Z (cmp_of_op (ac_op c)) n) (parse_Z (ac_r c)) with Some b => b | None => false end)
            | None => if en_static x then CB (match option_map (cmp_Z (cmp_of_op (ac_op c)) 0) (parse_Z (ac_r c)) with Some b => b | None => false end) else CNA
            end
          end
        end
      end
    else if cond_known h then
      match env_get e (ac_harg c) with
      | None => CNA
      | Some v => CB (match cond_helper h [AVal v] with Some b => b | None => false end)
      end
    else CErr ECondHlpNotFound
  end.

(* ---- modifiers of a print ---- *)
Local Open Scope byte_scope.
Definition letter_mod (l : byte) : option bytes :=
  if beqb l "h" then Some ["h";"t";"m";"l";"E";"s";"c";"a";"p";"e"]
  else if beqb l "a" then Some ["a";"t";"t";"r";"E";"s";"c";"a";"p";"e"]
  else if beqb l "j" then Some ["j";"s";"o";"n";"E";"s";"c";"a";"p";"e"]
  else if beqb l "q" then Some ["j";"s";"o";"n";"Q";"u";"o";"t";"e"]
  else if beqb l "J" then Some ["j";"s";"E";"s";"c";"a";"p";"e"]
  else if beqb l "u" then Some ["u";"r";"l";"E";"n";"c";"o";"d";"e"]
  else if beqb l "l" then Some ["l";"i";"n";"k";"E";"s";"c";"a";"p";"e"]
  else if beqb l "c" then Some ["c";"s";"s";"E";"s";"c";"a";"p";"e"]
  else None.
Local Close Scope byte_scope.

(* run-length groups of a directive string: "jjh" -> (j,2) (h,1) *)
Fixpoint letter_runs (s : bytes) : list (byte * Z) :=
  match s with
  | [] => []
  | c :: r =>
    match letter_runs r with
    | (c', n) :: t => if beqb c c' then (c, n + 1) :: t else (c, 1) :: (c', n) :: t
    | [] => [(c, 1)]
    end
  end.

Fixpoint eval_args (e : env) (args : list aarg) : option (list argval) :=
  match args with
  | [] => Some []
  | a :: r =>
    let v := if aa_lit a then Some (VBytes (aa_text a)) else env_get e (aa_text a) in
    match v, eval_args e r with
    | Some v, Some vs => Some ((match aa_kv a with [] => AVal v | k => AKV k v end) :: vs)
    | _, _ => None
    end
  end.

Inductive chres := ChV (v : value) | ChE (x : merr) | ChNA.

Fixpoint apply_mods (e : env) (mods : list amod) (v : value) : chres :=
  match mods with
  | [] => ChV v
  | m :: r =>
    match eval_args e (am_args m) with
    | None => ChNA
    | Some args =>
      match pure_mod [] (am_name m) v args with
      | POk v' => apply_mods e r v'
      | PErr x => ChE x
      | PImpure => ChNA
      end
    end
  end.

Fixpoint apply_letters (runs : list (byte * Z)) (v : value) : chres :=
  match runs with
  | [] => ChV v
  | (l, n) :: r =>
    match letter_mod l with
    | None => ChNA
    | Some name =>
      match pure_mod [] name v [AVal (VBytes (print_Z n))] with
      | POk v' => apply_letters r v'
      | PErr x => ChE x
      | PImpure => ChNA
      end
    end
  end.

(* modifiers chained with '|' run left to right before any escape letter *)
Definition print_value (e : env) (letters : bytes) (mods : list amod) (v : value) : chres :=
  match apply_mods e mods v with
  | ChV v1 => apply_letters (letter_runs letters) v1
  | r => r
  end.

Definition emit_value (e : env) (v : value) (pfx sfx : bytes) (raw : bool) : res :=
  match v with
  | VNil => ([], e, SNone)
  | _ =>
    match text_of [] v with
    | None => ([], e, SErr EUnknownType)
    | Some [] => ([], e, SNone)
    | Some t => (region_of e pfx ++ (if raw then t else region_of e t) ++ region_of e sfx, e, SNone)
    end
  end.

Definition ref_print (e : env) (letters path : bytes) (mods : list amod) (pfx sfx : bytes) (raw : bool) : res :=
  match env_get e path with
  | None => ([], e, SNA)
  | Some v =>
    match print_value e letters mods v with
    | ChV v' => emit_value e v' pfx sfx raw
    | ChE _ => ([], e, SNone)          (* a failing modifier: nothing is printed *)
    | ChNA => ([], e, SNA)
    end
  end.

Definition bound_of (e : env) (lit : bool) (b : bytes) : option Z + err :=
  if lit then match parse_Z b with Some z => inl (Some z) | None => inl None end
  else match env_get e b with
       | None => inl None
       | Some v => match if2int [] v with Some z => inl (Some z) | None => inr EWrongLoopLim end
       end.

Section Seq.
  Variable f : ast -> env -> res.

  (* a sequence of items; [lz]: a lazybreak has been seen in this iteration *)
  Fixpoint seq_with (l : list ast) (e : env) (acc : bytes) (lz : bool) : res :=
    match l with
    | [] => (acc, e, if lz then SLazy else SNone)
    | a :: r =>
      let '(o, e1, s) := f a e in
      match s with
      | SNone => seq_with r e1 (acc ++ o) lz
      | SLazy => seq_with r e1 (acc ++ o) true
      | SCont => (acc ++ o, e1, if lz then SBrk else SCont)
      | x => (acc ++ o, e1, x)
      end
    end.

  (* the items of a template (and of a for-else branch): the first signal ends the walk *)
  Fixpoint top_with (l : list ast) (e : env) (acc : bytes) : res :=
    match l with
    | [] => (acc, e, SNone)
    | a :: r =>
      let '(o, e1, s) := f a e in
      match s with
      | SNone => top_with r e1 (acc ++ o)
      | x => (acc ++ o, e1, x)
      end
    end.

  (* switch: first case for which the test holds *)
  Variable test : acond -> env -> cres.
  Variable dflt : list ast.
  Variable has_default : bool.
  Fixpoint cases_ref (l : list ast) (e : env) : res :=
    match l with
    | [] => if has_default then seq_with dflt e [] false else ([], e, SNone)
    | ACase c body :: r =>
      match test c e with
      | CB true => seq_with body e [] false
      | CB false => cases_ref r e
      | CErr x => ([], e, SErr x)
      | CNA => ([], e, SNA)
      end
    | _ :: r => cases_ref r e
    end.
End Seq.

(* end of a loop: it is one of the loops a pending depth names *)
Definition loop_done (e : env) (saved : Z) : env :=
  let b := if 0 <? e_brk e then e_brk e - 1 else e_brk e in
  set_ebrk (Z.max b saved) e.

Section Loops.
  Variable bodyf : env -> res.          (* one iteration of the body, from an empty output *)
  Variable elsef : env -> res.
  Variable has_else : bool.
  Variable saved : Z.
  Variable sep : bytes.

  Definition run_else (e : env) (acc : bytes) (trips : nat) : res :=
    match trips, has_else with
    | O, true =>
      let '(o, e1, s) := elsef e in
      match s with
      | SNone => (acc ++ o, set_ebrk (Z.max (e_brk e1) saved) e1, SNone)
      (* a control instruction in the else branch is not inside this loop (which has ended): it
         names the loops that enclose this one, and is handed to them unchanged; at the top level
         of a template the render reports it like any control instruction outside a loop *)
      | x => (acc ++ o, e1, x)
      end
    | _, _ => (acc, e, SNone)
    end.

  (* counter loop *)
  Variables (var : bytes) (cop step : op) (limv : Z).

  Fixpoint cloop_ref (fuel : nat) (e : env) (acc : bytes) (trips : nat) (cur : Z) : res :=
    match cloop_allows cop cur limv with
    | None => (acc, e, SNA)
    | Some allow =>
      if allow && (e_brk e =? 0) then
        match fuel with
        | O => (acc, e, SNA)
        | S fuel' =>
          let e0 := env_set var (VInt cur) true e in
          let acc := match trips, sep with O, _ | _, [] => acc | _, _ => acc ++ region_of e0 sep end in
          let qb := e_qb e0 in
          let '(o, e1, s) := bodyf (set_eqb true e0) in
          let e1 := set_eqb qb e1 in
          let nxt := match step with OpInc => Some (cur + 1) | OpDec => Some (cur - 1) | _ => None end in
          match nxt with
          | None => (acc ++ o, e1, SNA)
          | Some nxt =>
            match s with
            | SNone | SCont => cloop_ref fuel' e1 (acc ++ o) (S trips) nxt
            | SBrk | SLazy =>
              let e2 := env_set var (VInt nxt) true (loop_done e1 0) in
              (acc ++ o, set_ebrk (Z.max (e_brk e2) saved) e2, SNone)
            | x => (acc ++ o, e1, x)
            end
          end
        end
      else
        let e1 := loop_done e 0 in
        let e2 := match trips with O => e1 | _ => env_set var (VInt cur) true e1 end in
        let '(o, e3, s) := run_else (set_ebrk (e_brk e2) e2) acc trips in
        (o, set_ebrk (Z.max (e_brk e3) saved) e3, s)
    end.

  (* range loop *)
  Variables (key val : bytes).

  Fixpoint rloop_ref (els : list (bytes * value)) (e : env) (acc : bytes) (calls trips : nat) : res :=
    match els with
    | [] =>
      let e1 := loop_done e 0 in
      let '(o, e2, s) := run_else e1 acc calls in
      (o, set_ebrk (Z.max (e_brk e2) saved) e2, s)
    | (kb, x) :: r =>
      let e0 := match key with [] => e | _ => env_set key (VBytes kb) true e end in
      let e0 := env_set val x (elem_static x) e0 in
      if 0 <? e_brk e0 then
        let e1 := loop_done e0 0 in (acc, set_ebrk (Z.max (e_brk e1) saved) e1, SNone)
      else
        let acc := match trips, sep with O, _ | _, [] => acc | _, _ => acc ++ region_of e0 sep end in
        let '(o, e1, s) := bodyf e0 in
        match s with
        | SNone | SCont => rloop_ref r e1 (acc ++ o) (S calls) (S trips)
        | SBrk | SLazy =>
          let e2 := loop_done e1 0 in (acc ++ o, set_ebrk (Z.max (e_brk e2) saved) e2, SNone)
        | x => (acc ++ o, e1, x)
        end
    end.
End Loops.

Section Ref.
  Variable flits : list (bytes * Z).
  Variable lookup : list bytes -> option (list ast).     (* registry: the first registered name of a list *)
  Variable budget : nat.
  Variable inc : list ast -> env -> option res.          (* evaluation of an included template *)

  Definition cond_sig (c : cres) : option sig :=
    match c with CB _ => None | CErr x => Some (SErr x) | CNA => Some SNA end.

  Fixpoint ref_eval (a : ast) (e : env) {struct a} : res :=
    match a with
    | AText t => (region_of e t, e, SNone)
    | AComment _ => ([], e, SNone)
    | APrint letters path mods pfx sfx raw => ref_print e letters path mods pfx sfx raw
    | ATernary c p1 p2 =>
      match ref_cond flits e c with
      | CB true => ref_print e [] p1 [] [] [] false
      | CB false => ref_print e [] p2 [] [] [] false
      | CErr x => ([], e, SErr x)
      | CNA => ([], e, SNA)
      end
    | AIf c th el has_else =>
      match ref_cond flits e c with
      | CB true => seq_with ref_eval th e [] false
      | CB false => if has_else then seq_with ref_eval el e [] false else ([], e, SNone)
      | CErr x => ([], e, SErr x)
      | CNA => ([], e, SNA)
      end
    | AIfOK v okv arg arglit neg th el has_else =>
      (* vok: v receives a copy of the argument's text (nothing when it has none), okv tells
         whether that text is non-empty; the block chosen is an ordinary if/else *)
      match (if arglit then Some (VBytes arg) else env_get e arg) with
      | None => ([], e, SNA)
      | Some x =>
        let '(val, ok) := match text_of [] x with
                          | Some ((_ :: _) as t) => (VBytes t, true)
                          | _ => (VNil, false)
                          end in
        let e1 := env_set okv (VBool ok) true (env_set v val true e) in
        if xorb neg ok then seq_with ref_eval th e1 [] false
        else if has_else then seq_with ref_eval el e1 [] false else ([], e1, SNone)
      end
    | ASwitch arg cases dflt has_default =>
      match arg with
      | [] => cases_ref ref_eval (fun c e => ref_cond flits e c) dflt has_default cases e
      | _ =>
        cases_ref ref_eval
          (fun c e =>
             if ac_llit c then cmp_path flits e arg OpEq (ac_l c)
             else match env_get e (ac_l c) with
                  | None => CNA
                  | Some v => match text_of [] v with
                              | Some t => cmp_path flits e arg OpEq t
                              | None => CNA
                              end
                  end)
          dflt has_default cases e
      end
    | ACase _ _ => ([], e, SErr EUnknownCtl)
    | ACLoop var init lim initlit limlit cop step sep body els has_else =>
      let saved := e_brk e in
      let e := set_ebrk 0 e in
      match bound_of e initlit init, bound_of e limlit lim with
      | inr x, _ => ([], set_ebrk saved e, SErr x)
      | inl (Some _), inr x => ([], set_ebrk saved e, SErr x)
      | inl (Some v0), inl (Some limv) =>
        cloop_ref (fun e => seq_with ref_eval body e [] false) (fun e => top_with ref_eval els e [])
                  has_else saved sep var cop step limv budget e [] O v0
      | _, _ => ([], e, SNA)
      end
    | ARLoop key val src sep body els has_else =>
      let saved := e_brk e in
      let e := set_ebrk 0 e in
      match split_dot src with
      | [] => ([], set_ebrk saved e, SNone)
      | k :: rest =>
        match env_find k (ev e) with
        | None =>
          (* no such variable: no iterations, so the else branch *)
          rloop_ref (fun e => seq_with ref_eval body e [] false) (fun e => top_with ref_eval els e [])
                    has_else saved sep key val [] e [] O O
        | Some x =>
          match (if en_static x then Some [] else ins_loop (if is_nil (en_val x) then VNil else ins_get (en_val x) rest)) with
          | None => ([], e, SNA)
          | Some elems =>
            rloop_ref (fun e => seq_with ref_eval body e [] false) (fun e => top_with ref_eval els e [])
                      has_else saved sep key val elems e [] O O
          end
        end
      end
    | ABreak lazy n has_cond c =>
      let fire := (([] : bytes), set_ebrk (Z.max n (e_brk e)) e, if lazy then SLazy else SBrk) in
      if has_cond then
        match ref_cond flits e c with
        | CB true => fire
        | CB false => ([], e, SNone)
        | CErr x => ([], e, SErr x)
        | CNA => ([], e, SNA)
        end
      else fire
    | AContinue has_cond c =>
      if has_cond then
        match ref_cond flits e c with
        | CB true => ([], e, SCont)
        | CB false => ([], e, SNone)
        | CErr x => ([], e, SErr x)
        | CNA => ([], e, SNA)
        end
      else ([], e, SCont)
    | ACtx var src ok lit mods =>
      if lit then ([], env_set var (VBytes src) true e, SNone)
      else
        match env_get e src with
        | None => ([], e, SNA)
        | Some v =>
          match apply_mods e mods v with
          | ChNA => ([], e, SNA)
          | ChE x => ([], e, SErr (err_of_merr x))
          | ChV v2 =>
            let empty := is_void v2 in
            let e1 := match ok with [] => e | _ => env_set ok (VBool (negb empty)) true e end in
            if empty then ([], e1, SNone) else ([], env_set var v2 true e1, SNone)
          end
        end
    | ACounter var is_init cop arg =>
      if is_init then ([], env_set var (VInt arg) true e, SNone)
      else
        match env_get e var with
        | None => ([], e, SNA)
        | Some v =>
          let cur := match conv_int [] v with Some z => z | None => 0 end in
          ([], env_set var (VInt (match cop with OpInc => cur + arg | _ => cur - arg end)) true e, SNone)
        end
    | AInclude names =>
      match lookup names with
      | None => ([], e, SErr ETplNotFound)
      | Some t =>
        match inc t e with
        | None => ([], e, SNA)
        | Some (o, e1, s) =>
          match s with
          | SNone | SExit => (o, e1, SNone)
          | SErr x => ([], e1, SErr x)
          | _ => ([], e1, SNA)
          end
        end
      end
    | AExit => ([], e, SExit)
    | ARegion f body =>
      let '(o, e1, s) := seq_with ref_eval body (set_eflag f true e) [] false in
      match s with
      | SNone | SLazy => (o, set_eflag f false e1, s)
      | x => (o, e1, x)
      end
    end.

  Definition ref_items (l : list ast) (e : env) : res := top_with ref_eval l e [].
End Ref.

Fixpoint ref_inc (flits : list (bytes * Z)) (lookup : list bytes -> option (list ast)) (budget depth : nat)
         (t : list ast) (e : env) : option res :=
  match depth with
  | O => None
  | S d => Some (ref_items flits lookup budget (ref_inc flits lookup budget d) t e)
  end.

(* a whole render: exit ends the template successfully; a control instruction outside any loop
   is reported as the corresponding error *)
Definition ref_render (flits : list (bytes * Z)) (lookup : list bytes -> option (list ast)) (budget depth : nat)
           (t : list ast) (e : env) : bytes * env * option err * bool :=
  let '(o, e1, s) := ref_items flits lookup budget (ref_inc flits lookup budget depth) t e in
  match s with
  | SNone | SExit => (o, e1, None, true)
  | SBrk => (o, e1, Some EBreak, true)
  | SLazy => (o, e1, Some ELBreak, true)
  | SCont => (o, e1, Some ECont, true)
  | SErr x => (o, e1, Some x, true)
  | SNA => (o, e1, None, false)
  end.
