(* Specification side of C07: decoding of a JSON string literal after RFC 8259
   section 7 (with the treatment of lone surrogates of Go's encoding/json), and
   the alphabet statement for the body of a string literal.  Written
   independently of the encoder: nothing here mentions Model/EscJSON.v. *)
From DT Require Import Model.Bytes Model.Utf8 Model.Hex.
Local Open Scope byte_scope.

(* What the characters of a string body denote: a byte copied as it is (raw
   bytes and the two-character escapes), or one UTF-16 code unit (the
   six-character escapes: backslash, u, four hex digits of either case). *)
Inductive jitem : Type :=
| JRaw (b : byte)
| JUnit (u : N).

(* the two-character escapes: backslash followed by one of: quote, backslash, slash, b f n r t *)
Definition simple_escape (e : byte) : option byte :=
  if beqb e """" then Some """"
  else if beqb e "\" then Some "\"
  else if beqb e "/" then Some "/"
  else if beqb e "b" then Some x08
  else if beqb e "f" then Some x0c
  else if beqb e "n" then Some x0a
  else if beqb e "r" then Some x0d
  else if beqb e "t" then Some x09
  else None.

Definition hex4 (a b c d : byte) : option N := parse_hex_acc 0 [a; b; c; d].

(* Lexical layer.  The body ends at the first raw quote, which must be the last
   byte of the input; raw bytes below 0x20 are rejected; a backslash must start
   a valid escape.  All other bytes (in particular all bytes >= 0x80) are copied. *)
Fixpoint json_lex (s : bytes) : option (list jitem) :=
  match s with
  | [] => None (* closing quote missing *)
  | c :: rest =>
    if beqb c """" then match rest with [] => Some [] | _ :: _ => None end
    else if (b2n c <? 32)%N then None
    else if beqb c "\" then
      match rest with
      | e :: rest1 =>
        if beqb e "u" then
          match rest1 with
          | h1 :: h2 :: h3 :: h4 :: rest2 =>
            match hex4 h1 h2 h3 h4 with
            | Some u => option_map (cons (JUnit u)) (json_lex rest2)
            | None => None
            end
          | _ => None
          end
        else
          match simple_escape e with
          | Some b => option_map (cons (JRaw b)) (json_lex rest1)
          | None => None
          end
      | [] => None
      end
    else option_map (cons (JRaw c)) (json_lex rest)
  end.

(* UTF-16 layer.  A high surrogate immediately followed by a low surrogate is one
   scalar value; any other surrogate is U+FFFD; scalar values are written as UTF-8. *)
Local Open Scope N_scope.
Definition is_high_surrogate (u : N) : bool := btw 55296 56319 u. (* D800..DBFF *)
Definition is_low_surrogate (u : N) : bool := btw 56320 57343 u.  (* DC00..DFFF *)
Definition surrogate_pair (h l : N) : rune := 65536 + (h - 55296) * 1024 + (l - 56320).

Fixpoint json_render (items : list jitem) : bytes :=
  match items with
  | [] => []
  | JRaw b :: r => b :: json_render r
  | JUnit u :: r =>
    if is_high_surrogate u then
      match r with
      | JUnit l :: r' =>
        if is_low_surrogate l then utf8_encode (surrogate_pair u l) ++ json_render r'
        else utf8_encode rune_error ++ json_render r
      | _ => utf8_encode rune_error ++ json_render r
      end
    else if is_low_surrogate u then utf8_encode rune_error ++ json_render r
    else utf8_encode u ++ json_render r
  end.
Local Close Scope N_scope.

(* body followed by the closing quote -> the denoted bytes *)
Definition json_body (s : bytes) : option bytes := option_map json_render (json_lex s).

(* a complete literal: quote, body, quote *)
Definition json_unquote (s : bytes) : option bytes :=
  match s with
  | q :: rest => if beqb q """" then json_body rest else None
  | [] => None
  end.

(* peel n layers; one layer = put the quotes around and decode the literal *)
Fixpoint unquote_n (n : nat) (s : bytes) : option bytes :=
  match n with
  | O => Some s
  | S k =>
    match json_unquote ("""" :: s ++ [""""]) with
    | Some s' => unquote_n k s'
    | None => None
    end
  end.

(* Alphabet statement for a string body (without the closing quote): no raw
   quote, no raw byte below 0x20, and every backslash starts a valid escape.
   So no byte that is active in a JSON string survives unescaped. *)
Definition is_simple_escape (e : byte) : bool :=
  beqb e """" || beqb e "\" || beqb e "/" || beqb e "b" || beqb e "f" || beqb e "n" || beqb e "r" || beqb e "t".

Fixpoint json_body_safe (s : bytes) : bool :=
  match s with
  | [] => true
  | c :: rest =>
    if beqb c "\" then
      match rest with
      | e :: rest1 =>
        if beqb e "u" then
          match rest1 with
          | h1 :: h2 :: h3 :: h4 :: rest2 =>
            is_hex h1 && is_hex h2 && is_hex h3 && is_hex h4 && json_body_safe rest2
          | _ => false
          end
        else is_simple_escape e && json_body_safe rest1
      | [] => false
      end
    else negb (beqb c """") && negb (b2n c <? 32)%N && json_body_safe rest
  end.
