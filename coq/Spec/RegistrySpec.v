(* Specification side of C04: the registry as a list of registrations.  A registration is a
   group of names (ids and keys) that share one template.  No indexes, no slots, no checksums.

   RegisterTpl id key src:
     - the registration that owns the key (if a key is given and some registration has it),
       else the one that owns the id (if an id is given and some registration has it),
       gets the new source; the given names are added to it and taken away from every other
       registration;
     - otherwise a new registration with the given names is added.
   Lookups return the source of the registration owning the name.  Parse src is simply
   "a tree of that source": its observation is ObsSrc src, always.

   Only the types of operations and observations are shared with the model. *)
From DT Require Import Model.Bytes Model.Registry.
Local Open Scope byte_scope.

Record reg := { r_ids : list Z; r_keys : list bytes; r_src : bytes }.

Definition spec_empty : list reg := [].

Definition key_given (k : bytes) : bool := negb (bytes_eqb k no_key).
Definition id_given (i : Z) : bool := (0 <=? i)%Z.

Definition has_key (k : bytes) (g : reg) : bool := existsb (bytes_eqb k) (r_keys g).
Definition has_id (i : Z) (g : reg) : bool := existsb (Z.eqb i) (r_ids g).

(* position of the first element satisfying p *)
Fixpoint find_pos {A : Type} (p : A -> bool) (l : list A) : option nat :=
  match l with
  | [] => None
  | x :: r => if p x then Some O else option_map S (find_pos p r)
  end.

(* which registration a RegisterTpl call re-registers *)
Definition spec_target (id : Z) (key : bytes) (gs : list reg) : option nat :=
  match (if key_given key then find_pos (has_key key) gs else None) with
  | Some i => Some i
  | None => if id_given id then find_pos (has_id id) gs else None
  end.

(* take the names away *)
Definition strip (id : Z) (key : bytes) (g : reg) : reg :=
  {| r_ids := filter (fun j => negb (Z.eqb id j)) (r_ids g);
     r_keys := filter (fun k => negb (bytes_eqb key k)) (r_keys g);
     r_src := r_src g |}.

(* give the names (those that are given) and the new source *)
Definition claim (id : Z) (key : bytes) (src : bytes) (g : reg) : reg :=
  let g' := strip id key g in
  {| r_ids := if id_given id then id :: r_ids g' else r_ids g';
     r_keys := if key_given key then key :: r_keys g' else r_keys g';
     r_src := src |}.

Definition new_reg (id : Z) (key : bytes) (src : bytes) : reg :=
  {| r_ids := if id_given id then [id] else [];
     r_keys := if key_given key then [key] else [];
     r_src := src |}.

(* f on element i, s on all others *)
Fixpoint upd_at {A : Type} (f s : A -> A) (i : nat) (l : list A) {struct l} : list A :=
  match l with
  | [] => []
  | x :: r => match i with
              | O => f x :: map s r
              | S i' => s x :: upd_at f s i' r
              end
  end.

Definition spec_register (id : Z) (key : bytes) (src : bytes) (gs : list reg) : list reg :=
  match spec_target id key gs with
  | Some i => upd_at (claim id key src) (strip id key) i gs
  | None => gs ++ [new_reg id key src]
  end.

Definition reg_obs (o : option reg) : robs :=
  match o with
  | Some g => ObsSrc (r_src g)
  | None => ObsNotFound
  end.

Definition spec_by_key (gs : list reg) (k : bytes) : option reg := find (has_key k) gs.
Definition spec_by_id (gs : list reg) (i : Z) : option reg := find (has_id i) gs.
Definition spec_by_key1 (gs : list reg) (k fb : bytes) : option reg :=
  match find (has_key k) gs with
  | Some g => Some g
  | None => find (has_key fb) gs
  end.
Fixpoint spec_by_names (gs : list reg) (names : list bytes) : option reg :=
  match names with
  | [] => None
  | k :: r => match find (has_key k) gs with
              | Some g => Some g
              | None => spec_by_names gs r
              end
  end.

Definition spec_step (gs : list reg) (op : rop) : list reg * robs :=
  match op with
  | OParse src => (gs, ObsSrc src)
  | ORegister id key src => (spec_register id key src gs, ObsUnit)
  | ORenderKey key => (gs, reg_obs (spec_by_key gs key))
  | ORenderID id => (gs, reg_obs (spec_by_id gs id))
  | ORenderFallback key fb => (gs, reg_obs (spec_by_key1 gs key fb))
  | OInclude names => (gs, reg_obs (spec_by_names gs names))
  end.

Fixpoint spec_run (gs : list reg) (ops : list rop) : list robs :=
  match ops with
  | [] => []
  | op :: r => snd (spec_step gs op) :: spec_run (fst (spec_step gs op)) r
  end.

Fixpoint spec_state (gs : list reg) (ops : list rop) : list reg :=
  match ops with
  | [] => gs
  | op :: r => spec_state (fst (spec_step gs op)) r
  end.

(* the observations of the lookups only *)
Definition is_lookup (op : rop) : bool :=
  match op with
  | OParse _ | ORegister _ _ _ => false
  | _ => true
  end.

Fixpoint lookup_obs (ops : list rop) (obs : list robs) : list robs :=
  match ops, obs with
  | op :: r, o :: r' => if is_lookup op then o :: lookup_obs r r' else lookup_obs r r'
  | _, _ => []
  end.

(* sources mentioned by a history *)
Definition op_src (op : rop) : list bytes :=
  match op with
  | OParse src => [src]
  | ORegister _ _ src => [src]
  | _ => []
  end.
Definition ops_srcs (ops : list rop) : list bytes := flat_map op_src ops.

(* names a history registers (a name that is not given — id < 0, key "-1" — registers nothing) *)
Definition registers_key (k : bytes) (ops : list rop) : bool :=
  existsb (fun op => match op with
                     | ORegister _ k' _ => key_given k' && bytes_eqb k k'
                     | _ => false
                     end) ops.
Definition registers_id (i : Z) (ops : list rop) : bool :=
  existsb (fun op => match op with
                     | ORegister i' _ _ => id_given i' && Z.eqb i i'
                     | _ => false
                     end) ops.

(* the naive "two maps" reading: a name renders the source of the last registration call
   that mentioned that very name.  Used only to show that it is NOT what the registry does
   when a key and an id share a registration. *)
Fixpoint naive_last_key (k : bytes) (ops : list rop) (acc : robs) : robs :=
  match ops with
  | [] => acc
  | ORegister _ k' src :: r => naive_last_key k r (if key_given k' && bytes_eqb k k' then ObsSrc src else acc)
  | _ :: r => naive_last_key k r acc
  end.
