(* Specification side of C09: application/x-www-form-urlencoded decoding
   (net/url.QueryUnescape) and the output alphabets, written independently of
   the encoder. *)
From DT Require Import Model.Bytes.
Local Open Scope byte_scope.

Fixpoint query_unescape (s : bytes) : option bytes :=
  match s with
  | [] => Some []
  | c :: rest =>
    if beqb c "%" then
      match rest with
      | h :: l :: rest' =>
        match hex_val h, hex_val l with
        | Some a, Some b => option_map (cons (n2b (16 * a + b))) (query_unescape rest')
        | _, _ => None
        end
      | _ => None
      end
    else if beqb c "+" then option_map (cons " ") (query_unescape rest)
    else option_map (cons c) (query_unescape rest)
  end.

Definition is_up_hex (b : byte) : bool := is_digit b || in_range 65 70 b.

Definition url_safe_char (b : byte) : bool :=
  is_alnum b || beqb b "-" || beqb b "." || beqb b "_" || beqb b "+".

(* letters, digits, - . _ + and %XX triplets with upper-case hex *)
Fixpoint url_alphabet (s : bytes) : bool :=
  match s with
  | [] => true
  | c :: rest =>
    if beqb c "%" then
      match rest with
      | h :: l :: rest' => is_up_hex h && is_up_hex l && url_alphabet rest'
      | _ => false
      end
    else url_safe_char c && url_alphabet rest
  end.

(* no space, and no double quote that is not preceded by a backslash *)
Fixpoint link_safe (prev_bs : bool) (s : bytes) : bool :=
  match s with
  | [] => true
  | c :: rest =>
    negb (beqb c " ") && (negb (beqb c """") || prev_bs) && link_safe (beqb c "\") rest
  end.

(* Go's url.QueryEscape passes exactly the RFC 3986 unreserved set; dyntpl differs at '~' only. *)
Definition rfc3986_unreserved (b : byte) : bool :=
  is_alnum b || beqb b "-" || beqb b "." || beqb b "_" || beqb b "~".
