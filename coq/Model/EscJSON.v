(* mod_json.go: jsonEscape, modJSONEscape, modJSONQuote.
   The Go code is a per-byte loop that copies the pending raw span and then one
   replacement for every byte of a fixed set; byte for byte that is one token per
   input byte, i.e. a flat_map.  The model is of the code AFTER the planned repair
   that also escapes the remaining C0 control bytes (everything below 0x20 that has
   no dedicated replacement) as a six-byte unicode escape with lower-case hex. *)
From DT Require Import Model.Bytes Model.EscURL.
Local Open Scope byte_scope.

(* backslash, 'u', '0', '0', X, Y *)
Definition json_u00 (x y : byte) : bytes := ["\"; "u"; "0"; "0"; x; y].

(* the repair: generic escape of a control byte, two lower-case hex digits *)
Definition json_ctl_tok (b : byte) : bytes :=
  json_u00 (hex_lo_digit (N.shiftr (b2n b) 4)) (hex_lo_digit (N.land (b2n b) 15)).

Definition json_tok (b : byte) : bytes :=
  if beqb b """" then ["\"; """"]          (* jqQd -> jqQdR *)
  else if beqb b "\" then ["\"; "\"]       (* jqSl -> jqSlR *)
  else if beqb b x0a then ["\"; "n"]       (* jqNl -> jqNlR *)
  else if beqb b x0d then ["\"; "r"]       (* jqCr -> jqCrR *)
  else if beqb b x09 then ["\"; "t"]       (* jqT  -> jqTR  *)
  else if beqb b x0c then json_u00 "0" "c" (* jqFf -> jqFfR *)
  else if beqb b x08 then json_u00 "0" "8" (* jqBs -> jqBsR *)
  else if beqb b "<" then json_u00 "3" "c" (* jqLt -> jqLtR *)
  else if beqb b "'" then json_u00 "2" "7" (* jqQs -> jqQsR *)
  else if beqb b x00 then json_u00 "0" "0" (* jqZ  -> jqZR  *)
  else if (b2n b <? 32)%N then json_ctl_tok b  (* repair: remaining C0 controls *)
  else [b].

Definition json_escape (s : bytes) : bytes := flat_map json_tok s.

(* modJSONEscape: empty input -> nothing, otherwise [itr] passes *)
Definition mod_json_escape (itr : Z) (s : bytes) : bytes := esc_iter json_escape itr s.

(* modJSONQuote: quote byte + one escape pass + quote byte; the empty string gives two quote bytes *)
Definition json_quote (s : bytes) : bytes := """" :: json_escape s ++ [""""].
Definition mod_json_quote (s : bytes) : bytes := json_quote s.
