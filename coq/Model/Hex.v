(* Hexadecimal text of numbers below 16^6 (every rune), as strconv/AppendInt(base 16)
   writes it: lower case, no padding, "0" for zero. *)
From DT Require Import Model.Bytes.
Local Open Scope N_scope.

Definition hexd (n k : N) : byte := hex_lo_digit ((n / 16 ^ k) mod 16).

Definition hex_lo (n : N) : bytes :=
  if n <? 16 then [hexd n 0]
  else if n <? 256 then [hexd n 1; hexd n 0]
  else if n <? 4096 then [hexd n 2; hexd n 1; hexd n 0]
  else if n <? 65536 then [hexd n 3; hexd n 2; hexd n 1; hexd n 0]
  else if n <? 1048576 then [hexd n 4; hexd n 3; hexd n 2; hexd n 1; hexd n 0]
  else [hexd n 5; hexd n 4; hexd n 3; hexd n 2; hexd n 1; hexd n 0].

(* left-pad with '0' up to width w *)
Definition pad0 (w : nat) (s : bytes) : bytes := repeat "0"%byte (w - length s) ++ s.

(* value of a string of hex digits (either case); None if a non-digit occurs *)
Fixpoint parse_hex_acc (acc : N) (s : bytes) : option N :=
  match s with
  | [] => Some acc
  | c :: rest => match hex_val c with Some v => parse_hex_acc (acc * 16 + v) rest | None => None end
  end.
Definition parse_hex (s : bytes) : option N :=
  match s with [] => None | _ => parse_hex_acc 0 s end.

Definition is_hex (b : byte) : bool := match hex_val b with Some _ => true | None => false end.
Definition is_lo_hex (b : byte) : bool := is_digit b || in_range 97 102 b.
