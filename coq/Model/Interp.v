(* The tree-walking interpreter: dyntpl.go (write, writeNode, nodeCmp), ctx.go (setters, get,
   cmp, cmpLC, rloop, replaceQB, defer_), cloop.go, rloop.go, mod.go (printIterations),
   mod_builtin.go (default, ifThen, ifThenElse) and the escape modifiers, clause by clause.
   A Go `error` is a value of the outcome (the code keeps going after some errors and uses
   errors as control signals); the writer is a trace with an optional fault position. *)
From DT Require Import Model.Bytes Model.Value Model.Tree Model.Utf8
  Model.EscURL Model.EscJSON Model.EscHTML Model.EscJS Model.Mods.
Local Open Scope Z_scope.

Inductive err :=
| EUnknownCtl | ESenseless | ECondHlpNotFound | ETplNotFound | EInterrupt
| EModNoArgs | EModPoorArgs | EModNoStr
| EWrongLoopLim | EWrongLoopCond | EWrongLoopOp | EBreak | ELBreak | ECont
| EUnknownType | EWriter | EParseNum | EInspector | EUnknownPool | EUser.

Definition err_eqb (a b : err) : bool :=
  match a, b with
  | EUnknownCtl, EUnknownCtl | ESenseless, ESenseless | ECondHlpNotFound, ECondHlpNotFound
  | ETplNotFound, ETplNotFound | EInterrupt, EInterrupt | EModNoArgs, EModNoArgs
  | EModPoorArgs, EModPoorArgs | EModNoStr, EModNoStr | EWrongLoopLim, EWrongLoopLim
  | EWrongLoopCond, EWrongLoopCond | EWrongLoopOp, EWrongLoopOp | EBreak, EBreak
  | ELBreak, ELBreak | ECont, ECont | EUnknownType, EUnknownType | EWriter, EWriter
  | EParseNum, EParseNum | EInspector, EInspector | EUnknownPool, EUnknownPool | EUser, EUser => true
  | _, _ => false
  end.

(* ------------------------------------------------------------------ writer *)

(* io.Writer as a trace: every Write call is one event, so fault positions are indexable. *)
Record wr := mkWr {
  w_out : list bytes;      (* accepted chunks, most recent first *)
  w_n : nat;               (* Write calls made so far *)
  w_fail : option nat;     (* Some k: the k-th call (1-based) and all later ones fail *)
  w_short : nat;           (* bytes the failing k-th call still accepts (short write) *)
  w_failed : bool }.       (* some call has failed *)

Definition wr_new (fail : option nat) (short : nat) : wr := mkWr [] 0 fail short false.
Definition wr_bytes (w : wr) : bytes := concat (rev (w_out w)).

Definition wr_write (w : wr) (b : bytes) : wr * bool :=
  let n := S (w_n w) in
  match w_fail w with
  | Some k =>
    if Nat.ltb n k then (mkWr (b :: w_out w) n (w_fail w) (w_short w) (w_failed w), true)
    else if Nat.eqb n k then (mkWr (firstn (w_short w) b :: w_out w) n (w_fail w) (w_short w) true, false)
    else (mkWr (w_out w) n (w_fail w) (w_short w) true, false)
  | None => (mkWr (b :: w_out w) n None (w_short w) (w_failed w), true)
  end.

(* ------------------------------------------------------------------ context *)

Record slot := mkSlot {
  s_key : bytes; s_val : value; s_buf : bytes; s_cntrF : bool; s_cntr : Z;
  s_static : bool }.   (* inspector kind: the static inspector ignores paths *)

Inductive event :=
| EvDefer (tag : bytes)                 (* ctx.Defer called *)
| EvRun (tag : bytes) (writes : nat)    (* deferred function ran; writes made to the outermost writer so far *)
| EvAcquire (pool : bytes) (writes : nat)
| EvRelease (pool : bytes).

Record ctx := mkCtx {
  vars : list slot;
  chQB : bool; chJQ : bool; chHE : bool; chUE : bool;
  bufLC : list Z;
  brkD : Z;
  cerr : option err;       (* Ctx.Err *)
  bufB : bool;             (* Ctx.BufB: result buffer of Compare *)
  dfr : list bytes;        (* deferred functions (by tag), registration order *)
  ipv : list bytes;        (* objects acquired from pools (by pool name) *)
  wd : nat;                (* depth of nested write() calls *)
  elog : list event }.     (* most recent first *)

Definition ctx_new : ctx := mkCtx [] false false false false [] 0 None false [] [] 0 [].

Definition set_vars x (c : ctx) := mkCtx x (chQB c) (chJQ c) (chHE c) (chUE c) (bufLC c) (brkD c) (cerr c) (bufB c) (dfr c) (ipv c) (wd c) (elog c).
Definition set_chQB x (c : ctx) := mkCtx (vars c) x (chJQ c) (chHE c) (chUE c) (bufLC c) (brkD c) (cerr c) (bufB c) (dfr c) (ipv c) (wd c) (elog c).
Definition set_flag (f : flag) x (c : ctx) :=
  match f with
  | FJson => mkCtx (vars c) (chQB c) x (chHE c) (chUE c) (bufLC c) (brkD c) (cerr c) (bufB c) (dfr c) (ipv c) (wd c) (elog c)
  | FHtml => mkCtx (vars c) (chQB c) (chJQ c) x (chUE c) (bufLC c) (brkD c) (cerr c) (bufB c) (dfr c) (ipv c) (wd c) (elog c)
  | FUrl => mkCtx (vars c) (chQB c) (chJQ c) (chHE c) x (bufLC c) (brkD c) (cerr c) (bufB c) (dfr c) (ipv c) (wd c) (elog c)
  end.
Definition set_bufLC x (c : ctx) := mkCtx (vars c) (chQB c) (chJQ c) (chHE c) (chUE c) x (brkD c) (cerr c) (bufB c) (dfr c) (ipv c) (wd c) (elog c).
Definition set_brkD x (c : ctx) := mkCtx (vars c) (chQB c) (chJQ c) (chHE c) (chUE c) (bufLC c) x (cerr c) (bufB c) (dfr c) (ipv c) (wd c) (elog c).
Definition set_cerr x (c : ctx) := mkCtx (vars c) (chQB c) (chJQ c) (chHE c) (chUE c) (bufLC c) (brkD c) x (bufB c) (dfr c) (ipv c) (wd c) (elog c).
Definition set_bufB x (c : ctx) := mkCtx (vars c) (chQB c) (chJQ c) (chHE c) (chUE c) (bufLC c) (brkD c) (cerr c) x (dfr c) (ipv c) (wd c) (elog c).
Definition set_dfr x (c : ctx) := mkCtx (vars c) (chQB c) (chJQ c) (chHE c) (chUE c) (bufLC c) (brkD c) (cerr c) (bufB c) x (ipv c) (wd c) (elog c).
Definition set_ipv x (c : ctx) := mkCtx (vars c) (chQB c) (chJQ c) (chHE c) (chUE c) (bufLC c) (brkD c) (cerr c) (bufB c) (dfr c) x (wd c) (elog c).
Definition set_wd x (c : ctx) := mkCtx (vars c) (chQB c) (chJQ c) (chHE c) (chUE c) (bufLC c) (brkD c) (cerr c) (bufB c) (dfr c) (ipv c) x (elog c).
Definition log_ev e (c : ctx) := mkCtx (vars c) (chQB c) (chJQ c) (chHE c) (chUE c) (bufLC c) (brkD c) (cerr c) (bufB c) (dfr c) (ipv c) (wd c) (e :: elog c).

Definition is_nil (v : value) : bool := match v with VNil => true | _ => false end.
Definition nonempty (b : bytes) : bool := match b with [] => false | _ => true end.

(* ---- setters (ctx.go Set / SetStatic / SetBytes / SetCounter): update in place or append;
        each makes exactly one representation live ---- *)
Fixpoint upd_slot (k : bytes) (f : slot -> slot) (l : list slot) : option (list slot) :=
  match l with
  | [] => None
  | s :: r => if bytes_eqb (s_key s) k then Some (f s :: r)
              else match upd_slot k f r with Some r' => Some (s :: r') | None => None end
  end.

Definition put_slot (k : bytes) (f : slot -> slot) (fresh : slot) (c : ctx) : ctx :=
  match upd_slot k f (vars c) with
  | Some l => set_vars l c
  | None => set_vars (vars c ++ [fresh]) c
  end.

Definition ctx_set (k : bytes) (v : value) (static : bool) (c : ctx) : ctx :=
  put_slot k (fun s => mkSlot (s_key s) v [] false (s_cntr s) static) (mkSlot k v [] false 0 static) c.
Definition ctx_set_static k v c := ctx_set k v true c.
Definition ctx_set_bytes (k : bytes) (b : bytes) (c : ctx) : ctx :=
  put_slot k (fun s => mkSlot (s_key s) VNil b false (s_cntr s) true) (mkSlot k VNil b false 0 true) c.
Definition ctx_set_counter (k : bytes) (n : Z) (c : ctx) : ctx :=
  put_slot k (fun s => mkSlot (s_key s) VNil [] true n true) (mkSlot k VNil [] true n true) c.

Fixpoint find_var (k : bytes) (l : list slot) : option slot :=
  match l with
  | [] => None
  | s :: r => if bytes_eqb (s_key s) k then Some s else find_var k r
  end.

(* ---- path splitting (bytealg.AppendSplitString on ".") ---- *)
Fixpoint split_on (sep : byte) (s : bytes) (cur : bytes) : list bytes :=
  match s with
  | [] => [rev cur]
  | c :: r => if beqb c sep then rev cur :: split_on sep r [] else split_on sep r (c :: cur)
  end.
Definition split_dot (s : bytes) : list bytes := match s with [] => [] | _ => split_on "."%byte s [] end.

(* what a found variable hands out for the rest of the path: bytes > counter > inspector *)
Definition var_value (s : slot) (rest : list bytes) : value :=
  if is_nil (s_val s) && nonempty (s_buf s) then VBytes (s_buf s)
  else if is_nil (s_val s) && s_cntrF s then VInt (s_cntr s)
  else if s_static s then s_val s
  else ins_get (s_val s) rest.

Definition get_plain (c : ctx) (path : bytes) : ctx * value :=
  let c := set_cerr None c in
  match split_dot path with
  | [] => (c, VNil)
  | k :: rest => match find_var k (vars c) with
                 | Some s => (c, var_value s rest)
                 | None => (c, VNil)
                 end
  end.

Fixpoint index_of (b : byte) (s : bytes) (i : nat) : option nat :=
  match s with [] => None | c :: r => if beqb c b then Some i else index_of b r (S i) end.

(* replaceQB: user.History[i] -> user.History.<text of i> *)
Definition replace_qb (c : ctx) (path : bytes) : ctx * bytes :=
  match index_of "["%byte path 0, index_of "]"%byte path 0 with
  | Some l, Some r =>
    if Nat.ltb l r then
      let inner := firstn (r - S l) (skipn (S l) path) in
      let (c1, v) := get_plain c inner in
      match v with
      | VNil => (c1, firstn l path ++ ["."%byte] ++ skipn (S r) path)
      | _ => match text_of (bufLC c1) v with
             | Some t => (c1, firstn l path ++ ["."%byte] ++ t ++ skipn (S r) path)
             | None => (set_cerr (Some EUnknownType) c1, [])
             end
      end
    else (c, path)
  | _, _ => (c, path)
  end.

(* Ctx.get *)
Definition ctx_get (c : ctx) (path : bytes) : ctx * value :=
  if chQB c then
    let c0 := set_cerr None c in
    let (c1, p) := replace_qb c0 path in
    match cerr c1, p with
    | Some e, [] => (c1, VNil)
    | _, _ => let e := cerr c1 in
              let (c2, v) := get_plain c1 p in
              (* get_plain cleared Err; replaceQB's inner error (none in this model) would persist *)
              (set_cerr e c2, v)
    end
  else get_plain c path.

Definition cmp_of_op (o : op) : cmp_op :=
  match o with OpEq => CEq | OpNq => CNq | OpGt => CGt | OpGtq => CGtq | OpLt => CLt | OpLtq => CLtq | _ => CBad end.

(* float bits of a literal, supplied with the case (strconv.ParseFloat is not modelled) *)
Definition flit_of (flits : list (bytes * Z)) (lit : bytes) : option Z :=
  (fix go l := match l with [] => None | (k, z) :: r => if bytes_eqb k lit then Some z else go r end) flits.

(* Ctx.cmp: BufB cleared, then Inspector.Compare on the live representation *)
Definition ctx_cmp (flits : list (bytes * Z)) (c : ctx) (path : bytes) (o : op) (lit : bytes) : ctx * bool :=
  match split_dot path with
  | [] => (c, false)
  | k :: rest =>
    match find_var k (vars c) with
    | None => (c, false)
    | Some s =>
      let v := var_value s rest in
      match leaf_cmp (s_static s) (bufLC c) v (cmp_of_op o) lit (flit_of flits lit) with
      | Some b => (set_bufB b (set_cerr None c), b)
      | None =>
        (* result left untouched (false); generated inspectors report an unparseable number *)
        let bad := negb (s_static s) && match v with VInt _ | VUint _ | VFloat _ _ => true | _ => false end in
        (set_bufB false (set_cerr (if bad then Some EParseNum else None) c), false)
      end
    end
  end.

(* Ctx.cmpLC: len()/cap() of the addressed value compared as an int *)
Definition lc_value (s : slot) (rest : list bytes) : value :=
  if is_nil (s_val s) && nonempty (s_buf s) then VBytes (s_buf s)
  else if s_static s then s_val s else ins_get (s_val s) rest.

Definition ctx_cmp_lc (c : ctx) (mode : lcmode) (path : bytes) (o : op) (lit : bytes) : ctx * bool :=
  let c := set_cerr None c in
  let (c, path) := if chQB c then replace_qb c path else (c, path) in
  match split_dot path with
  | [] => (c, false)
  | k :: rest =>
    match find_var k (vars c) with
    | None => (c, false)
    | Some s =>
      match mode with
      | LcNone => (c, false)
      | _ =>
        (* the static inspector answers 0 for anything that has no length *)
        match (match leaf_len (lc_value s rest) with Some n => Some n | None => if s_static s then Some 0 else None end) with
        | Some n =>
          match option_map (cmp_Z (cmp_of_op o) n) (parse_Z lit) with
          | Some b => (set_bufB b c, b)
          | None => (set_bufB false c, false)
          end
        | None => (set_bufB false (set_cerr (Some EInspector) c), false)
        end
      end
    end
  end.

(* ------------------------------------------------------------------ modifiers *)

(* collection of a modifier's (or helper's) arguments; every non-static one is a ctx.get *)
Fixpoint collect_args (c : ctx) (args : list targ) : ctx * list argval :=
  match args with
  | [] => (c, [])
  | a :: r =>
    let '(c1, v) :=
      if a_static a then (c, VBytes (a_val a))
      else ctx_get c (a_val a) in
    let (c2, vs) := collect_args c1 r in
    (c2, (match a_name a with [] => AVal v | k => AKV k v end) :: vs)
  end.

Inductive modres :=
| MOk (c : ctx) (v : value)
| MErr (c : ctx) (e : err)
| MUnsupported.            (* a modifier this model does not describe: the case is set aside, not judged *)

Definition err_of_merr (e : merr) : err :=
  match e with MENoArgs => EModNoArgs | MEPoorArgs => EModPoorArgs | MENoStr => EModNoStr | MEUser => EUser end.

Definition apply_mod (writes : nat) (c : ctx) (m : tmod) (v : value) (args : list argval) : modres :=
  let id := m_id m in
  match pure_mod (bufLC c) id v args with
  | POk v' => MOk c v'
  | PErr e => MErr c (err_of_merr e)
  | PImpure =>
    if name_is id n_vdefer then
      match args with
      | a :: _ => let t := text_or_empty (bufLC c) (arg_value a) in
                  MOk (log_ev (EvDefer t) (set_dfr (dfr c ++ [t]) c)) v
      | [] => MErr c EModNoArgs
      end
    else if name_is id n_vacquire then
      match args with
      | a :: _ => let p := text_or_empty (bufLC c) (arg_value a) in
                  MOk (log_ev (EvAcquire p writes) (set_ipv (ipv c ++ [p]) c)) v
      | [] => MErr c EModNoArgs
      end
    else if name_is id n_vfail then MErr c EUser
    else MUnsupported
  end.

(* the modifier loop of typeTpl / typeCtx: left to right, each fed the previous result *)
Inductive chainres := ChOk (c : ctx) (v : value) | ChUnsupported.

Fixpoint run_mods (writes : nat) (c : ctx) (mods : list tmod) (v : value) : chainres :=
  match mods with
  | [] => ChOk c v
  | m :: r =>
    let (c1, args) := collect_args c (m_args m) in
    if existsb a_global (m_args m) then ChUnsupported else
    match apply_mod writes c1 m v args with
    | MOk c2 v2 => run_mods writes (set_cerr None c2) r v2
    | MErr c2 e => ChOk (set_cerr (Some e) c2) v
    | MUnsupported => ChUnsupported
    end
  end.

(* ------------------------------------------------------------------ outcome *)

Inductive outcome :=
| Out (c : ctx) (w : wr) (e : option err)
| Unsupported            (* construct outside the model: the case is set aside *)
| OutOfFuel.             (* loop budget or include depth exhausted *)

(* writeRaw: static text (and printed values) according to the bound tag in effect *)
Definition region_text (c : ctx) (p : bytes) : bytes :=
  if chJQ c then json_escape p
  else if chHE c then html_escape p
  else if chUE c then url_encode p
  else p.

Definition write_raw (c : ctx) (w : wr) (p : bytes) : wr * option err :=
  let (w1, ok) := wr_write w (region_text c p) in
  (w1, if ok then None else Some EWriter).

Definition cond_lit_op (o : op) := o.

(* nodeCmp *)
Definition node_cmp (flits : list (bytes * Z)) (c : ctx) (l r : bytes) (sl sr : bool) (o : op) : ctx * bool * option err :=
  if sl && sr then (c, false, Some ESenseless)
  else if sr then let (c1, b) := ctx_cmp flits c l o r in (c1, b, None)
  else if sl then let (c1, b) := ctx_cmp flits c r (op_swap o) l in (c1, b, None)
  else
    let (c1, v) := ctx_get c r in
    match cerr c1 with
    | Some _ => (c1, false, None)
    | None =>
      match text_of (bufLC c1) v with
      | None => (c1, false, Some EUnknownType)
      | Some t => let (c2, b) := ctx_cmp flits c1 l o t in (c2, b, None)
      end
    end.

Definition n_lenEq0 : bytes := ["l";"e";"n";"E";"q";"0"]%byte.
Definition n_lenGt0 : bytes := ["l";"e";"n";"G";"t";"0"]%byte.
Definition n_lenGtq0 : bytes := ["l";"e";"n";"G";"t";"q";"0"]%byte.

Definition get_len (v : value) : Z :=
  match v with VBytes s | VStr s => Z.of_nat (length s) | _ => 0 end.

(* built-in condition helpers; None = not registered *)
Definition cond_helper (name : bytes) (args : list argval) : option bool :=
  let a0 := match args with a :: _ => Some (arg_value a) | [] => None end in
  if bytes_eqb name n_lenEq0 then Some (match a0 with Some v => get_len v =? 0 | None => false end)
  else if bytes_eqb name n_lenGt0 then Some (match a0 with Some v => 0 <? get_len v | None => false end)
  else if bytes_eqb name n_lenGtq0 then Some (match a0 with Some v => 0 <=? get_len v | None => false end)
  else None.

Definition n_static : bytes := ["s";"t";"a";"t";"i";"c"]%byte.

(* the if-ok helper of the harness: vok(x) hands out a copy of x's text (nil when there is none)
   and reports whether that text is non-empty *)
Definition n_vok : bytes := ["v";"o";"k"]%byte.
Definition vok_result (bufLC : list Z) (args : list argval) : value * bool :=
  match args with
  | a :: _ => match text_of bufLC (arg_value a) with
              | Some ((_ :: _) as t) => (VBytes t, true)
              | _ => (VNil, false)
              end
  | [] => (VNil, false)
  end.

Definition cond_known (name : bytes) : bool :=
  bytes_eqb name n_lenEq0 || bytes_eqb name n_lenGt0 || bytes_eqb name n_lenGtq0.

(* cloopRange *)
Definition cloop_range (c : ctx) (static : bool) (b : bytes) : ctx * Z :=
  if static then
    match parse_Z b with
    | Some z => (set_cerr None c, z)
    | None => (set_cerr (Some EParseNum) c, 0)
    end
  else
    let (c1, v) := ctx_get c b in
    match cerr c1 with
    | Some _ => (c1, 0)
    | None => match if2int (bufLC c1) v with
              | Some z => (c1, z)
              | None => (set_cerr (Some EWrongLoopLim) c1, 0)
              end
    end.

Definition cloop_allows (o : op) (v lim : Z) : option bool :=
  match o with
  | OpLt => Some (v <? lim) | OpLtq => Some (v <=? lim) | OpGt => Some (lim <? v) | OpGtq => Some (lim <=? v)
  | OpEq => Some (v =? lim) | OpNq => Some (negb (v =? lim))
  | _ => None
  end.

Fixpoint set_nth {A} (n : nat) (x : A) (l : list A) : list A :=
  match l, n with
  | [], _ => []
  | _ :: r, O => x :: r
  | y :: r, S k => y :: set_nth k x r
  end.

Definition is_sig (e : option err) (s : err) : bool := match e with Some x => err_eqb x s | None => false end.

(* the body of a loop node: child[0].child when child[0] is a true-block, else all children *)
Definition loop_body (child : list node) : list node :=
  match child with NBlock BTrue _ b :: _ => b | _ => child end.
Definition loop_else (child : list node) : option (list node) :=
  match child with _ :: NBlock BFalse _ b :: _ => Some b | _ => None end.

(* what a loop does with its body for one iteration *)
Inductive iterres :=
| ItNext (c : ctx) (w : wr)          (* go on with the next iteration *)
| ItStop (c : ctx) (w : wr)          (* this loop ends (break, or lazybreak after the iteration) *)
| ItAbort (c : ctx) (w : wr) (e : err)
| ItUnsupported | ItFuel.

(* (the default is never used: [loop_has_else] guards it; it is [child] rather than [] so that
   the result is visibly a sub-term of the loop node for the guard checker) *)
Definition loop_else_nodes (child : list node) : list node :=
  match child with _ :: NBlock BFalse _ b :: _ => b | _ => child end.
Definition loop_has_else (child : list node) : bool :=
  match child with _ :: NBlock BFalse _ _ :: _ => true | _ => false end.

(* list walkers, parameterised by the node evaluator (so that writeNode stays structurally
   recursive on the tree) *)
Section Walkers.
  Variable f : node -> ctx -> wr -> outcome.

  (* typeCondTrue/False/Case/Default: walk over children; a lazy break lets the block finish *)
  Fixpoint walk_with (l : list node) (c : ctx) (w : wr) (lazy : bool) : outcome :=
    match l with
    | [] => Out c w (if lazy then Some ELBreak else None)
    | ch :: r =>
      match f ch c w with
      | Out c1 w1 None => walk_with r c1 w1 lazy
      | Out c1 w1 (Some ELBreak) => walk_with r c1 w1 true
      | Out c1 w1 (Some ECont) => Out c1 w1 (Some (if lazy then EBreak else ECont))
      | o => o
      end
    end.

  (* one iteration of a loop body *)
  Fixpoint body_with (l : list node) (c : ctx) (w : wr) (lazy : bool) : iterres :=
    match l with
    | [] => if lazy then ItStop c w else ItNext c w
    | ch :: r =>
      match f ch c w with
      | Out c1 w1 None => body_with r c1 w1 lazy
      | Out c1 w1 (Some ELBreak) => body_with r c1 w1 true
      | Out c1 w1 (Some EBreak) => ItStop c1 w1
      | Out c1 w1 (Some ECont) => if lazy then ItStop c1 w1 else ItNext c1 w1
      | Out c1 w1 (Some e) => ItAbort c1 w1 e
      | Unsupported => ItUnsupported
      | OutOfFuel => ItFuel
      end
    end.

  (* for-else branch: children until the first error, which lands in Ctx.Err *)
  Fixpoint else_with (l : list node) (c : ctx) (w : wr) : outcome :=
    match l with
    | [] => Out c w None
    | ch :: r =>
      match f ch c w with
      | Out c1 w1 None => else_with r (set_cerr None c1) w1
      | Out c1 w1 (Some e) => Out (set_cerr (Some e) c1) w1 None
      | o => o
      end
    end.

  (* switch: the default block *)
  Fixpoint default_with (l : list node) (c : ctx) (w : wr) : outcome :=
    match l with
    | [] => Out c w None
    | (NBlock BDefault _ _ as ch) :: _ => f ch c w
    | _ :: r => default_with r c w
    end.

  (* switch: first case for which [hit] holds; [hit] returns (ctx, matched?, error to return) *)
  Variable hit : caseinfo -> ctx -> ctx * bool * option err.
  Variable check_err : bool.       (* the condition-less form also tests Ctx.Err after each case *)
  Variable all : list node.
  Fixpoint cases_with (l : list node) (c : ctx) (w : wr) : outcome :=
    match l with
    | [] => default_with all c w
    | (NBlock BCase ki _ as ch) :: r =>
      let '(c1, h, e) := hit ki c in
      match e with
      | Some x => Out c1 w (Some x)
      | None =>
        match (if check_err then cerr c1 else None) with
        | Some x => Out c1 w (Some x)
        | None => if h then f ch c1 w else cases_with r c1 w
        end
      end
    | _ :: r => cases_with r c w
    end.
End Walkers.

(* Ctx.cloop after the bounds are known *)
Section CLoop.
  Variable bodyf : ctx -> wr -> iterres.
  Variable elsef : ctx -> wr -> outcome.
  Variable has_else : bool.
  Variables (cnt sep : bytes) (condOp cntOp : op) (limv : Z) (idx : nat) (saved : Z).

  Definition cloop_finish (c : ctx) (w : wr) (trips : nat) : outcome :=
    let c := if 0 <? brkD c then set_brkD (brkD c - 1) c else c in
    let c := match trips with O => c | _ => ctx_set_static cnt (VCell idx) c end in
    match trips, has_else with
    | O, true =>
      match elsef c w with
      | Out c' w' _ => Out (set_brkD (Z.max (brkD c') saved) c') w' (cerr c')
      | o => o
      end
    | _, _ => Out (set_brkD (Z.max (brkD c) saved) c) w (cerr c)
    end.

  Definition cloop_step (c : ctx) (cur : Z) : option (ctx * Z) :=
    match cntOp with
    | OpInc => Some (set_bufLC (set_nth idx (cur + 1) (bufLC c)) c, cur + 1)
    | OpDec => Some (set_bufLC (set_nth idx (cur - 1) (bufLC c)) c, cur - 1)
    | _ => None
    end.

  Fixpoint cloop_iter (fuel : nat) (c : ctx) (w : wr) (trips : nat) (cur : Z) : outcome :=
    match cloop_allows condOp cur limv with
    | None => cloop_finish (set_cerr (Some EWrongLoopCond) c) w trips
    | Some allow =>
      if allow && (brkD c =? 0) then
        match fuel with
        | O => OutOfFuel
        | S fuel' =>
          let c := ctx_set_static cnt (VCell idx) c in
          let '(w, sepe) := match trips, sep with
                            | O, _ | _, [] => (w, None)
                            | _, _ => let (w', ok) := wr_write w (region_text c sep) in (w', if ok then None else Some EWriter)
                            end in
          match sepe with
          | Some e => Out (set_cerr (Some e) c) w (Some e)
          | None =>
            let prevQB := chQB c in
            match bodyf (set_chQB true c) w with
            | ItNext c' w' =>
              let c' := set_cerr None c' in
              match cloop_step (set_chQB prevQB c') cur with
              | Some (c'', nxt) => cloop_iter fuel' c'' w' (S trips) nxt
              | None => OutOfFuel    (* unknown step operator: the Go loop never advances *)
              end
            | ItStop c' w' =>
              let c' := set_cerr None c' in
              match cloop_step (set_chQB prevQB c') cur with
              | Some (c'', _) => cloop_finish c'' w' (S trips)
              | None => cloop_finish (set_cerr (Some EWrongLoopOp) (set_chQB prevQB c')) w' (S trips)
              end
            | ItAbort c' w' e => Out (set_cerr (Some e) (set_chQB prevQB c')) w' (Some e)
            | ItUnsupported => Unsupported
            | ItFuel => OutOfFuel
            end
          end
        end
      else cloop_finish c w trips
    end.
End CLoop.

(* Ctx.rloop + RangeLoop.Iterate over the elements the inspector delivers *)
Section RLoop.
  Variable bodyf : ctx -> wr -> iterres.
  Variable elsef : ctx -> wr -> outcome.
  Variable has_else : bool.
  Variables (key val sep : bytes) (saved : Z).

  Definition rloop_finish (c : ctx) (w : wr) (calls : nat) : outcome :=
    let c := if 0 <? brkD c then set_brkD (brkD c - 1) c else c in
    match calls, has_else with
    | O, true =>
      match elsef (set_cerr None c) w with
      | Out c' w' _ => Out (set_brkD (Z.max (brkD c') saved) c') w' (cerr c')
      | o => o
      end
    | _, _ => Out (set_brkD (Z.max (brkD c) saved) (set_cerr None c)) w None
    end.

  Definition elem_static (ev : value) : bool :=
    match ev with VStruct _ | VSlice _ | VMap _ => false | _ => true end.

  Fixpoint rloop_each (els : list (bytes * value)) (c : ctx) (w : wr) (calls trips : nat) : outcome :=
    match els with
    | [] => rloop_finish c w calls
    | (kb, ev) :: r =>
      (* SetKey (a private copy of the key bytes), SetVal, Iterate *)
      let c := match key with
               | [] => c
               | _ => match kb with [] => ctx_set key (VBytes []) true c | _ => ctx_set_bytes key kb c end
               end in
      let c := ctx_set val ev (elem_static ev) c in
      if 0 <? brkD c then rloop_finish c w (S calls)
      else
        let '(w, sepe) := match trips, sep with
                          | O, _ | _, [] => (w, None)
                          | _, _ => let (w', ok) := wr_write w (region_text c sep) in (w', if ok then None else Some EWriter)
                          end in
        match sepe with
        | Some e => Out (set_cerr (Some e) c) w (Some e)
        | None =>
          match bodyf c w with
          | ItNext c' w' => rloop_each r c' w' (S calls) (S trips)
          | ItStop c' w' => rloop_finish c' w' (S calls)
          | ItAbort c' w' e => Out (set_cerr (Some e) c') w' (Some e)
          | ItUnsupported => Unsupported
          | ItFuel => OutOfFuel
          end
        end
    end.
End RLoop.

Definition write_value (c : ctx) (w : wr) (t pfx sfx : bytes) (noesc : bool) : outcome :=
  let '(w1, e1) := match pfx with [] => (w, None) | _ => write_raw c w pfx end in
  match e1 with
  | Some e => Out c w1 (Some e)
  | None =>
    let '(w2, e2) := if noesc then let (w', ok) := wr_write w1 t in (w', if ok then None else Some EWriter)
                     else write_raw c w1 t in
    match e2 with
    | Some e => Out c w2 (Some e)
    | None => match sfx with [] => Out c w2 None | _ => let (w3, e3) := write_raw c w2 sfx in Out c w3 e3 end
    end
  end.

Section Interp.
  Variable flits : list (bytes * Z).
  Variable lookup : list bytes -> option tree.          (* tplDB.getBKeys on the include's name list *)
  Variable budget : nat.                                (* largest admitted trip count of one counter loop *)
  (* rendering of an included template into a scratch buffer; result: ctx, output, error *)
  Variable inc : tree -> ctx -> option (ctx * bytes * option err).

  (* the test of a case in a classic switch (switch arg == case value) *)
  Definition hit_classic (arg : bytes) (ki : caseinfo) (c : ctx) : ctx * bool * option err :=
    if kSL ki then let (c1, b) := ctx_cmp flits c arg OpEq (kL ki) in (c1, b, None)
    else
      let (c1, v) := ctx_get c (kL ki) in
      match cerr c1 with
      | Some _ => (c1, false, None)
      | None => match text_of (bufLC c1) v with
                | None => (c1, false, Some EUnknownType)
                | Some t => let (c2, b) := ctx_cmp flits c1 arg OpEq t in (c2, b, None)
                end
      end.

  (* the test of a case in a condition-less switch *)
  Definition hit_free (ki : caseinfo) (c : ctx) : ctx * bool * option err :=
    match kHlp ki with
    | _ :: _ =>
      if cond_known (kHlp ki) then
        let (c1, args) := collect_args c (kHlpArg ki) in
        (c1, match cond_helper (kHlp ki) args with Some b => b | None => false end, None)
      else (c, false, Some ECondHlpNotFound)
    | [] => node_cmp flits c (kL ki) (kR ki) (kSL ki) (kSR ki) (kOp ki)
    end.

  Fixpoint write_node (n : node) (c : ctx) (w : wr) {struct n} : outcome :=
    (* every node starts with a clean slate: Ctx.Err of an earlier node is forgotten *)
    let c := set_cerr None c in
    match n with
    | NRaw raw =>
      let (w1, e) := write_raw c w raw in Out c w1 e

    | NTpl raw pfx sfx noesc mods =>
      let (c1, v) := ctx_get c raw in
      match cerr c1 with
      | Some e => Out c1 w (Some e)
      | None =>
        match run_mods (w_n w) c1 mods v with
        | ChUnsupported => Unsupported
        | ChOk c2 v2 =>
          match cerr c2 with
          | Some _ => Out (set_cerr None c2) w None  (* modifier failed: nothing printed, the error is dropped *)
          | None =>
            match v2 with
            | VNil => Out c2 w None
            | _ =>
              match text_of (bufLC c2) v2 with
              | None => Out c2 w (Some EUnknownType)
              | Some [] => Out c2 w None
              | Some t => write_value c2 w t pfx sfx noesc
              end
            end
          end
        end
      end

    | NCond ci child =>
      let take := fun (c1 : ctx) (r : bool) (e : option err) =>
        match cerr c1 with
        | Some x => Out c1 w (Some x)
        | None =>
          (* the error of nodeCmp survives only when no branch is evaluated *)
          if r then match child with ch :: _ => write_node ch c1 w | [] => Out c1 w e end
          else match child with _ :: ch :: _ => write_node ch c1 w | _ => Out c1 w e end
        end in
      match cHlp ci, cLC ci with
      | _ :: _, LcNone =>
        if cond_known (cHlp ci) then
          let (c1, args) := collect_args c (cHlpArg ci) in
          take c1 (match cond_helper (cHlp ci) args with Some b => b | None => false end) None
        else Out c w (Some ECondHlpNotFound)
      | _ :: _, mode =>
        match cHlpArg ci with
        | [] => Out c w (Some EModNoArgs)
        | a :: _ => let (c1, b) := ctx_cmp_lc c mode (a_val a) (cOp ci) (cR ci) in take c1 b None
        end
      | [], _ =>
        let '(c1, b, e) := node_cmp flits c (cL ci) (cR ci) (cSL ci) (cSR ci) (cOp ci) in take c1 b e
      end

    | NCondOK k ci child =>
      match cHlp ci with
      | [] => Out c w None
      | _ :: _ =>
        if bytes_eqb (cHlp ci) n_vok then
          if bytes_eqb (oIns k) n_static then
            let (c1, args) := collect_args c (cHlpArg ci) in
            let (v, okb) := vok_result (bufLC c1) args in
            let c2 := set_bufB okb (ctx_set_static (oR k) (VBool okb) (ctx_set (oL k) v true c1)) in
            (* the extended condition (!ok) is an ordinary comparison; its error survives only
               when no branch is evaluated *)
            let '(c3, r, e) := match cR ci with
                               | [] => (c2, okb, None)
                               | _ :: _ => node_cmp flits c2 (cL ci) (cR ci) (cSL ci) (cSR ci) (cOp ci)
                               end in
            if r then match child with ch :: _ => write_node ch c3 w | [] => Out c3 w e end
            else match child with _ :: ch :: _ => write_node ch c3 w | _ => Out c3 w e end
          else Unsupported
        else Out c w (Some ECondHlpNotFound)
      end

    | NBlock _ _ child => walk_with write_node child c w false

    | NLoopCount cnt init lim sep initS limS condOp cntOp child =>
      let saved := brkD c in
      let c := set_brkD 0 c in
      let (c1, v0) := cloop_range c initS init in
      match cerr c1 with
      | Some e => Out (set_brkD (Z.max (brkD c1) saved) c1) w (Some e)
      | None =>
        let (c2, limv) := cloop_range c1 limS lim in
        match cerr c2 with
        | Some e => Out (set_brkD (Z.max (brkD c2) saved) c2) w (Some e)
        | None =>
          let idx := length (bufLC c2) in
          let c3 := set_bufLC (bufLC c2 ++ [v0]) c2 in
          cloop_iter (fun c w => body_with write_node (loop_body child) c w false)
                     (else_with write_node (loop_else_nodes child)) (loop_has_else child)
                     cnt sep condOp cntOp limv idx saved budget c3 w O v0
        end
      end

    | NLoopRange key val src sep child =>
      let saved := brkD c in
      let c := set_brkD 0 c in
      match split_dot src with
      | [] => Out (set_brkD saved c) w (cerr c)
      | k :: rest =>
        match find_var k (vars c) with
        | None =>
          (* no such variable: nothing to iterate over, so the else branch *)
          if loop_has_else child then
            match else_with write_node (loop_else_nodes child) c w with
            | Out c' w' _ => Out (set_brkD (Z.max (brkD c') saved) c') w' (cerr c')
            | o => o
            end
          else Out (set_brkD saved c) w (cerr c)
        | Some s =>
          let coll := if is_nil (s_val s) then VNil else if s_static s then s_val s else ins_get (s_val s) rest in
          match (if s_static s then Some [] else ins_loop coll) with
          | None => Unsupported
          | Some els =>
            rloop_each (fun c w => body_with write_node (loop_body child) c w false)
                       (else_with write_node (loop_else_nodes child)) (loop_has_else child)
                       key val sep saved els c w O O
          end
        end
      end

    (* a depth already pending (from a lazybreak earlier in the iteration) stays in force *)
    | NBreak d => Out (set_brkD (Z.max d (brkD c)) c) w (Some EBreak)
    | NLBreak d => Out (set_brkD (Z.max d (brkD c)) c) w (Some ELBreak)
    | NContinue => Out c w (Some ECont)

    | NCtx var src ok ins srcStatic mods =>
      if srcStatic then Out (ctx_set_bytes var src c) w None
      else
        let (c1, v) := ctx_get c src in
        match cerr c1 with
        | Some e => Out c1 w (Some e)
        | None =>
          match run_mods (w_n w) c1 mods v with
          | ChUnsupported => Unsupported
          | ChOk c2 v2 =>
            match cerr c2 with
            | Some e => Out c2 w (Some e)
            | None =>
              let empty := is_void v2 in
              let c3 := match ok with [] => c2 | _ => ctx_set_static ok (VBool (negb empty)) c2 end in
              if empty then Out c3 w None
              else
                match conv_bytes v2 with
                | Some ((_ :: _) as b) => Out (ctx_set_bytes var b c3) w None
                | _ =>
                  (* a counter-loop cell is dyntpl's own storage: the new variable keeps a copy *)
                  match v2 with
                  | VCell i => Out (ctx_set_counter var (nth i (bufLC c3) 0) c3) w None
                  | _ => Out (ctx_set var v2 (bytes_eqb ins n_static || elem_static v2) c3) w None
                  end
                end
            end
          end
        end

    | NCounter var initF init cop arg =>
      if initF then Out (ctx_set_counter var init c) w None
      else
        let (c1, v) := ctx_get c var in
        match cerr c1 with
        | Some e => Out c1 w (Some e)
        | None =>
          let cur := match conv_int (bufLC c1) v with Some z => z | None => 0 end in
          Out (ctx_set_counter var (match cop with OpInc => cur + arg | _ => cur - arg end) c1) w None
        end

    | NSwitch arg child =>
      (* first matching case wins, default as fallback *)
      match arg with
      | _ :: _ => cases_with write_node (hit_classic arg) false child child c w
      | [] => cases_with write_node hit_free true child child c w
      end

    | NFlag f on => Out (set_flag f on c) w None

    | NInclude tpls =>
      match lookup tpls with
      | None => Out c w (Some ETplNotFound)
      | Some t =>
        match inc t c with
        | None => OutOfFuel
        | Some (c1, out, Some e) => Out c1 w (Some e)
        | Some (c1, out, None) =>
          let (w1, ok) := wr_write w out in Out c1 w1 (if ok then None else Some EWriter)
        end
      end

    | NExit => Out c w (Some EInterrupt)
    | NOther _ => Out c w (Some EUnknownCtl)
    end.

  (* write(): the nodes of one template, then the deferred functions (outermost template only) *)
  Fixpoint run_nodes (l : list node) (c : ctx) (w : wr) : outcome :=
    match l with
    | [] => Out c w None
    | n :: r => match write_node n c w with
                | Out c1 w1 None => run_nodes r c1 w1
                | o => o
                end
    end.

  Definition run_deferred (c : ctx) (writes : nat) : ctx :=
    set_dfr [] (fold_left (fun c t => log_ev (EvRun t writes) c) (dfr c) c).

  Definition write_tpl (t : tree) (c : ctx) (w : wr) : outcome :=
    let c := set_wd (S (wd c)) c in
    match run_nodes t c w with
    | Out c1 w1 e =>
      let c1 := set_wd (Nat.pred (wd c1)) c1 in
      let e := match e with Some EInterrupt => None | _ => e end in
      match e, wd c1 with
      | None, O => Out (run_deferred c1 (w_n w1)) w1 None
      | _, _ => Out c1 w1 e
      end
    | o => o
    end.
End Interp.

(* include: the sub-template renders into a scratch buffer that cannot fail *)
Fixpoint render_inc (flits : list (bytes * Z)) (lookup : list bytes -> option tree) (budget depth : nat)
         (t : tree) (c : ctx) : option (ctx * bytes * option err) :=
  match depth with
  | O => None
  | S d =>
    match write_tpl flits lookup budget (render_inc flits lookup budget d) t c (wr_new None 0) with
    | Out c1 w1 e => Some (c1, wr_bytes w1, e)
    | _ => None
    end
  end.

(* Write(w, key, ctx) on the outermost level *)
Definition render (flits : list (bytes * Z)) (lookup : list bytes -> option tree) (budget depth : nat)
           (t : tree) (c : ctx) (w : wr) : outcome :=
  write_tpl flits lookup budget (render_inc flits lookup budget depth) t c w.

(* Ctx.Reset: logical state back to that of a new context; pooled objects go back *)
Definition ctx_reset (c : ctx) : ctx :=
  mkCtx [] false false false false [] 0 None false [] [] 0
        (fold_left (fun l p => EvRelease p :: l) (ipv c) (elog c)).
