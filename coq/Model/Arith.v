(* mod_math.go / mod_builtin.go: the arithmetic modifiers, on Flocq's executable binary64
   (round to nearest even, one quiet NaN — compare NaN-ness only).

   Every modifier first converts its operands with floatConv: integers of every width through
   float64(x) (correctly rounded), float64 unchanged, numeric strings through strconv.ParseFloat
   (strconv is not modelled: the harness supplies the bits it returns).  The operation itself is
   the Go float64 operator or the math function named below. *)
From Coq Require Import ZArith Bool.
From Flocq Require Import Core.Core IEEE754.BinarySingleNaN.
From DT Require Import Model.Round.
Local Open Scope Z_scope.

Definition fadd : f64 -> f64 -> f64 := @BinarySingleNaN.Bplus 53 1024 Hprec53 Hemax1024 mode_NE.
Definition fsub : f64 -> f64 -> f64 := @BinarySingleNaN.Bminus 53 1024 Hprec53 Hemax1024 mode_NE.
Definition fsqrt : f64 -> f64 := @BinarySingleNaN.Bsqrt 53 1024 Hprec53 Hemax1024 mode_NE.
Definition fone : f64 := of_Z 1.

(* modAbs: if f < 0 { f = -f } — keeps -0 and NaN as they are *)
Definition flt0 (x : f64) : bool :=
  match BinarySingleNaN.Bcompare x (of_Z 0) with Some Lt => true | _ => false end.
Definition go_abs (x : f64) : f64 := if flt0 x then BinarySingleNaN.Bopp x else x.

Definition is_nan_b (x : f64) : bool := match x with B754_nan => true | _ => false end.
Definition is_neg_zero (x : f64) : bool := match x with B754_zero true => true | _ => false end.
Definition is_pos_inf (x : f64) : bool := match x with B754_infinity false => true | _ => false end.
Definition is_neg_inf (x : f64) : bool := match x with B754_infinity true => true | _ => false end.
Definition is_zero_b (x : f64) : bool := match x with B754_zero _ => true | _ => false end.

(* math.Max / math.Min special cases: an infinity of the right sign wins over NaN, then NaN,
   then the signed zeros, then the ordinary comparison *)
Definition go_max (x y : f64) : f64 :=
  if is_pos_inf x || is_pos_inf y then B754_infinity false
  else if is_nan_b x || is_nan_b y then B754_nan
  else if is_zero_b x && is_zero_b y then (if is_neg_zero x then y else x)
  else match BinarySingleNaN.Bcompare x y with Some Gt => x | _ => y end.

Definition go_min (x y : f64) : f64 :=
  if is_neg_inf x || is_neg_inf y then B754_infinity true
  else if is_nan_b x || is_nan_b y then B754_nan
  else if is_zero_b x && is_zero_b y then (if is_neg_zero x then x else y)
  else match BinarySingleNaN.Bcompare x y with Some Lt => x | _ => y end.

Inductive aop := AAdd | ASub | AMul | ADiv | AAbs | AInc | ADec | ASqrt | AMax | AMin.

(* value op argument; unary operations ignore the argument *)
Definition math_op (o : aop) (x y : f64) : f64 :=
  match o with
  | AAdd => fadd x y
  | ASub => fsub x y
  | AMul => fmul x y
  | ADiv => fdiv x y
  | AAbs => go_abs x
  | AInc => fadd x fone
  | ADec => fsub x fone
  | ASqrt => fsqrt x
  | AMax => go_max x y
  | AMin => go_min x y
  end.

Definition aop_of_N (n : N) : option aop :=
  match n with
  | 1 => Some AAdd | 2 => Some ASub | 3 => Some AMul | 4 => Some ADiv | 5 => Some AAbs
  | 6 => Some AInc | 7 => Some ADec | 8 => Some ASqrt | 9 => Some AMax | 10 => Some AMin
  | _ => None
  end%N.

(* on IEEE bit patterns, as the correspondence check calls it; NaN results are the one quiet NaN *)
Definition arith_bits (o : N) (a b : Z) : option Z :=
  match aop_of_N o with
  | Some op => Some (to_bits (math_op op (of_bits a) (of_bits b)))
  | None => None
  end.

(* float64(x) of an integer operand *)
Definition conv_int (z : Z) : f64 := of_Z z.
