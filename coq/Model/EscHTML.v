(* mod_html.go: modHTMLEscape (after the repair that resets the span offset at the start of
   every pass, so that n passes = n-fold application) and mod_attr.go: modAttrEscape.
   The HTML escaper is a per-byte loop; the attribute escaper ranges over runes. *)
From DT Require Import Model.Bytes Model.Utf8 Model.Hex Model.EscURL.
Local Open Scope byte_scope.

(* the replacement texts *)
Definition ref_lt   : bytes := ["&"; "l"; "t"; ";"].
Definition ref_gt   : bytes := ["&"; "g"; "t"; ";"].
Definition ref_quot : bytes := ["&"; "q"; "u"; "o"; "t"; ";"].
Definition ref_apos : bytes := ["&"; "#"; "3"; "9"; ";"].
Definition ref_amp  : bytes := ["&"; "a"; "m"; "p"; ";"].

(* ---- HTML escape: bytes ---- *)
Definition html_tok (b : byte) : bytes :=
  if beqb b "<" then ref_lt
  else if beqb b ">" then ref_gt
  else if beqb b """" then ref_quot
  else if beqb b "'" then ref_apos
  else if beqb b "&" then ref_amp
  else [b].

Definition html_escape (s : bytes) : bytes := flat_map html_tok s.

Definition mod_html_escape (itr : Z) (s : bytes) : bytes := esc_iter html_escape itr s.

(* ---- attribute escape: runes ---- *)
Local Open Scope N_scope.

(* , . - _ letters digits: written through unchanged *)
Definition attr_plain (r : N) : bool :=
  (r =? 44) || (r =? 46) || (r =? 45) || (r =? 95)
  || btw 97 122 r || btw 65 90 r || btw 48 57 r.

(* control characters that are replaced by U+FFFD *)
Definition attr_ctrl (r : N) : bool :=
  ((r <? 31) && negb (r =? 9) && negb (r =? 10) && negb (r =? 13)) || btw 127 159 r.

Definition ref_fffd : bytes := ["&"; "#"; "x"; "F"; "F"; "F"; "D"; ";"]%byte.

Definition attr_hex (w : nat) (r : N) : bytes :=
  ["&"; "#"; "x"]%byte ++ pad0 w (hex_lo r) ++ [";"%byte].

Definition attr_tok (r : N) : bytes :=
  if r =? 38 then ref_amp
  else if r =? 60 then ref_lt
  else if r =? 62 then ref_gt
  else if r =? 34 then ref_quot
  else if attr_plain r then [n2b r]
  else if attr_ctrl r then ref_fffd
  else if rune_len r =? 1 then attr_hex 2 r
  else attr_hex 4 r.

Definition attr_escape (rs : list N) : bytes := flat_map attr_tok rs.

Definition attr_escape_bytes (s : bytes) : bytes := attr_escape (utf8_decode s).

(* no special case for the empty string: it maps to the empty string *)
Definition mod_attr_escape (itr : Z) (s : bytes) : bytes :=
  repeat_app attr_escape_bytes (Z.to_nat itr) s.
