(* UTF-8 as Go sees it: [utf8_decode] mirrors the rune sequence that `for _, r := range s`
   delivers (invalid or truncated sequences yield U+FFFD and consume one byte);
   [utf8_encode] is RFC 3629 encoding of a scalar value. *)
From DT Require Import Model.Bytes.
Local Open Scope N_scope.

Definition rune := N.
Definition rune_error : rune := 65533. (* U+FFFD *)

Definition is_scalar (r : rune) : bool :=
  (r <? 55296) || ((57344 <=? r) && (r <? 1114112)).

Definition utf8_encode (r : rune) : bytes :=
  if r <? 128 then [n2b r]
  else if r <? 2048 then [n2b (192 + r / 64); n2b (128 + r mod 64)]
  else if r <? 65536 then [n2b (224 + r / 4096); n2b (128 + (r / 64) mod 64); n2b (128 + r mod 64)]
  else [n2b (240 + r / 262144); n2b (128 + (r / 4096) mod 64); n2b (128 + (r / 64) mod 64); n2b (128 + r mod 64)].

Definition utf8_encode_all (rs : list rune) : bytes := flat_map utf8_encode rs.

Definition rune_len (r : rune) : N :=
  if r <? 128 then 1 else if r <? 2048 then 2 else if r <? 65536 then 3 else 4.

Definition btw (lo hi x : N) : bool := (lo <=? x) && (x <=? hi).

Fixpoint utf8_decode (s : bytes) : list rune :=
  match s with
  | [] => []
  | b0 :: t0 =>
    let n0 := b2n b0 in
    if n0 <? 128 then n0 :: utf8_decode t0
    else if btw 194 223 n0 then
      match t0 with
      | b1 :: t1 =>
        let n1 := b2n b1 in
        if btw 128 191 n1 then ((n0 - 192) * 64 + (n1 - 128)) :: utf8_decode t1
        else rune_error :: utf8_decode t0
      | [] => [rune_error]
      end
    else if btw 224 239 n0 then
      match t0 with
      | b1 :: b2 :: t2 =>
        let n1 := b2n b1 in let n2 := b2n b2 in
        let lo := if n0 =? 224 then 160 else 128 in
        let hi := if n0 =? 237 then 159 else 191 in
        if btw lo hi n1 && btw 128 191 n2
        then ((n0 - 224) * 4096 + (n1 - 128) * 64 + (n2 - 128)) :: utf8_decode t2
        else rune_error :: utf8_decode t0
      | _ => rune_error :: utf8_decode t0
      end
    else if btw 240 244 n0 then
      match t0 with
      | b1 :: b2 :: b3 :: t3 =>
        let n1 := b2n b1 in let n2 := b2n b2 in let n3 := b2n b3 in
        let lo := if n0 =? 240 then 144 else 128 in
        let hi := if n0 =? 244 then 143 else 191 in
        if btw lo hi n1 && btw 128 191 n2 && btw 128 191 n3
        then ((n0 - 240) * 262144 + (n1 - 128) * 4096 + (n2 - 128) * 64 + (n3 - 128)) :: utf8_decode t3
        else rune_error :: utf8_decode t0
      | _ => rune_error :: utf8_decode t0
      end
    else rune_error :: utf8_decode t0
  end.

Definition valid_utf8 (s : bytes) : bool := bytes_eqb (utf8_encode_all (utf8_decode s)) s.
