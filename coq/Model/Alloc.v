(* C19: the slot/buffer-reuse logic of the context's grow-only stores (vars, w, kv, ipv, bufLC,
   bufS, bufA, byte buffers).  A store has a logical length and a capacity; a demand for n
   elements grows the capacity (one allocation event) exactly when n exceeds it; Reset sets the
   length to 0 and keeps the capacity.  Go's append growth policy, escape analysis and boxing
   are the compiler's and runtime's business and are measured, not modelled. *)
From Coq Require Import List Arith Lia.
Import ListNotations.

Record store := mkStore { s_len : nat; s_cap : nat; s_grows : nat }.

Definition demand (n : nat) (s : store) : store :=
  if Nat.leb n (s_cap s) then mkStore (Nat.max (s_len s) n) (s_cap s) (s_grows s)
  else mkStore n n (S (s_grows s)).          (* at least n; any larger policy only helps *)

Definition run (d : list nat) (s : store) : store := fold_left (fun s n => demand n s) d s.
Definition reset (s : store) : store := mkStore 0 (s_cap s) (s_grows s).

(* several stores side by side: a render is a list of (store index, demand) *)
Fixpoint upd {A} (i : nat) (f : A -> A) (l : list A) : list A :=
  match l, i with
  | [], _ => []
  | x :: r, O => f x :: r
  | x :: r, S k => x :: upd k f r
  end.
Definition run_all (d : list (nat * nat)) (ss : list store) : list store :=
  fold_left (fun ss p => upd (fst p) (demand (snd p)) ss) d ss.
Definition total_grows (ss : list store) : nat := fold_left (fun a s => a + s_grows s) ss 0.
