(* C06: interleavings of renderers and writers over the template registry.
   Atomic steps (this is what the locking discipline of db.go provides, re-checked from the
   source on every run: Gen/SrcFacts.v):
     Lookup t n  - renderer t looks its template up under the read lock and keeps the pointer;
     Work t      - renderer t evaluates one node: it reads and writes only its own context and
                   reads the tree it holds (trees are immutable after Parse: re-checked from the source);
     Finish t    - renderer t returns: its output is a function of the tree it holds and its own data;
     Set n v     - a writer publishes version v of template n under the write lock (pointer swap). *)
From Coq Require Import List Arith Bool.
Import ListNotations.

Definition tid := nat.
Definition name := nat.
Definition version := nat.

Inductive step :=
| Lookup (t : tid) (n : name)
| Work (t : tid)
| Finish (t : tid)
| Set_ (n : name) (v : version).

Record gstate := mkG {
  reg : list (name * version);                 (* latest binding first *)
  held : list (tid * option version);          (* what each renderer got from its lookup *)
  done : list (tid * option version) }.        (* finished renders with the version they rendered *)

Definition g0 : gstate := mkG [] [] [].

Fixpoint assoc_nat {A} (k : nat) (l : list (nat * A)) : option A :=
  match l with [] => None | (k', v) :: r => if Nat.eqb k' k then Some v else assoc_nat k r end.

Definition exec1 (g : gstate) (s : step) : gstate :=
  match s with
  | Lookup t n => mkG (reg g) ((t, assoc_nat n (reg g)) :: held g) (done g)
  | Work _ => g
  | Finish t => match assoc_nat t (held g) with
                | Some v => mkG (reg g) (held g) ((t, v) :: done g)
                | None => g
                end
  | Set_ n v => mkG ((n, v) :: reg g) (held g) (done g)
  end.

Definition exec (sched : list step) (g : gstate) : gstate := fold_left exec1 sched g.

(* the version a lookup of n sees after a schedule prefix: the last Set of n in it *)
Fixpoint last_set (n : name) (sched : list step) (acc : option version) : option version :=
  match sched with
  | [] => acc
  | Set_ n' v :: r => last_set n r (if Nat.eqb n' n then Some v else acc)
  | _ :: r => last_set n r acc
  end.
