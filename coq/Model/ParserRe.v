(* The regular expressions the parser model reads, as a record: Model/Parser.v is written over an
   arbitrary table; the table of the code as it is now is regenerated from /repo's source on every
   run (harness/regexgen.go -> RegexTable.v), Gen/RegexTable.v is that file for the pinned tree. *)
From DT Require Import Model.Bytes Model.Regex.

Record retab := {
  t_reCutComments : re;
  t_reCutFmt : re;
  t_reTplPS : re;
  t_reTplP : re;
  t_reTplS : re;
  t_reTpl : re;
  t_reTplCB : re;
  t_reTplTernary : re;
  t_reTplTernaryHelper : re;
  t_reTplTernaryCondExpr : re;
  t_reModPfxF : re;
  t_reModNoVar : re;
  t_reMod : re;
  t_reCtxAs : re;
  t_reCtxDot : re;
  t_reCtx : re;
  t_reCtxS0 : re;
  t_reCtxS1 : re;
  t_reCntr : re;
  t_reCntrInit : re;
  t_reCntrOp0 : re;
  t_reCntrOp1 : re;
  t_reCond : re;
  t_reCondExpr : re;
  t_reCondHelper : re;
  t_reCondComplex : re;
  t_reCondOK : re;
  t_reCondAsOK : re;
  t_reCondDotOK : re;
  t_reCondExprOK : re;
  t_reLoop : re;
  t_reLoopRange : re;
  t_reLoopCount : re;
  t_reLoopBrkN : re;
  t_reLoopLBrkN : re;
  t_reLoopBrkIf : re;
  t_reLoopBrkNIf : re;
  t_reLoopLBrkIf : re;
  t_reLoopLBrkNIf : re;
  t_reLoopContIf : re;
  t_reSwitch : re;
  t_reSwitchCase : re;
  t_reSwitchCaseHelper : re;
  t_reInc : re;
  t_isStaticRE : re }.

Definition retab_list (T : retab) : list re :=
  [t_reCutComments T; t_reCutFmt T; t_reTplPS T; t_reTplP T; t_reTplS T; t_reTpl T; t_reTplCB T; t_reTplTernary T; t_reTplTernaryHelper T; t_reTplTernaryCondExpr T; t_reModPfxF T; t_reModNoVar T; t_reMod T; t_reCtxAs T; t_reCtxDot T; t_reCtx T; t_reCtxS0 T; t_reCtxS1 T; t_reCntr T; t_reCntrInit T; t_reCntrOp0 T; t_reCntrOp1 T; t_reCond T; t_reCondExpr T; t_reCondHelper T; t_reCondComplex T; t_reCondOK T; t_reCondAsOK T; t_reCondDotOK T; t_reCondExprOK T; t_reLoop T; t_reLoopRange T; t_reLoopCount T; t_reLoopBrkN T; t_reLoopLBrkN T; t_reLoopBrkIf T; t_reLoopBrkNIf T; t_reLoopLBrkIf T; t_reLoopLBrkNIf T; t_reLoopContIf T; t_reSwitch T; t_reSwitchCase T; t_reSwitchCaseHelper T; t_reInc T; t_isStaticRE T].

(* every repeated sub-expression consumes at least one byte (side condition of Model/Regex.v) *)
Definition retab_ok (T : retab) : bool := forallb re_ok (retab_list T).
