(* Modifiers whose result depends on the value and the arguments only (mod_builtin.go default /
   ifThen / ifThenElse, the escape modifiers, and the harness's vup / vcat).  Shared by the
   interpreter model and by the reference semantics: like the inspector contract they are the
   "library" below dyntpl's control flow; the escapers have their own theorems (C07-C10). *)
From DT Require Import Model.Bytes Model.Value Model.Utf8
  Model.EscURL Model.EscJSON Model.EscHTML Model.EscJS.
Local Open Scope Z_scope.

Inductive merr := MENoArgs | MEPoorArgs | MENoStr | MEUser.

Inductive argval := AVal (v : value) | AKV (k : bytes) (v : value).

Definition arg_value (a : argval) : value := match a with AVal v => v | AKV _ v => v end.

(* printIterations: repeat count from the first argument when it is literal text *)
Definition print_iterations (args : list argval) : Z :=
  match args with
  | AVal (VBytes s) :: _ => match parse_Z s with Some n => n | None => 1 end
  | _ => 1
  end.

Definition ascii_upper (s : bytes) : bytes :=
  map (fun b => if is_lower b then n2b (b2n b - 32) else b) s.

Definition name_is (id : bytes) (names : list bytes) : bool := existsb (bytes_eqb id) names.

Local Open Scope byte_scope.
Definition n_default := [["d";"e";"f";"a";"u";"l";"t"]; ["d";"e";"f"]].
Definition n_ifthen := [["i";"f";"T";"h";"e";"n"]; ["i";"f"]].
Definition n_ifthenelse := [["i";"f";"T";"h";"e";"n";"E";"l";"s";"e"]; ["i";"f";"e";"l"]].
Definition n_jsonescape := [["j";"s";"o";"n";"E";"s";"c";"a";"p";"e"]; ["j";"e"]].
Definition n_jsonquote := [["j";"s";"o";"n";"Q";"u";"o";"t";"e"]; ["j";"q"]].
Definition n_htmlescape := [["h";"t";"m";"l";"E";"s";"c";"a";"p";"e"]; ["h";"e"]].
Definition n_linkescape := [["l";"i";"n";"k";"E";"s";"c";"a";"p";"e"]; ["l";"e"]].
Definition n_urlencode := [["u";"r";"l";"E";"n";"c";"o";"d";"e"]; ["u";"e"]].
Definition n_attrescape := [["a";"t";"t";"r";"E";"s";"c";"a";"p";"e"]; ["a";"e"]].
Definition n_cssescape := [["c";"s";"s";"E";"s";"c";"a";"p";"e"]; ["c";"e"]].
Definition n_jsescape := [["j";"s";"E";"s";"c";"a";"p";"e"]; ["j";"s";"e"]].
(* modifiers registered by the harness, with reference semantics fixed here *)
Definition n_vup := [["v";"u";"p"]].
Definition n_vcat := [["v";"c";"a";"t"]].
Definition n_vdefer := [["v";"d";"e";"f";"e";"r"]].
Definition n_vacquire := [["v";"a";"c";"q";"u";"i";"r";"e"]].
Definition n_vfail := [["v";"f";"a";"i";"l"]].
Local Close Scope byte_scope.

Inductive pmres :=
| POk (v : value)
| PErr (e : merr)
| PImpure.          (* not one of the pure modifiers *)

(* byte-level escapers: unconvertible -> ErrModNoStr; empty text -> value untouched *)
Definition esc_bytes (f : bytes -> bytes) (bl : list Z) (v : value) (args : list argval) : pmres :=
  match text_of bl v with
  | None => PErr MENoStr
  | Some [] => POk v
  | Some b => POk (VBytes (repeat_app f (Z.to_nat (print_iterations args)) b))
  end.

(* rune-level escapers: always publish the (possibly empty) result *)
Definition esc_runes (f : bytes -> bytes) (bl : list Z) (v : value) (args : list argval) : pmres :=
  match text_of bl v with
  | None => PErr MENoStr
  | Some b => POk (VBytes (repeat_app f (Z.to_nat (print_iterations args)) b))
  end.

(* one pass of modJSONQuote *)
Definition quote_pass (bl : list Z) (v : value) : value :=
  match text_of bl v with
  | None => VBytes []
  | Some b => VBytes (json_quote b)
  end.

Definition text_or_empty (bl : list Z) (v : value) : bytes :=
  match text_of bl v with Some b => b | None => [] end.

Definition pure_mod (bl : list Z) (id : bytes) (v : value) (args : list argval) : pmres :=
  if name_is id n_default then
    match args with
    | [] => PErr MENoArgs
    | a :: _ => POk (if empty_check bl v then arg_value a else v)
    end
  else if name_is id n_ifthen then
    match args with
    | [] => PErr MENoArgs
    | a :: _ => POk (match conv_bool v with Some true => arg_value a | _ => v end)
    end
  else if name_is id n_ifthenelse then
    match args with
    | a :: b :: _ => POk (match conv_bool v with Some true => arg_value a | Some false => arg_value b | None => v end)
    | _ => PErr MEPoorArgs
    end
  else if name_is id n_jsonescape then esc_bytes json_escape bl v args
  else if name_is id n_jsonquote then
    POk (repeat_app (quote_pass bl) (Z.to_nat (print_iterations args)) v)
  else if name_is id n_htmlescape then esc_bytes html_escape bl v args
  else if name_is id n_linkescape then esc_bytes link_escape bl v args
  else if name_is id n_urlencode then esc_bytes url_encode bl v args
  else if name_is id n_attrescape then esc_runes attr_escape_bytes bl v args
  else if name_is id n_cssescape then esc_runes css_escape_bytes bl v args
  else if name_is id n_jsescape then esc_runes js_escape_bytes bl v args
  else if name_is id n_vup then
    match text_of bl v with Some b => POk (VBytes (ascii_upper b)) | None => PErr MEUser end
  else if name_is id n_vcat then
    POk (VBytes (text_or_empty bl v ++
                 flat_map (fun a => match a with
                                    | AVal x => text_or_empty bl x
                                    | AKV k x => k ++ ["="%byte] ++ text_or_empty bl x
                                    end) args))
  else PImpure.
