(* mod_js1.go: modJSEscape (as repaired: the control characters BS FF LF CR TAB are
   written as the two-character escapes backslash + b f n r t), and
   mod_css.go: modCSSEscape.  Both loop over the runes of the input
   (`for _, r := range b`) and append one token per rune; the model is that loop
   as flat_map over the rune list delivered by [utf8_decode]. *)
From DT Require Import Model.Bytes Model.Utf8 Model.Hex.
Local Open Scope N_scope.

(* the backslash byte, 0x5c *)
Definition BSL : byte := x5c.

Definition is_alnum_r (r : rune) : bool := btw 97 122 r || btw 65 90 r || btw 48 57 r.

(* ---------- JS ---------- *)

(* , . _ letters digits are copied *)
Definition js_plain (r : rune) : bool := (r =? 44) || (r =? 46) || (r =? 95) || is_alnum_r r.

(* four lower-case hex digits, zero padded on the left *)
Definition hex4 (n : N) : bytes := pad0 4 (hex_lo n).

(* backslash, 'u', four hex digits *)
Definition js_u (n : N) : bytes := BSL :: "u"%byte :: hex4 n.

Definition js_tok (r : rune) : bytes :=
  if r =? 92 then [BSL; BSL]
  else if r =? 47 then [BSL; "/"%byte]
  else if r =? 8 then [BSL; "b"%byte]
  else if r =? 12 then [BSL; "f"%byte]
  else if r =? 10 then [BSL; "n"%byte]
  else if r =? 13 then [BSL; "r"%byte]
  else if r =? 9 then [BSL; "t"%byte]
  else if js_plain r then [n2b r]
  else if r <? 65536 then js_u r
  else let u := r - 65536 in js_u (55296 + u / 1024) ++ js_u (56320 + u mod 1024).

Definition js_escape (rs : list rune) : bytes := flat_map js_tok rs.
Definition js_escape_bytes (s : bytes) : bytes := js_escape (utf8_decode s).

(* the modifier as rendered: [itr] passes, each over the previous result
   (an empty input stays empty under any number of passes) *)
Definition mod_js_escape (itr : Z) (s : bytes) : bytes :=
  repeat_app js_escape_bytes (Z.to_nat itr) s.

(* ---------- CSS ---------- *)

Definition css_tok (r : rune) : bytes :=
  if r =? 13 then [BSL; "D"%byte; " "%byte]
  else if r =? 10 then [BSL; "A"%byte; " "%byte]
  else if r =? 9 then [BSL; "9"%byte; " "%byte]
  else if r =? 0 then [BSL; "0"%byte; " "%byte]
  else if r =? 32 then [BSL; "2"%byte; "0"%byte; " "%byte]
  else if is_alnum_r r then [n2b r]
  else BSL :: hex_lo r ++ [" "%byte].

Definition css_escape (rs : list rune) : bytes := flat_map css_tok rs.
Definition css_escape_bytes (s : bytes) : bytes := css_escape (utf8_decode s).

Definition mod_css_escape (itr : Z) (s : bytes) : bytes :=
  repeat_app css_escape_bytes (Z.to_nat itr) s.
