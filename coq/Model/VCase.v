(* V-mode: the shape of a correspondence case as the harness writes it into cases.v, and
   its evaluation.  One case = one parsed tree (dumped from the real parser), the registry it
   may include from, the variables set on the context, and the runs observed on the real
   engine (each with its fault position); the verdict compares the model run with them. *)
From Coq Require Import String Ascii.
From DT Require Import Model.Bytes Model.Value Model.Tree Model.Interp.

(* hex byte-string literals:  "616263"%hb *)
Inductive hexbytes := HB (b : bytes).
Fixpoint hb_parse (s : list byte) : option bytes :=
  match s with
  | [] => Some []
  | h :: l :: r =>
    match hex_val h, hex_val l, hb_parse r with
    | Some a, Some b, Some t => Some (n2b (16 * a + b) :: t)
    | _, _, _ => None
    end
  | _ => None
  end.
Definition hb_of (s : list byte) : option hexbytes := option_map HB (hb_parse s).
Definition hb_to (h : hexbytes) : list byte :=
  match h with HB b => flat_map (fun x => [hex_lo_digit (N.shiftr (b2n x) 4); hex_lo_digit (N.land (b2n x) 15)]) b end.
Declare Scope hb_scope.
Delimit Scope hb_scope with hb.
String Notation hexbytes hb_of hb_to : hb_scope.
Definition unhb (h : hexbytes) : bytes := match h with HB b => b end.
Notation "# s" := (unhb s%hb) (at level 1, format "# s").

Definition hex_string (b : bytes) : string :=
  string_of_list_byte (flat_map (fun x => [hex_lo_digit (N.shiftr (b2n x) 4); hex_lo_digit (N.land (b2n x) 15)]) b).

(* error classes shared with the harness (0 = nil) *)
Definition err_code (e : option err) : N :=
  match e with
  | None => 0
  | Some EUnknownCtl => 1 | Some ESenseless => 2 | Some ECondHlpNotFound => 3 | Some ETplNotFound => 4
  | Some EInterrupt => 5 | Some EModNoArgs => 6 | Some EModPoorArgs => 7 | Some EModNoStr => 8
  | Some EWrongLoopLim => 9 | Some EWrongLoopCond => 10 | Some EWrongLoopOp => 11
  | Some EBreak => 12 | Some ELBreak => 13 | Some ECont => 14 | Some EUnknownType => 15
  | Some EWriter => 16 | Some EParseNum => 17 | Some EInspector => 18 | Some EUnknownPool => 19 | Some EUser => 20
  end%N.

Record vrun := mkRun {
  r_fail : option nat;      (* fault position (1-based Write call), None = no fault *)
  r_short : nat;            (* bytes accepted by the failing call *)
  r_out : bytes;            (* bytes the real writer accepted *)
  r_err : N;                (* error class the real call returned *)
  r_writes : nat }.         (* number of Write calls the real engine made *)

Record vcase := mkVCase {
  vc_tree : tree;
  vc_reg : list (bytes * tree);
  vc_vars : list slot;
  vc_flits : list (bytes * Z);
  vc_budget : nat;
  vc_runs : list vrun }.

Inductive verdict :=
| VOk
| VSkip                                         (* construct outside the model *)
| VFuel                                         (* budget/depth exhausted in the model *)
| VBad (out : string) (e : N) (writes : nat).   (* what the model says instead *)

Definition reg_lookup (reg : list (bytes * tree)) (names : list bytes) : option tree :=
  (fix go ns := match ns with
                | [] => None
                | n :: r =>
                  match (fix find l := match l with [] => None | (k, t) :: l' => if bytes_eqb k n then Some t else find l' end) reg with
                  | Some t => Some t
                  | None => go r
                  end
                end) names.

Definition ctx_with (vs : list slot) : ctx := set_vars vs ctx_new.

Definition model_run (vc : vcase) (r : vrun) : outcome :=
  render (vc_flits vc) (reg_lookup (vc_reg vc)) (vc_budget vc) 8 (vc_tree vc) (ctx_with (vc_vars vc)) (wr_new (r_fail r) (r_short r)).

Definition check_run (vc : vcase) (r : vrun) : verdict :=
  match model_run vc r with
  | Out c w e =>
    if bytes_eqb (wr_bytes w) (r_out r) && N.eqb (err_code e) (r_err r) && Nat.eqb (w_n w) (r_writes r) then VOk
    else VBad (hex_string (wr_bytes w)) (err_code e) (w_n w)
  | Unsupported => VSkip
  | OutOfFuel => VFuel
  end.

Definition check_case (vc : vcase) : list verdict := map (check_run vc) (vc_runs vc).


(* ---- histories on one context (C05, C18): setters, renders, resets ---- *)
Inductive hstep :=
| HSet (k : bytes) (v : value) (static : bool)
| HSetBytes (k : bytes) (b : bytes)
| HSetCounter (k : bytes) (n : Z)
| HRender (t : tree) (out : bytes) (e : N) (events : list event)   (* with what the real engine showed *)
| HRenderF (t : tree) (fail short : nat) (out : bytes) (e : N) (events : list event)
    (* the same through a writer that refuses its fail-th write after taking [short] bytes of it;
       the context is used further afterwards *)
| HReset (events : list event).                                     (* Reset / Release+Acquire: pooled objects go back *)

Record hcase := mkHCase {
  hc_reg : list (bytes * tree);
  hc_flits : list (bytes * Z);
  hc_budget : nat;
  hc_steps : list hstep }.

Definition event_eqb (a b : event) : bool :=
  match a, b with
  | EvDefer x, EvDefer y => bytes_eqb x y
  | EvRun x n, EvRun y m => bytes_eqb x y && Nat.eqb n m
  | EvAcquire x _, EvAcquire y _ => bytes_eqb x y   (* position relative to writes is only meaningful for the outermost writer *)
  | EvRelease x, EvRelease y => bytes_eqb x y
  | _, _ => false
  end.

Fixpoint events_eqb (a b : list event) : bool :=
  match a, b with
  | [], [] => true
  | x :: a', y :: b' => event_eqb x y && events_eqb a' b'
  | _, _ => false
  end.

Definition clear_log (c : ctx) : ctx :=
  mkCtx (vars c) (chQB c) (chJQ c) (chHE c) (chUE c) (bufLC c) (brkD c) (cerr c) (bufB c) (dfr c) (ipv c) (wd c) [].

Inductive hverdict := HOk | HSkip | HBad (out : string) (e : N) (nev : nat).

Fixpoint check_history (hc : hcase) (steps : list hstep) (c : ctx) : list hverdict :=
  match steps with
  | [] => []
  | HSet k v st :: r => check_history hc r (ctx_set k v st c)
  | HSetBytes k b :: r => check_history hc r (ctx_set_bytes k b c)
  | HSetCounter k n :: r => check_history hc r (ctx_set_counter k n c)
  | HReset evs :: r =>
    let c1 := ctx_reset (clear_log c) in
    (if events_eqb (rev (elog c1)) evs then HOk else HBad EmptyString 0 (length (elog c1))) :: check_history hc r (clear_log c1)
  | HRender t out e evs :: r =>
    match render (hc_flits hc) (reg_lookup (hc_reg hc)) (hc_budget hc) 8 t (clear_log c) (wr_new None 0) with
    | Out c1 w1 e1 =>
      (if bytes_eqb (wr_bytes w1) out && N.eqb (err_code e1) e && events_eqb (rev (elog c1)) evs then HOk
       else HBad (hex_string (wr_bytes w1)) (err_code e1) (length (elog c1))) :: check_history hc r c1
    | _ => [HSkip]     (* outside the model: the rest of the history is not judged *)
    end
  | HRenderF t fail short out e evs :: r =>
    match render (hc_flits hc) (reg_lookup (hc_reg hc)) (hc_budget hc) 8 t (clear_log c) (wr_new (Some fail) short) with
    | Out c1 w1 e1 =>
      (if bytes_eqb (wr_bytes w1) out && N.eqb (err_code e1) e && events_eqb (rev (elog c1)) evs then HOk
       else HBad (hex_string (wr_bytes w1)) (err_code e1) (length (elog c1))) :: check_history hc r c1
    | _ => [HSkip]
    end
  end.

Definition run_history (hc : hcase) : list hverdict := check_history hc (hc_steps hc) ctx_new.
