(* db.go (template registry) + dyntpl.go Register*/Write* + parser.go Parse (hash shortcut),
   AFTER the planned repair of db.set / db.getTreeByHash:
     - set (re)indexes both names and refreshes the hash index on every call;
     - getTreeByHash returns a tree only if the slot it finds still holds that checksum.

   A tree is represented by the (pre-processed) source it was parsed from together with the
   checksum stored in it (Tree.hsum).  Templates of the histories are static text, so rendering a
   tree yields t_src: "which template did the lookup return" is observable as t_src.
   The checksum (crc64 of the pre-processed source) is the Section variable [hash].
   Maps are association lists; the first binding of a name is the current one. *)
From DT Require Import Model.Bytes.
Local Open Scope byte_scope.

Record tree_ := { t_src : bytes; t_hash : N }.
Record tpl := { p_id : Z; p_key : bytes; p_tree : tree_ }.
Record db := {
  idxID : list (Z * nat);
  idxKey : list (bytes * nat);
  idxHash : list (N * nat);
  slots : list tpl
}.

Definition db_empty : db := {| idxID := []; idxKey := []; idxHash := []; slots := [] |}.

(* the "no key" / "no id" arguments of RegisterTplID / RegisterTplKey *)
Definition no_key : bytes := ["-"; "1"].
Definition no_id : Z := (-1)%Z.

(* map lookup: first binding wins *)
Fixpoint assoc {K : Type} (eqb : K -> K -> bool) (k : K) (l : list (K * nat)) : option nat :=
  match l with
  | [] => None
  | (k0, v) :: r => if eqb k k0 then Some v else assoc eqb k r
  end.

Fixpoint set_nth {A : Type} (i : nat) (x : A) (l : list A) {struct l} : list A :=
  match l with
  | [] => []
  | y :: r => match i with O => x :: r | S i' => y :: set_nth i' x r end
  end.

(* getIdxLF: key index first, then id index *)
Definition get_idx_lf (d : db) (id : Z) (key : bytes) : option nat :=
  match assoc bytes_eqb key (idxKey d) with
  | Some i => Some i
  | None => assoc Z.eqb id (idxID d)
  end.

(* getIdxLF followed by the bounds check  idx >= 0 && idx < len(db.tpl) *)
Definition slot_idx (d : db) (id : Z) (key : bytes) : option nat :=
  match get_idx_lf d id key with
  | Some i => if i <? length (slots d) then Some i else None
  | None => None
  end.

Definition db_set (d : db) (id : Z) (key : bytes) (t : tree_) : db :=
  let p := {| p_id := id; p_key := key; p_tree := t |} in
  let tgt := slot_idx d id key in
  let idx := match tgt with Some i => i | None => length (slots d) end in
  {| idxID := if (0 <=? id)%Z then (id, idx) :: idxID d else idxID d;
     idxKey := if negb (bytes_eqb key no_key) then (key, idx) :: idxKey d else idxKey d;
     idxHash := (t_hash t, idx) :: idxHash d;
     slots := match tgt with Some i => set_nth i p (slots d) | None => slots d ++ [p] end |}.

Definition get (d : db) (id : Z) (key : bytes) : option tpl :=
  match slot_idx d id key with
  | Some i => nth_error (slots d) i
  | None => None
  end.

Definition get_id (d : db) (id : Z) : option tpl := get d id no_key.
Definition get_key (d : db) (key : bytes) : option tpl := get d no_id key.

Definition get_key1 (d : db) (key key1 : bytes) : option tpl :=
  let oi := match assoc bytes_eqb key (idxKey d) with
            | Some i => Some i
            | None => assoc bytes_eqb key1 (idxKey d)
            end in
  match oi with
  | Some i => nth_error (slots d) i      (* None when out of range *)
  | None => None
  end.

Fixpoint get_bkeys (d : db) (names : list bytes) : option tpl :=
  match names with
  | [] => None
  | k :: r =>
    match assoc bytes_eqb k (idxKey d) with
    | Some i => match nth_error (slots d) i with
                | Some p => Some p
                | None => get_bkeys d r
                end
    | None => get_bkeys d r
    end
  end.

(* getTreeByHash after the repair: the slot must still hold the checksum asked for *)
Definition tree_by_hash (d : db) (h : N) : option tree_ :=
  match assoc N.eqb h (idxHash d) with
  | Some i => match nth_error (slots d) i with
              | Some p => if N.eqb (t_hash (p_tree p)) h then Some (p_tree p) else None
              | None => None
              end
  | None => None
  end.

(* getTreeByHash as it was: no test of the slot's checksum (kept only to document the defect) *)
Definition tree_by_hash_unchecked (d : db) (h : N) : option tree_ :=
  match assoc N.eqb h (idxHash d) with
  | Some i => match nth_error (slots d) i with
              | Some p => Some (p_tree p)
              | None => None
              end
  | None => None
  end.

Inductive rop :=
| OParse (src : bytes)
| ORegister (id : Z) (key : bytes) (src : bytes)   (* Parse src, then RegisterTpl id key tree *)
| ORenderKey (key : bytes)
| ORenderID (id : Z)
| ORenderFallback (key fb : bytes)
| OInclude (names : list bytes).

Inductive robs := ObsSrc (s : bytes) | ObsNotFound | ObsUnit.

Definition obs_of (o : option tpl) : robs :=
  match o with
  | Some p => ObsSrc (t_src (p_tree p))
  | None => ObsNotFound
  end.

Section Registry.
Variable hash : bytes -> N.

(* Parse on an already pre-processed source *)
Definition parse_with (lookup : db -> N -> option tree_) (d : db) (src : bytes) : tree_ :=
  let h := hash src in
  match lookup d h with
  | Some t => t
  | None => {| t_src := src; t_hash := h |}
  end.

Definition parse := parse_with tree_by_hash.
Definition parse_unchecked := parse_with tree_by_hash_unchecked.

Definition db_step_with (prs : db -> bytes -> tree_) (d : db) (op : rop) : db * robs :=
  match op with
  | OParse src => (d, ObsSrc (t_src (prs d src)))
  | ORegister id key src => (db_set d id key (prs d src), ObsUnit)
  | ORenderKey key => (d, obs_of (get_key d key))
  | ORenderID id => (d, obs_of (get_id d id))
  | ORenderFallback key fb => (d, obs_of (get_key1 d key fb))
  | OInclude names => (d, obs_of (get_bkeys d names))
  end.

Fixpoint run_ops_with (prs : db -> bytes -> tree_) (d : db) (ops : list rop) : list robs :=
  match ops with
  | [] => []
  | op :: r => snd (db_step_with prs d op) :: run_ops_with prs (fst (db_step_with prs d op)) r
  end.

Fixpoint run_db_with (prs : db -> bytes -> tree_) (d : db) (ops : list rop) : db :=
  match ops with
  | [] => d
  | op :: r => run_db_with prs (fst (db_step_with prs d op)) r
  end.

Definition db_step := db_step_with parse.
Definition run_ops := run_ops_with parse.
Definition run_db := run_db_with parse.

Definition run_ops_unchecked := run_ops_with parse_unchecked.

End Registry.

(* comparison of a model run with observations recorded on the real engine (harness, V-mode) *)
Definition robs_eqb (a b : robs) : bool :=
  match a, b with
  | ObsSrc x, ObsSrc y => bytes_eqb x y
  | ObsNotFound, ObsNotFound => true
  | ObsUnit, ObsUnit => true
  | _, _ => false
  end.

Fixpoint robs_list_eqb (a b : list robs) : bool :=
  match a, b with
  | [], [] => true
  | x :: a', y :: b' => robs_eqb x y && robs_list_eqb a' b'
  | _, _ => false
  end.

Definition registry_check (hash : bytes -> N) (ops : list rop) (observed : list robs) : bool :=
  robs_list_eqb (run_ops hash db_empty ops) observed.
