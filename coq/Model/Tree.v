(* Image of Go's parsed tree (tree_node.go), one constructor per rtype, carrying exactly
   the fields writeNode reads for that type.  Children stay an untidied list: e.g. the
   node of {% break if c %} is a cond whose first child is the bare break node. *)
From DT Require Import Model.Bytes.

Inductive op := OpUnk | OpEq | OpNq | OpGt | OpGtq | OpLt | OpLtq | OpInc | OpDec.
Inductive lcmode := LcNone | LcLen | LcCap.
Inductive bkind := BTrue | BFalse | BCase | BDefault.
Inductive flag := FJson | FHtml | FUrl.

Record targ := mkArg { a_name : bytes; a_val : bytes; a_static : bool; a_global : bool }.
Record tmod := mkMod { m_id : bytes; m_args : list targ }.

Record condinfo := mkCond {
  cL : bytes; cR : bytes; cSL : bool; cSR : bool; cOp : op;
  cHlp : bytes; cHlpArg : list targ; cLC : lcmode }.

Record caseinfo := mkCase {
  kL : bytes; kR : bytes; kSL : bool; kSR : bool; kOp : op;
  kHlp : bytes; kHlpArg : list targ }.

(* if-ok: {% if v, ok := helper(args).(ins); ok %} *)
Record okinfo := mkOk { oL : bytes; oR : bytes; oIns : bytes }.

Definition no_case : caseinfo := mkCase [] [] false false OpUnk [] [].

Inductive node :=
| NRaw (raw : bytes)
| NTpl (raw pfx sfx : bytes) (noesc : bool) (mods : list tmod)
| NCond (c : condinfo) (child : list node)
| NCondOK (k : okinfo) (c : condinfo) (child : list node)       (* typeCondOK: if-ok with a helper *)
| NBlock (k : bkind) (ci : caseinfo) (child : list node)       (* typeCondTrue / False / Case / Default *)
| NLoopRange (key val src sep : bytes) (child : list node)
| NLoopCount (cnt init lim sep : bytes) (initS limS : bool) (condOp cntOp : op) (child : list node)
| NBreak (d : Z)
| NLBreak (d : Z)
| NContinue
| NCtx (var src ok ins : bytes) (srcStatic : bool) (mods : list tmod)
| NCounter (var : bytes) (initF : bool) (init : Z) (cop : op) (arg : Z)
| NSwitch (arg : bytes) (child : list node)
| NFlag (f : flag) (on : bool)                                   (* typeJsonQ … typeEndUrlEnc *)
| NInclude (tpls : list bytes)
| NExit
| NOther (typ : Z).                                              (* typeDiv, unknown *)

Definition tree := list node.

Definition op_swap (o : op) : op :=
  match o with OpGt => OpLt | OpGtq => OpLtq | OpLt => OpGt | OpLtq => OpGtq | _ => o end.
