(* parser.go: parseTpl (lines 232-281) and the block tags of processCtl,
   parser_target.go: target.reached / target.eqZero.

   Two layers, both mirrors of the Go control flow:

   1. [tokens]     the scan of parseTpl: bytealg.IndexAt for "{%", then for "%}"
                   starting AT the position of that "{%".
   2. [parse_skel] the recursive descent over the classified control tags with the
                   three depth counters cc / cl / cs of the parser and the target
                   snapshots taken by processCtl for if / for / switch. *)
From DT Require Import Model.Bytes.
Local Open Scope byte_scope.

(* ------------------------------------------------------------------ *)
(* Part 1: the scan                                                    *)
(* ------------------------------------------------------------------ *)

(* bytes.Index(s, [a; b]) as a split: (s[:i], s[i:]) for the first i with s[i]=a, s[i+1]=b *)
Fixpoint find2 (a b : byte) (s : bytes) : option (bytes * bytes) :=
  match s with
  | [] => None
  | c :: rest =>
    if (match rest with d :: _ => beqb c a && beqb d b | [] => false end)
    then Some ([], s)
    else match find2 a b rest with
         | Some (p, q) => Some (c :: p, q)
         | None => None
         end
  end.

Definition ctl_open : bytes := ["{"; "%"].
Definition ctl_close : bytes := ["%"; "}"].

(* TCtl s: the bytes strictly between "{%" and "%}".
   TCtlOverlap: the three-byte tag "{%}".  The Go code searches "%}" from the position
   of "{%", so the '%' is shared by both delimiters and "{%}" is a complete tag; it
   cannot be written as "{%" ++ s ++ "%}", hence its own constructor. *)
Inductive tok := TRawT (s : bytes) | TCtl (s : bytes) | TCtlOverlap.

(* the slice p.tpl[o:e] that parseTpl hands to processCtl / addRaw *)
Definition tok_text (t : tok) : bytes :=
  match t with
  | TRawT s => s
  | TCtl s => ctl_open ++ s ++ ctl_close
  | TCtlOverlap => ["{"; "%"; "}"]
  end.

(* addRaw: empty text adds no node *)
Definition raw_tok (s : bytes) : list tok :=
  match s with [] => [] | _ => [TRawT s] end.

(* one round of the loop body pair (inCtl=false then inCtl=true) *)
Inductive step_res :=
| StEnd (raw : bytes)                          (* no further "{%": the rest is raw text *)
| StEOF                                        (* "{%" without a later "%}": ErrUnexpectedEOF *)
| StTag (raw : bytes) (t : tok) (rest : bytes). (* raw text, one tag, position after it *)

Definition scan_step (s : bytes) : step_res :=
  match find2 "{" "%" s with                   (* i = IndexAt(tpl, ctlOpen, i) *)
  | None => StEnd s
  | Some (raw, suf) =>                         (* raw = tpl[o:i], suf = tpl[i:] *)
    match find2 "%" "}" suf with               (* e = IndexAt(tpl, ctlClose, i) -- from i, not i+2 *)
    | None => StEOF
    | Some (hd, cl) =>                         (* hd = tpl[i:e], cl = tpl[e:] *)
      let rest := skipn 2 cl in                (* e += 2 *)
      match hd with
      | _ :: _ :: inner => StTag raw (TCtl inner) rest
      | _ => StTag raw TCtlOverlap rest        (* hd = "{" : e = i+1 *)
      end
    end
  end.

Inductive scan_res := ScanOk (l : list tok) | ScanEOF | ScanFuel.

Fixpoint scan (fuel : nat) (s : bytes) : scan_res :=
  match fuel with
  | O => ScanFuel
  | S f =>
    match scan_step s with
    | StEnd raw => ScanOk (raw_tok raw)
    | StEOF => ScanEOF
    | StTag raw t rest =>
      match scan f rest with
      | ScanOk l => ScanOk (raw_tok raw ++ t :: l)
      | r => r
      end
    end
  end.

(* None = ErrUnexpectedEOF *)
Definition tokens (src : bytes) : option (list tok) :=
  match scan (S (length src)) src with
  | ScanOk l => Some l
  | _ => None
  end.

(* ------------------------------------------------------------------ *)
(* Part 2: nesting                                                     *)
(* ------------------------------------------------------------------ *)

(* what processCtl does with a tag as far as block structure is concerned.
   Leaf: print, ctx, counter, break/lazybreak/continue (with or without if), exit,
         control symbols, jsonquote/htmlescape/urlencode and their ends, include.
   ElseT / CaseT / DefaultT: divider, case and default nodes; no counter is touched.
   Bad: every path of processCtl that returns a non-nil error without descending
        (unknown control structure, unparsable for, too complex condition, Atoi). *)
Inductive tag :=
| OpenIf | ElseT | EndIf
| OpenFor | EndFor
| OpenSwitch | CaseT | DefaultT | EndSwitch
| Leaf | Bad.

(* type target struct { cc, cl, cs int }; the parser embeds one (the live counters) *)
Record target := mkT { cc : Z; cl : Z; cs : Z }.

Definition zero_target : target := mkT 0 0 0.

Definition reached (t p : target) : bool :=
  (cc t =? cc p)%Z && (cl t =? cl p)%Z && (cs t =? cs p)%Z.

Definition eq_zero (t : target) : bool :=
  (cc t =? 0)%Z && (cl t =? 0)%Z && (cs t =? 0)%Z.

Definition inc_cc p := mkT (cc p + 1) (cl p) (cs p).
Definition dec_cc p := mkT (cc p - 1) (cl p) (cs p).
Definition inc_cl p := mkT (cc p) (cl p + 1) (cs p).
Definition dec_cl p := mkT (cc p) (cl p - 1) (cs p).
Definition inc_cs p := mkT (cc p) (cl p) (cs p + 1).
Definition dec_cs p := mkT (cc p) (cl p) (cs p - 1).

(* (err, live counters on return, input after the returned offset) *)
Definition pres := (bool * target * list tag)%type.

(* the tail of parseTpl:  if !t.reached(p) { err = ErrUnbalancedCtl } ; return *)
Definition finish (t p : target) (rest : list tag) (err : bool) : option pres :=
  Some (err || negb (reached t p), p, rest).

(* processCtl on one tag; [rec] is parseTpl with one unit of fuel less.
   Result: (live counters, input after offset, up, err). *)
Definition process_ctl (rec : target -> target -> list tag -> option pres)
    (p : target) (tg : tag) (rest : list tag) : option (target * list tag * bool * bool) :=
  let dive (p1 : target) :=
    (* t := p.targetSnapshot(); p.cX++; sub, offset, err = p.parseTpl(sub, pos+len(ctl), t);
       return nodes, offset, up(=false), err *)
    match rec p p1 rest with
    | Some (err, p2, rest') => Some (p2, rest', false, err)
    | None => None
    end in
  match tg with
  | OpenIf => dive (inc_cc p)
  | OpenFor => dive (inc_cl p)
  | OpenSwitch => dive (inc_cs p)
  | EndIf => Some (dec_cc p, rest, true, false)        (* p.cc--; up = true *)
  | EndFor => Some (dec_cl p, rest, true, false)       (* p.cl--; up = true *)
  | EndSwitch => Some (dec_cs p, rest, true, false)    (* p.cs--; up = true *)
  | ElseT | CaseT | DefaultT | Leaf => Some (p, rest, false, false)
  | Bad => Some (p, rest, false, true)
  end.

(* parseTpl(nodes, offset, t) with live counters p; None = out of fuel *)
Fixpoint parse_tpl (fuel : nat) (t p : target) (inp : list tag) : option pres :=
  match fuel with
  | O => None
  | S f =>
    if negb (reached t p) || eq_zero t then            (* for !t.reached(p) || t.eqZero() *)
      match inp with
      | [] => finish t p [] false                      (* i < 0: addRaw, break *)
      | tg :: rest =>
        match process_ctl (parse_tpl f) p tg rest with
        | None => None
        | Some (p', rest', up, err) =>
          if err then finish t p' rest' true           (* if err != nil { break } *)
          else if up then finish t p' rest' false      (* if up { break } *)
          else parse_tpl f t p' rest'                  (* next iteration *)
        end
      end
    else finish t p inp false
  end.

(* Parse: t := p.targetSnapshot() (all zero); _, _, err = p.parseTpl(nodes, 0, t); true = err == nil *)
Definition parse_skel (sk : list tag) : bool :=
  match parse_tpl (S (length sk)) zero_target zero_target sk with
  | Some (err, _, _) => negb err
  | None => false
  end.

(* ------------------------------------------------------------------ *)
(* Both layers together                                                *)
(* ------------------------------------------------------------------ *)

(* processCtl receives the whole slice, delimiters included *)
Definition ctl_tags (classify : bytes -> tag) (toks : list tok) : list tag :=
  flat_map (fun t => match t with TRawT _ => [] | _ => [classify (tok_text t)] end) toks.

Definition parse_ok (classify : bytes -> tag) (src : bytes) : bool :=
  match tokens src with
  | None => false
  | Some toks => parse_skel (ctl_tags classify toks)
  end.
