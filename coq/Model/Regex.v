(* Go's regexp package as the parser uses it (parser.go, static.go): leftmost-first
   ("Perl-like") matching over byte strings with capture groups.

   The expressions themselves are NOT written here: harness/regexgen.go reads every
   regexp.MustCompile literal of /repo's source on every run, parses it with Go's own
   regexp/syntax and prints it as a term of [re] into the run's Gen/RegexTable.v
   (the committed coq/Gen/RegexTable.v is that file for the pinned tree).  This file is
   the matcher: a backtracking search whose first answer is the leftmost-first match.

   Bytes, not runes: every literal and every positive class in the parser's expressions
   is ASCII; "." and the negated classes accept every byte of a multi-byte character, one at
   a time, which yields the same match boundaries because they only occur under * and +
   (checked on the table: [re_ok]). *)
From DT Require Import Model.Bytes.

(* a class is a list of inclusive byte ranges (negation is resolved by the translator) *)
Definition cls := list (N * N).

Fixpoint in_cls (c : cls) (b : byte) : bool :=
  match c with
  | [] => false
  | (lo, hi) :: r => in_range lo hi b || in_cls r b
  end.

Inductive re :=
| REmpty                                  (* matches the empty string *)
| RFail                                   (* matches nothing (empty class) *)
| RCls (c : cls)                          (* one byte of the class *)
| RCat (a b : re)
| RAlt (a b : re)                         (* a preferred *)
| RStar (a : re) (greedy : bool)
| RPlus (a : re) (greedy : bool)
| RQuest (a : re) (greedy : bool)
| RGroup (n : nat) (a : re)               (* capture group n *)
| RBol                                    (* ^ : start of the text (no multi-line flag) *)
| REol.                                   (* $ : end of the text *)

(* captures: group number -> (start, end) offsets into the subject *)
Definition caps := list (nat * (nat * nat)).

Fixpoint cap_get (cs : caps) (n : nat) : option (nat * nat) :=
  match cs with
  | [] => None
  | (m, p) :: r => if Nat.eqb m n then Some p else cap_get r n
  end.

Definition orelse {A} (a b : option A) : option A :=
  match a with Some _ => a | None => b end.

(* continuation: remaining subject, absolute position, captures so far *)
Definition kont := bytes -> nat -> caps -> option caps.

(* [m r s pos cs k]: match r at the head of s (s starts at offset pos of the subject), then k.
   The first Some in priority order is the leftmost-first match.  A star iteration that
   consumes nothing is cut (it could only repeat itself); with that, the fuel of the inner
   loop (one more than the bytes left) is never used up. *)
Fixpoint m (r : re) : bytes -> nat -> caps -> kont -> option caps :=
  match r with
  | REmpty => fun s pos cs k => k s pos cs
  | RFail => fun _ _ _ _ => None
  | RCls c => fun s pos cs k =>
      match s with
      | b :: s' => if in_cls c b then k s' (S pos) cs else None
      | [] => None
      end
  | RCat a b => fun s pos cs k => m a s pos cs (fun s' pos' cs' => m b s' pos' cs' k)
  | RAlt a b => fun s pos cs k => orelse (m a s pos cs k) (m b s pos cs k)
  | RStar a g => fun s pos cs k =>
      (fix star (fuel : nat) (s : bytes) (pos : nat) (cs : caps) {struct fuel} : option caps :=
         match fuel with
         | O => k s pos cs
         | S f =>
           let more := m a s pos cs (fun s' pos' cs' =>
                          if Nat.ltb (length s') (length s) then star f s' pos' cs' else None) in
           if g then orelse more (k s pos cs) else orelse (k s pos cs) more
         end) (S (length s)) s pos cs
  | RPlus a g => fun s pos cs k =>
      m a s pos cs (fun s1 pos1 cs1 =>
      (fix star (fuel : nat) (s : bytes) (pos : nat) (cs : caps) {struct fuel} : option caps :=
         match fuel with
         | O => k s pos cs
         | S f =>
           let more := m a s pos cs (fun s' pos' cs' =>
                          if Nat.ltb (length s') (length s) then star f s' pos' cs' else None) in
           if g then orelse more (k s pos cs) else orelse (k s pos cs) more
         end) (S (length s1)) s1 pos1 cs1)
  | RQuest a g => fun s pos cs k =>
      if g then orelse (m a s pos cs k) (k s pos cs) else orelse (k s pos cs) (m a s pos cs k)
  | RGroup n a => fun s pos cs k =>
      m a s pos cs (fun s' pos' cs' => k s' pos' ((n, (pos, pos')) :: cs'))
  | RBol => fun s pos cs k => if Nat.eqb pos 0 then k s pos cs else None
  | REol => fun s pos cs k => match s with [] => k s pos cs | _ => None end
  end.

(* the whole match is group 0 *)
Definition match_at (r : re) (s : bytes) (pos : nat) : option caps :=
  m (RGroup 0 r) s pos [] (fun _ _ cs => Some cs).

(* unanchored search: the leftmost start position that has a match *)
Fixpoint search (r : re) (s : bytes) (pos : nat) : option caps :=
  match match_at r s pos with
  | Some cs => Some cs
  | None => match s with [] => None | _ :: s' => search r s' (S pos) end
  end.

(* regexp.FindSubmatchIndex *)
Definition re_find (r : re) (subject : bytes) : option caps := search r subject 0.
(* regexp.Match *)
Definition re_match (r : re) (subject : bytes) : bool :=
  match re_find r subject with Some _ => true | None => false end.

Definition slice (s : bytes) (a b : nat) : bytes := firstn (b - a) (skipn a s).

(* m[n] of FindSubmatch: a group that took no part in the match is empty (Go: nil) *)
Definition grp (subject : bytes) (cs : caps) (n : nat) : bytes :=
  match cap_get cs n with Some (a, b) => slice subject a b | None => [] end.
Definition grp_set (cs : caps) (n : nat) : bool :=
  match cap_get cs n with Some _ => true | None => false end.

(* Side conditions of the byte-level reading, checked on the generated table:
   a repeated expression cannot match the empty string (so the "no progress" cut of the
   star never changes the answer). *)
Fixpoint nullable (r : re) : bool :=
  match r with
  | REmpty | RBol | REol => true
  | RFail | RCls _ => false
  | RCat a b => nullable a && nullable b
  | RAlt a b => nullable a || nullable b
  | RStar _ _ | RQuest _ _ => true
  | RPlus a _ => nullable a
  | RGroup _ a => nullable a
  end.

Fixpoint re_ok (r : re) : bool :=
  match r with
  | REmpty | RFail | RCls _ | RBol | REol => true
  | RCat a b | RAlt a b => re_ok a && re_ok b
  | RStar a _ | RPlus a _ => re_ok a && negb (nullable a)
  | RQuest a _ => re_ok a
  | RGroup _ a => re_ok a
  end.

(* number of capture groups, for printing all of them *)
Fixpoint max_group (r : re) : nat :=
  match r with
  | RCat a b | RAlt a b => Nat.max (max_group a) (max_group b)
  | RStar a _ | RPlus a _ | RQuest a _ => max_group a
  | RGroup n a => Nat.max n (max_group a)
  | _ => 0
  end.

(* FindSubmatchIndex as a flat list: [s0; e0; s1; e1; ...], -1 for a group that is not set *)
Definition find_index (r : re) (subject : bytes) : option (list Z) :=
  match re_find r subject with
  | None => None
  | Some cs =>
    Some (flat_map (fun n => match cap_get cs n with
                             | Some (a, b) => [Z.of_nat a; Z.of_nat b]
                             | None => [(-1)%Z; (-1)%Z]
                             end) (seq 0 (S (max_group r))))
  end.

(* regexp.ReplaceAll(s, nil): every leftmost-first match, left to right and not overlapping, is
   removed.  [pos] is the offset of [s] in the subject (for ^).  A match that is empty removes
   nothing and the scan moves on by one byte. *)
Fixpoint delete_all_go (fuel : nat) (r : re) (s : bytes) (pos : nat) : bytes :=
  match fuel with
  | O => s
  | S f =>
    match search r s pos with
    | None => s
    | Some cs =>
      match cap_get cs 0 with
      | Some (a, b) =>
        let before := firstn (a - pos) s in
        if Nat.ltb a b then before ++ delete_all_go f r (skipn (b - pos) s) b
        else match skipn (a - pos) s with
             | [] => before
             | c :: rest => before ++ c :: delete_all_go f r rest (S a)
             end
      | None => s
      end
    end
  end.

Definition delete_all (r : re) (s : bytes) : bytes := delete_all_go (S (length s)) r s 0.
