(* Decidable equality of parsed trees (for the parser correspondence). *)
From DT Require Import Model.Bytes Model.Tree.

Definition op_eqb (a b : op) : bool :=
  match a, b with
  | OpUnk, OpUnk | OpEq, OpEq | OpNq, OpNq | OpGt, OpGt | OpGtq, OpGtq | OpLt, OpLt | OpLtq, OpLtq
  | OpInc, OpInc | OpDec, OpDec => true
  | _, _ => false
  end.
Definition lc_eqb (a b : lcmode) : bool :=
  match a, b with LcNone, LcNone | LcLen, LcLen | LcCap, LcCap => true | _, _ => false end.
Definition bk_eqb (a b : bkind) : bool :=
  match a, b with BTrue, BTrue | BFalse, BFalse | BCase, BCase | BDefault, BDefault => true | _, _ => false end.
Definition flag_eqb (a b : flag) : bool :=
  match a, b with FJson, FJson | FHtml, FHtml | FUrl, FUrl => true | _, _ => false end.

Fixpoint list_eqb {A} (eq : A -> A -> bool) (a b : list A) : bool :=
  match a, b with
  | [], [] => true
  | x :: a', y :: b' => eq x y && list_eqb eq a' b'
  | _, _ => false
  end.

Definition arg_eqb (a b : targ) : bool :=
  bytes_eqb (a_name a) (a_name b) && bytes_eqb (a_val a) (a_val b) && Bool.eqb (a_static a) (a_static b) && Bool.eqb (a_global a) (a_global b).
Definition mod_eqb (a b : tmod) : bool := bytes_eqb (m_id a) (m_id b) && list_eqb arg_eqb (m_args a) (m_args b).
Definition cond_eqb (a b : condinfo) : bool :=
  bytes_eqb (cL a) (cL b) && bytes_eqb (cR a) (cR b) && Bool.eqb (cSL a) (cSL b) && Bool.eqb (cSR a) (cSR b) &&
  op_eqb (cOp a) (cOp b) && bytes_eqb (cHlp a) (cHlp b) && list_eqb arg_eqb (cHlpArg a) (cHlpArg b) && lc_eqb (cLC a) (cLC b).
Definition case_eqb (a b : caseinfo) : bool :=
  bytes_eqb (kL a) (kL b) && bytes_eqb (kR a) (kR b) && Bool.eqb (kSL a) (kSL b) && Bool.eqb (kSR a) (kSR b) &&
  op_eqb (kOp a) (kOp b) && bytes_eqb (kHlp a) (kHlp b) && list_eqb arg_eqb (kHlpArg a) (kHlpArg b).

Section L.
  Variable f : node -> node -> bool.
  Fixpoint nodes_eqb_with (a b : list node) : bool :=
    match a, b with
    | [], [] => true
    | x :: a', y :: b' => f x y && nodes_eqb_with a' b'
    | _, _ => false
    end.
End L.

Fixpoint node_eqb (a b : node) {struct a} : bool :=
  match a, b with
  | NRaw x, NRaw y => bytes_eqb x y
  | NTpl r1 p1 s1 n1 m1, NTpl r2 p2 s2 n2 m2 =>
    bytes_eqb r1 r2 && bytes_eqb p1 p2 && bytes_eqb s1 s2 && Bool.eqb n1 n2 && list_eqb mod_eqb m1 m2
  | NCond c1 l1, NCond c2 l2 => cond_eqb c1 c2 && nodes_eqb_with node_eqb l1 l2
  | NCondOK k1 c1 l1, NCondOK k2 c2 l2 =>
    bytes_eqb (oL k1) (oL k2) && bytes_eqb (oR k1) (oR k2) && bytes_eqb (oIns k1) (oIns k2) &&
    cond_eqb c1 c2 && nodes_eqb_with node_eqb l1 l2
  | NBlock k1 i1 l1, NBlock k2 i2 l2 => bk_eqb k1 k2 && case_eqb i1 i2 && nodes_eqb_with node_eqb l1 l2
  | NLoopRange k1 v1 s1 p1 l1, NLoopRange k2 v2 s2 p2 l2 =>
    bytes_eqb k1 k2 && bytes_eqb v1 v2 && bytes_eqb s1 s2 && bytes_eqb p1 p2 && nodes_eqb_with node_eqb l1 l2
  | NLoopCount c1 i1 m1 s1 a1 b1 o1 q1 l1, NLoopCount c2 i2 m2 s2 a2 b2 o2 q2 l2 =>
    bytes_eqb c1 c2 && bytes_eqb i1 i2 && bytes_eqb m1 m2 && bytes_eqb s1 s2 && Bool.eqb a1 a2 && Bool.eqb b1 b2 &&
    op_eqb o1 o2 && op_eqb q1 q2 && nodes_eqb_with node_eqb l1 l2
  | NBreak d1, NBreak d2 => Z.eqb d1 d2
  | NLBreak d1, NLBreak d2 => Z.eqb d1 d2
  | NContinue, NContinue => true
  | NCtx v1 s1 o1 i1 b1 m1, NCtx v2 s2 o2 i2 b2 m2 =>
    bytes_eqb v1 v2 && bytes_eqb s1 s2 && bytes_eqb o1 o2 && bytes_eqb i1 i2 && Bool.eqb b1 b2 && list_eqb mod_eqb m1 m2
  | NCounter v1 f1 i1 o1 a1, NCounter v2 f2 i2 o2 a2 =>
    bytes_eqb v1 v2 && Bool.eqb f1 f2 && Z.eqb i1 i2 && op_eqb o1 o2 && Z.eqb a1 a2
  | NSwitch a1 l1, NSwitch a2 l2 => bytes_eqb a1 a2 && nodes_eqb_with node_eqb l1 l2
  | NFlag f1 o1, NFlag f2 o2 => flag_eqb f1 f2 && Bool.eqb o1 o2
  | NInclude t1, NInclude t2 => list_eqb bytes_eqb t1 t2
  | NExit, NExit => true
  | NOther t1, NOther t2 => Z.eqb t1 t2
  | _, _ => false
  end.

Definition tree_eqb (a b : tree) : bool := nodes_eqb_with node_eqb a b.
