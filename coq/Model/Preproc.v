(* The parser's clean-up of the source before parsing (parser.go: cutComments, cutFmt).

   reCutComments = `{#[^#]*#}`  replaced by nothing (leftmost first, non-overlapping)
   reCutFmt      = `\n+\t*\s*`  replaced by nothing, then Trim(" \t\n"); skipped when keepFmt

   A candidate comment is "{#", any bytes but '#', and then the first '#' must be followed by '}';
   otherwise there is no comment at that position and the scan moves on by one byte.
   `\n+\t*\s*` matches exactly a line break followed by the longest run of RE2 white space
   (\t \n \f \r and space). *)
From DT Require Import Model.Bytes.

Definition b_lf : byte := x0a.
Definition b_hash : byte := x23.
Definition b_lbrace : byte := x7b.
Definition b_rbrace : byte := x7d.

Definition is_re_space (c : byte) : bool :=
  beqb c x09 || beqb c x0a || beqb c x0c || beqb c x0d || beqb c x20.

(* rest of the text after the first '#', if there is one *)
Fixpoint after_hash (s : bytes) : option bytes :=
  match s with
  | [] => None
  | c :: r => if beqb c b_hash then Some r else after_hash r
  end.

Fixpoint cut_comments_fuel (fuel : nat) (s : bytes) : bytes :=
  match fuel with
  | O => s
  | S f =>
    match s with
    | [] => []
    | c :: r =>
      if beqb c b_lbrace then
        match r with
        | h :: r1 =>
          if beqb h b_hash then
            match after_hash r1 with
            | Some (e :: r2) => if beqb e b_rbrace then cut_comments_fuel f r2 else c :: cut_comments_fuel f r
            | _ => c :: cut_comments_fuel f r
            end
          else c :: cut_comments_fuel f r
        | [] => [c]
        end
      else c :: cut_comments_fuel f r
    end
  end.

Definition cut_comments (s : bytes) : bytes := cut_comments_fuel (S (length s)) s.

(* one pass: after a line break everything that is white space is dropped *)
Fixpoint cut_fmt_go (skipping : bool) (s : bytes) : bytes :=
  match s with
  | [] => []
  | c :: r =>
    if beqb c b_lf then cut_fmt_go true r
    else if skipping && is_re_space c then cut_fmt_go true r
    else c :: cut_fmt_go false r
  end.

Definition is_trim (c : byte) : bool := beqb c x20 || beqb c x09 || beqb c x0a.

Fixpoint trim_left (s : bytes) : bytes :=
  match s with
  | c :: r => if is_trim c then trim_left r else s
  | [] => []
  end.

Definition trim (s : bytes) : bytes := rev (trim_left (rev (trim_left s))).

Definition cut_fmt (s : bytes) : bytes := trim (cut_fmt_go false s).

Definition preprocess (keep_fmt : bool) (s : bytes) : bytes :=
  let s1 := cut_comments s in
  if keep_fmt then s1 else cut_fmt s1.

(* The documented removal, per piece of static text (what the reference semantics shows of a
   text item that does not start with white space): line breaks and the indentation after them. *)
Definition text_view (keep_fmt : bool) (t : bytes) : bytes :=
  if keep_fmt then t else cut_fmt_go false t.
