(* Values as dyntpl sees them (the `any` that inspectors hand out), their text
   (x2bytes.ToBytes with the bytebuf extensions), the conversions of conv.go /
   empty_check*.go, and the inspector contract of DESIGN.md 2.1. *)
From Coq Require Import DecimalString.
From DT Require Import Model.Bytes.
Local Open Scope Z_scope.

Inductive value :=
| VNil                                   (* untyped nil: missing variable/field, nil pointer *)
| VBool (b : bool)
| VInt (z : Z)                           (* int, int8 … int64 and pointers to them *)
| VUint (z : Z)                          (* uint … uint64 *)
| VFloat (bits : Z) (txt : bytes)        (* float64 by IEEE bits; txt = strconv 'f',-1,64 text (checked by the harness) *)
| VStr (s : bytes)                       (* string / *string *)
| VBytes (s : bytes)                     (* []byte / *[]byte / *bytebuf.Chain *)
| VCell (idx : nat)                      (* *int64 into Ctx.bufLC: the live counter of a counter loop *)
| VStruct (fs : list (bytes * value))    (* (pointer to) struct; fields by name *)
| VSlice (l : list value)                (* slice; elements by decimal index *)
| VMap (kvs : list (bytes * value))      (* string-keyed map, in the order the inspector's Loop delivers *)
| VOpaque.                               (* anything dyntpl cannot convert (time, func, …) *)

(* ---- decimal text of integers (strconv.AppendInt base 10) ---- *)
Fixpoint uint_bytes (u : Decimal.uint) : bytes :=
  match u with
  | Decimal.Nil => []
  | Decimal.D0 r => "0"%byte :: uint_bytes r | Decimal.D1 r => "1"%byte :: uint_bytes r
  | Decimal.D2 r => "2"%byte :: uint_bytes r | Decimal.D3 r => "3"%byte :: uint_bytes r
  | Decimal.D4 r => "4"%byte :: uint_bytes r | Decimal.D5 r => "5"%byte :: uint_bytes r
  | Decimal.D6 r => "6"%byte :: uint_bytes r | Decimal.D7 r => "7"%byte :: uint_bytes r
  | Decimal.D8 r => "8"%byte :: uint_bytes r | Decimal.D9 r => "9"%byte :: uint_bytes r
  end.

Definition print_Z (z : Z) : bytes :=
  match z with
  | Z0 => ["0"%byte]
  | Zpos p => uint_bytes (Pos.to_uint p)
  | Zneg p => "-"%byte :: uint_bytes (Pos.to_uint p)
  end.

(* decimal literal: optional '-', then digits only (what the generators emit; strconv
   accepts more — base prefixes, underscores, '+' — which the model maps to None) *)
Fixpoint parse_digits (acc : Z) (s : bytes) : option Z :=
  match s with
  | [] => Some acc
  | c :: r => if is_digit c then parse_digits (acc * 10 + Z.of_N (b2n c - 48)) r else None
  end.
Definition parse_Z (s : bytes) : option Z :=
  match s with
  | [] => None
  | c :: r =>
    if beqb c "-"%byte then match r with [] => None | _ => option_map Z.opp (parse_digits 0 r) end
    else if beqb c "+"%byte then match r with [] => None | _ => parse_digits 0 r end
    else parse_digits 0 s
  end.

Definition b_true : bytes := ["t"; "r"; "u"; "e"]%byte.
Definition b_false : bytes := ["f"; "a"; "l"; "s"; "e"]%byte.

(* x2bytes.ToBytes: None = ErrUnknownType *)
(* a value a ctx assignment treats as absent: nil, or a string / byte value of length zero *)
Definition is_void (v : value) : bool :=
  match v with VNil | VStr [] | VBytes [] => true | _ => false end.

Definition text_of (bufLC : list Z) (v : value) : option bytes :=
  match v with
  | VBool b => Some (if b then b_true else b_false)
  | VInt z => Some (print_Z z)
  | VUint z => Some (print_Z z)
  | VFloat _ txt => Some txt
  | VStr s => Some s
  | VBytes s => Some s
  | VCell i => Some (print_Z (nth i bufLC 0))
  | VNil | VStruct _ | VSlice _ | VMap _ | VOpaque => None
  end.

(* ---- IEEE-754 binary64 ordering on bit patterns (finite values; NaN compares false) ---- *)
Definition f64_sign (bits : Z) : bool := 9223372036854775808 <=? bits.
Definition f64_mag (bits : Z) : Z := bits mod 9223372036854775808.
Definition f64_is_nan (bits : Z) : bool := 9218868437227405312 <? f64_mag bits.
Definition f64_is_zero (bits : Z) : bool := f64_mag bits =? 0.
(* a key that orders all non-NaN doubles like the reals (with -0 = +0) *)
Definition f64_key (bits : Z) : Z := if f64_sign bits then - f64_mag bits else f64_mag bits.

(* ---- conversions of conv.go ---- *)
Definition conv_int (bufLC : list Z) (v : value) : option Z :=
  match v with VInt z => Some z | VCell i => Some (nth i bufLC 0) | _ => None end.
Definition conv_uint (v : value) : option Z := match v with VUint z => Some z | _ => None end.
Definition conv_bool (v : value) : option bool := match v with VBool b => Some b | _ => None end.
Definition conv_bytes (v : value) : option bytes := match v with VBytes s => Some s | _ => None end.
Definition conv_str (v : value) : option bytes := match v with VStr s => Some s | _ => None end.

(* if2int: ints, uints, and byte/string text parsed as an integer (parse errors give 0) *)
Definition if2int (bufLC : list Z) (v : value) : option Z :=
  match v with
  | VInt z | VUint z => Some z
  | VCell i => Some (nth i bufLC 0)
  | VBytes s | VStr s => Some (match s with [] => 0 | _ => match parse_Z s with Some z => z | None => 0 end end)
  | _ => None
  end.

(* EmptyCheck: nil, zero numbers, false, zero-length strings/bytes/lists *)
Definition empty_check (bufLC : list Z) (v : value) : bool :=
  match v with
  | VNil => true
  | VBool b => negb b
  | VInt z | VUint z => z =? 0
  | VCell i => nth i bufLC 0 =? 0
  | VFloat bits _ => f64_is_zero bits
  | VStr s | VBytes s => match s with [] => true | _ => false end
  | VSlice _ | VStruct _ | VMap _ | VOpaque => false
  end.

(* ---- inspector contract ---- *)
Fixpoint assoc (k : bytes) (l : list (bytes * value)) : option value :=
  match l with
  | [] => None
  | (k', v) :: r => if bytes_eqb k k' then Some v else assoc k r
  end.

(* GetTo: the addressed leaf; VNil when a field is absent or a pointer on the way is nil.
   A static inspector ignores the path and hands out the variable itself. *)
Fixpoint ins_get (v : value) (path : list bytes) : value :=
  match path with
  | [] => v
  | seg :: rest =>
    match v with
    | VStruct fs => match assoc seg fs with Some x => ins_get x rest | None => VNil end
    | VMap kvs => match assoc seg kvs with Some x => ins_get x rest | None => VNil end
    | VSlice l =>
      match parse_Z seg with
      | Some i => if (0 <=? i) && (i <? Z.of_nat (length l)) then ins_get (nth (Z.to_nat i) l VNil) rest else VNil
      | None => VNil
      end
    | _ => VNil
    end
  end.

Inductive cmp_op := CEq | CNq | CGt | CGtq | CLt | CLtq | CBad.

Definition cmp_Z (o : cmp_op) (a b : Z) : bool :=
  match o with
  | CEq => a =? b | CNq => negb (a =? b) | CGt => b <? a | CGtq => b <=? a | CLt => a <? b | CLtq => a <=? b
  | CBad => false
  end.

Fixpoint bytes_compare (a b : bytes) : comparison :=
  match a, b with
  | [], [] => Eq
  | [], _ :: _ => Lt
  | _ :: _, [] => Gt
  | x :: a', y :: b' => match N.compare (b2n x) (b2n y) with Eq => bytes_compare a' b' | c => c end
  end.

Definition cmp_bytes_ord (o : cmp_op) (a b : bytes) : bool :=
  let c := bytes_compare a b in
  match o with
  | CEq => match c with Eq => true | _ => false end
  | CNq => match c with Eq => false | _ => true end
  | CGt => match c with Gt => true | _ => false end
  | CGtq => match c with Lt => false | _ => true end
  | CLt => match c with Lt => true | _ => false end
  | CLtq => match c with Gt => false | _ => true end
  | CBad => false
  end.

(* literal of a float comparison: the harness supplies the IEEE bits of strconv.ParseFloat(lit)
   next to the text (parsing decimal to binary is strconv's job, not dyntpl's) *)
Definition cmp_float (o : cmp_op) (a b : Z) : bool :=
  if f64_is_nan a || f64_is_nan b then match o with CNq => true | _ => false end
  else cmp_Z o (f64_key a) (f64_key b).

Definition parse_bool (s : bytes) : option bool :=
  if bytes_eqb s b_true || bytes_eqb s ["1"%byte] || bytes_eqb s ["t"%byte] || bytes_eqb s ["T"%byte]
     || bytes_eqb s ["T";"R";"U";"E"]%byte || bytes_eqb s ["T";"r";"u";"e"]%byte then Some true
  else if bytes_eqb s b_false || bytes_eqb s ["0"%byte] || bytes_eqb s ["f"%byte] || bytes_eqb s ["F"%byte]
     || bytes_eqb s ["F";"A";"L";"S";"E"]%byte || bytes_eqb s ["F";"a";"l";"s";"e"]%byte then Some false
  else None.

(* Compare on a leaf value against literal text [lit]; [flit] = bits of the literal read as a
   float when it parses as one.  Result: Some b = result written, None = result left untouched
   (absent leaf, unsupported kind, unparseable literal). *)
Definition leaf_cmp (static : bool) (bufLC : list Z) (v : value) (o : cmp_op) (lit : bytes) (flit : option Z) : option bool :=
  match v with
  | VInt z => option_map (cmp_Z o z) (parse_Z lit)
  | VCell i => option_map (cmp_Z o (nth i bufLC 0)) (parse_Z lit)
  | VUint z => match parse_Z lit with Some r => if r <? 0 then None else Some (cmp_Z o z r) | None => None end
  | VFloat bits _ => option_map (cmp_float o bits) flit
  | VStr s => Some (cmp_bytes_ord o s lit)
  (* bytes and bools know equality only; on an ordering operator the static inspector answers
     false, a generated inspector answers "not equal" *)
  | VBytes s => Some (match o with
                      | CEq => bytes_eqb s lit
                      | CNq => negb (bytes_eqb s lit)
                      | _ => if static then false else negb (bytes_eqb s lit)
                      end)
  | VBool b => option_map (fun r => match o with
                                    | CEq => Bool.eqb b r
                                    | CNq => negb (Bool.eqb b r)
                                    | _ => if static then false else negb (Bool.eqb b r)
                                    end) (parse_bool lit)
  | _ => None
  end.

(* Length / Capacity of the addressed value (len() / cap() conditions); None = error/unsupported *)
Definition leaf_len (v : value) : option Z :=
  match v with
  | VStr s | VBytes s => Some (Z.of_nat (length s))
  | VSlice l => Some (Z.of_nat (length l))
  | VMap kvs => Some (Z.of_nat (length kvs))
  | _ => None
  end.

(* Loop: the (key, element) pairs in delivery order; keys travel as decimal index / map key bytes *)
Definition ins_loop (v : value) : option (list (bytes * value)) :=
  match v with
  | VSlice l => Some (combine (map (fun i => print_Z (Z.of_nat i)) (seq 0 (length l))) l)
  | VMap kvs => Some kvs
  | VNil => Some []
  | _ => None
  end.
