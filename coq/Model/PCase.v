(* Parser correspondence cases: the tree the parser model builds from the bytes of a template,
   against the tree dumped from the real parser (or against the real parser's refusal). *)
From DT Require Import Model.Bytes Model.Tree Model.TreeEq Model.Regex Model.ParserRe Model.Parser Model.Preproc.

Inductive pmverdict := PMOk | PMBadTree | PMBadErr | PMFuel.

(* the real parser accepted [src] and built [dump] *)
Definition parsem_check (T : retab) (E : penv) (keep : bool) (src : bytes) (dump : tree) : pmverdict :=
  match parse T E keep src with
  | POk t => if tree_eqb t dump then PMOk else PMBadTree
  | PErr => PMBadErr
  | PFuel => PMFuel
  end.

(* the real parser refused [src] *)
Definition parsem_refused (T : retab) (E : penv) (keep : bool) (src : bytes) : pmverdict :=
  match parse T E keep src with
  | POk _ => PMBadTree
  | PErr => PMOk
  | PFuel => PMFuel
  end.

(* one expression on one subject, against regexp.FindSubmatchIndex *)
Definition re_check (r : re) (subject : bytes) (expect : option (list Z)) : bool :=
  match find_index r subject, expect with
  | None, None => true
  | Some a, Some b => if list_eq_dec Z.eq_dec a b then true else false
  | _, _ => false
  end.

(* the clean-up with the regenerated expressions against the hand-written clean-up of Model/Preproc.v *)
Definition preproc_agree (T : retab) (keep : bool) (src : bytes) : bool :=
  bytes_eqb (preprocess_re T keep src) (preprocess keep src).
