(* parser.go as a function from the bytes of a template to its tree: Parse, parseTpl,
   processCtl, processCond, parseCondExpr, parseCaseExpr, parseOp, extractMods, extractArgs;
   tree_node.go: addRaw, splitNodes, rollupSwitchNodes.

   The scan and the three nesting counters are those of Model/ParserSkel.v (the same
   definitions are used: [tokens], [target], [reached], [eq_zero]); this file adds what each tag
   turns into.  The regular expressions are a parameter (Model/ParserRe.v): the table of the
   code as it is now is regenerated from /repo's source on every run and the matcher is
   Model/Regex.v.  What the parser asks the library's registries while parsing (is this a
   registered modifier / global / variable with an inspector) is the parameter [penv]. *)
From DT Require Import Model.Bytes Model.Value Model.Tree Model.Regex Model.ParserRe Model.ParserSkel Model.Preproc.
Local Open Scope byte_scope.

Record penv := mkPenv {
  pe_mods : list bytes;      (* GetModFn(name) != nil *)
  pe_globals : list bytes;   (* GetGlobal(name) != nil *)
  pe_insvars : list bytes }. (* GetInsByVarName(name) succeeds *)

Definition mem_b (x : bytes) (l : list bytes) : bool := existsb (bytes_eqb x) l.

(* ---------------------------------------------------------------- byte helpers *)

Definition in_set (cut : bytes) (b : byte) : bool := existsb (beqb b) cut.

Fixpoint trim_l (cut s : bytes) : bytes :=
  match s with
  | c :: r => if in_set cut c then trim_l cut r else s
  | [] => []
  end.

(* bytealg.Trim *)
Definition trim_b (cut s : bytes) : bytes := rev (trim_l cut (rev (trim_l cut s))).

Definition sp : bytes := [" "].
Definition quotes : bytes := [x22; "'"; "`"].
Definition ctl_trim : bytes := ["{"; "}"; "%"; " "].
Definition ctl_trim_all : bytes := ["{"; "}"; "%"; "="; " "].
Definition space_cbe : bytes := ["}"; " "].

(* bytes.Split with a one-byte separator: always at least one chunk *)
Fixpoint split_on (sep : byte) (s : bytes) : list bytes :=
  match s with
  | [] => [[]]
  | c :: r =>
    match split_on sep r with
    | h :: t => if beqb c sep then [] :: h :: t else (c :: h) :: t
    | [] => [[c]]
    end
  end.

Definition contains_b (c : byte) (s : bytes) : bool := existsb (beqb c) s.

Definition last_is (c : byte) (s : bytes) : bool :=
  match rev s with x :: _ => beqb x c | [] => false end.

Definition B (s : list byte) : bytes := s.

Definition k_else := B ["e";"l";"s";"e"].
Definition k_endif := B ["e";"n";"d";"i";"f"].
Definition k_endfor := B ["e";"n";"d";"f";"o";"r"].
Definition k_break := B ["b";"r";"e";"a";"k"].
Definition k_lazybreak := B ["l";"a";"z";"y";"b";"r";"e";"a";"k"].
Definition k_continue := B ["c";"o";"n";"t";"i";"n";"u";"e"].
Definition k_default := B ["d";"e";"f";"a";"u";"l";"t"].
Definition k_endswitch := B ["e";"n";"d";"s";"w";"i";"t";"c";"h"].
Definition k_exit := B ["e";"x";"i";"t"].
Definition k_len := B ["l";"e";"n"].
Definition k_cap := B ["c";"a";"p"].
Definition k_true := B ["t";"r";"u";"e"].
Definition k_static := B ["s";"t";"a";"t";"i";"c"].
Definition k_raw := B ["r";"a";"w"].
Definition k_noesc := B ["n";"o";"e";"s";"c"].
Definition k_jq := B ["j";"s";"o";"n";"q";"u";"o";"t";"e"].
Definition k_he := B ["h";"t";"m";"l";"e";"s";"c";"a";"p";"e"].
Definition k_ue := B ["u";"r";"l";"e";"n";"c";"o";"d";"e"].
Definition k_end := B ["e";"n";"d"].
Definition k_endl := B ["e";"n";"d";"l"].
Definition k_nl := B ["n";"l"].
Definition k_lf := B ["l";"f"].
Definition k_bsn := B [x5c;"n"].
Definition k_cr := B ["c";"r"].
Definition k_bsr := B [x5c;"r"].
Definition k_crlf := B ["c";"r";"l";"f"].
Definition k_bsrn := B [x5c;"r";x5c;"n"].
Definition k_tab := B ["t";"a";"b"].
Definition k_bst := B [x5c;"t"].

Definition id_j := B ["j";"s";"o";"n";"E";"s";"c";"a";"p";"e"].
Definition id_q := B ["j";"s";"o";"n";"Q";"u";"o";"t";"e"].
Definition id_h := B ["h";"t";"m";"l";"E";"s";"c";"a";"p";"e"].
Definition id_l := B ["l";"i";"n";"k";"E";"s";"c";"a";"p";"e"].
Definition id_u := B ["u";"r";"l";"E";"n";"c";"o";"d";"e"].
Definition id_a := B ["a";"t";"t";"r";"E";"s";"c";"a";"p";"e"].
Definition id_c := B ["c";"s";"s";"E";"s";"c";"a";"p";"e"].
Definition id_js := B ["j";"s";"E";"s";"c";"a";"p";"e"].
Definition id_f := B ["f";"l";"o";"o";"r";"P";"r";"e";"c"].
Definition id_F := B ["c";"e";"i";"l";"P";"r";"e";"c"].

(* strconv.Atoi / ParseInt(.., 10, 64) on a string of digits; None = out of range *)
Definition max_int64 : Z := 9223372036854775807%Z.
Fixpoint digits_val (acc : Z) (s : bytes) : Z :=
  match s with
  | [] => acc
  | c :: r => digits_val (acc * 10 + Z.of_N (b2n c - 48))%Z r
  end.
Definition atoi (s : bytes) : option Z :=
  match s with
  | [] => None
  | _ => let v := digits_val 0 s in if (v <=? max_int64)%Z then Some v else None
  end.
(* i, _ := strconv.ParseInt(..): on a range error the value is the largest int64 *)
Definition parse_int_clamped (s : bytes) : Z :=
  match atoi s with Some v => v | None => match s with [] => 0%Z | _ => max_int64 end end.

Section WithTable.
  Variable T : retab.
  Variable E : penv.

  Definition is_static (s : bytes) : bool := re_match (t_isStaticRE T) s.

  (* FindSubmatch: the groups of the leftmost-first match, as a function from group numbers *)
  Definition find (r : re) (s : bytes) : option (nat -> bytes) :=
    match re_find r s with
    | Some cs => Some (grp s cs)
    | None => None
    end.

  Definition parse_op (s : bytes) : op :=
    if bytes_eqb s ["=";"="] then OpEq
    else if bytes_eqb s ["!";"="] then OpNq
    else if bytes_eqb s [">"] then OpGt
    else if bytes_eqb s [">";"="] then OpGtq
    else if bytes_eqb s ["<"] then OpLt
    else if bytes_eqb s ["<";"="] then OpLtq
    else if bytes_eqb s ["+";"+"] then OpInc
    else if bytes_eqb s ["-";"-"] then OpDec
    else OpUnk.

  (* ---------------------------------------------------------------- extractArgs *)

  Definition arg_of_chunk (nested : bool) (chunk : bytes) : list targ * bool :=
    let a := trim_b sp chunk in
    match a with
    | [] => ([], nested)
    | c0 :: a1 =>
      let '(a, nested) := if beqb c0 "{" then (a1, true) else (a, nested) in
      let out :=
        if nested then
          match split_on ":" a with
          | [k; v] =>
            let k := trim_b sp k in
            let v := trim_b space_cbe v in
            [mkArg (trim_b quotes k) (trim_b quotes v) (is_static v) false]
          | _ => []
          end
        else
          let v := trim_b quotes a in
          let v := if bytes_eqb v [x22; x22] then [] else v in
          [mkArg [] v (is_static a) (mem_b v (pe_globals E))] in
      (out, if last_is "}" a then false else nested)
    end.

  Fixpoint args_of_chunks (nested : bool) (chunks : list bytes) : list targ :=
    match chunks with
    | [] => []
    | c :: r => let '(out, nested') := arg_of_chunk nested c in out ++ args_of_chunks nested' r
    end.

  Definition extract_args (raw : bytes) : list targ :=
    match raw with
    | [] => []
    | _ => args_of_chunks false (split_on "," raw)
    end.

  (* ---------------------------------------------------------------- extractMods *)

  Fixpoint run_len (c : byte) (s : bytes) : nat :=
    match s with
    | x :: r => if beqb x c then S (run_len c r) else O
    | [] => O
    end.

  Definition letter_id (c : byte) : option bytes :=
    if beqb c "j" then Some id_j else if beqb c "q" then Some id_q
    else if beqb c "h" then Some id_h else if beqb c "l" then Some id_l
    else if beqb c "u" then Some id_u else if beqb c "a" then Some id_a
    else if beqb c "c" then Some id_c else if beqb c "J" then Some id_js
    else None.

  (* the loop over the letters in front of "=" *)
  Fixpoint letter_mods (fuel : nat) (outm : bytes) : list tmod :=
    match fuel with
    | O => []
    | S f =>
      match outm with
      | [] => []
      | c :: _ =>
        match letter_id c with
        | Some id =>
          let n := run_len c outm in
          mkMod id [mkArg [] (print_Z (Z.of_nat n)) true false] :: letter_mods f (skipn n outm)
        | None =>
          match find (t_reModPfxF T) outm with
          | Some g =>
            let here :=
              match g 1 with
              | x :: _ =>
                if beqb x "f" then [mkMod id_f [mkArg [] (g 2) true false]]
                else if beqb x "F" then [mkMod id_F [mkArg [] (g 2) true false]]
                else []
              | [] => []
              end in
            here ++ letter_mods f (skipn (length (g 2) + 2) outm)
          | None => letter_mods f (skipn 1 outm)
          end
        end
      end
    end.

  (* the modifiers after "|" (or a bare call): unknown names are skipped, raw/noesc set the flag *)
  Fixpoint chunk_mods (noesc : bool) (chunks : list bytes) : list tmod * bool :=
    match chunks with
    | [] => ([], noesc)
    | ch :: r =>
      match find (t_reMod T) ch with
      | Some g =>
        let name := g 1 in
        if mem_b name (pe_mods E) then
          if bytes_eqb name k_raw || bytes_eqb name k_noesc then chunk_mods true r
          else let '(ms, ne) := chunk_mods false r in (mkMod name (extract_args (g 2)) :: ms, ne)
        else chunk_mods noesc r
      | None => chunk_mods noesc r
      end
    end.

  (* (raw, mods, noesc) *)
  Definition extract_mods (t outm : bytes) : bytes * list tmod * bool :=
    let has_vline := contains_b "|" t in
    let mod_no_var := re_match (t_reModNoVar T) t && negb has_vline in
    if has_vline || mod_no_var || (match outm with [] => false | _ => true end) then
      let chunks := split_on "|" t in
      let '(ms, noesc) := chunk_mods false (if mod_no_var then chunks else skipn 1 chunks) in
      let ms := ms ++ letter_mods (S (length outm)) outm in
      if mod_no_var then ([], ms, noesc) else (hd [] chunks, ms, noesc)
    else (t, [], false).

  (* ---------------------------------------------------------------- conditions *)

  Definition trim_q (s : bytes) : bytes := match s with [] => [] | _ => trim_b quotes s end.

  (* parseCondExpr: (l, r, sl, sr, op) *)
  Definition parse_cond_expr (r : re) (expr : bytes) : bytes * bytes * bool * bool * op :=
    match find r expr with
    | None => ([], [], false, false, OpUnk)
    | Some g =>
      let l := trim_b sp (g 1) in
      match l with
      | "!" :: l' => (trim_q l', trim_q k_true, false, true, OpNq)
      | _ =>
        let rr := trim_b sp (g 3) in
        (trim_q l, trim_q rr, is_static l, is_static rr, parse_op (g 2))
      end
    end.

  Definition parse_case_expr (expr : bytes) : caseinfo :=
    match find (t_reSwitchCase T) expr with
    | None => no_case
    | Some g =>
      let l := trim_b sp (g 1) in
      let rr := trim_b sp (g 3) in
      mkCase (trim_q l) (trim_q rr) (is_static l) (is_static rr) (parse_op (g 2)) [] []
    end.

  Definition lc_of (h : bytes) : lcmode :=
    if bytes_eqb h k_len then LcLen else if bytes_eqb h k_cap then LcCap else LcNone.

  (* the part of processCond that fills the node; None = "too complex condition" *)
  Definition cond_info (ct : bytes) : option condinfo :=
    if re_match (t_reCondComplex T) ct then
      match find (t_reCondHelper T) ct with
      | Some g =>
        let '(l, r, sl, sr, o) := parse_cond_expr (t_reCondExpr T) ct in
        Some (mkCond l r sl sr o (g 1) (extract_args (g 2)) (lc_of (g 1)))
      | None => None
      end
    else
      let '(l, r, sl, sr, o) := parse_cond_expr (t_reCondExpr T) ct in
      Some (mkCond l r sl sr o [] [] LcNone).

  (* ---------------------------------------------------------------- tree_node.go *)

  Definition is_div (n : node) : bool := match n with NOther 16 => true | _ => false end.

  (* splitNodes: the groups between dividers; no node, no group; after a divider there is always a
     (possibly empty) last group: "{% else %}" with nothing behind it is an empty else branch *)
  Fixpoint split_nodes_go (seen : bool) (cur : list node) (l : list node) : list (list node) :=
    match l with
    | [] => match cur with [] => if seen then [[]] else [] | _ => [rev cur] end
    | n :: r => if is_div n then rev cur :: split_nodes_go true [] r else split_nodes_go seen (n :: cur) r
    end.
  Definition split_nodes (l : list node) : list (list node) := split_nodes_go false [] l.

  Definition cond_children (sub : list node) : list node :=
    match split_nodes sub with
    | [] => []
    | [a] => [NBlock BTrue no_case a]
    | a :: b :: _ => [NBlock BTrue no_case a; NBlock BFalse no_case b]
    end.

  Definition loop_children_p (sub : list node) : list node :=
    match split_nodes sub with
    | a :: b :: _ => [NBlock BTrue no_case a; NBlock BFalse no_case b]
    | _ => sub
    end.

  Definition is_group_head (n : node) : bool :=
    match n with NBlock BCase _ _ | NBlock BDefault _ _ => true | _ => false end.

  Definition add_child (g n : node) : node :=
    match g with NBlock k ci ch => NBlock k ci (ch ++ [n]) | _ => g end.

  Definition has_children (g : node) : bool :=
    match g with NBlock _ _ (_ :: _) => true | _ => false end.

  (* rollupSwitchNodes *)
  Fixpoint rollup_go (group : option node) (l : list node) : list node :=
    match l with
    | [] => match group with Some g => if has_children g then [g] else [] | None => [] end
    | n :: r =>
      if is_group_head n then
        match group with
        | Some g => g :: rollup_go (Some n) r
        | None => rollup_go (Some n) r
        end
      else
        match group with
        | Some g => rollup_go (Some (add_child g n)) r
        | None => rollup_go None r
        end
    end.
  Definition rollup (l : list node) : list node := rollup_go None l.

  (* ---------------------------------------------------------------- processCtl *)

  Inductive okind := KIf | KFor | KSwitch.

  Inductive ctl :=
  | CLeaf (n : node)                                 (* a node is added, no descent *)
  | COpen (k : okind) (mk : list node -> node)       (* descend; mk builds the node from the sub-list *)
  | CEnd (k : okind)                                 (* endif / endfor / endswitch *)
  | CBad.                                            (* error return *)

  Definition tpl_leaf (t outm : bytes) : node :=
    let '(raw, ms, ne) := extract_mods t outm in NTpl raw [] [] ne ms.

  Definition print_tag (ct : bytes) : option ctl :=
    if re_match (t_reTplPS T) ct || re_match (t_reTplP T) ct || re_match (t_reTplS T) ct ||
       re_match (t_reTpl T) ct || re_match (t_reTplCB T) ct || re_match (t_reTplTernary T) ct ||
       re_match (t_reTplTernaryHelper T) ct
    then Some (CLeaf
      match find (t_reTplTernary T) ct with
      | Some g =>
        let '(l, r, sl, sr, o) := parse_cond_expr (t_reTplTernaryCondExpr T) ct in
        NCond (mkCond l r sl sr o [] [] LcNone)
          [NBlock BTrue no_case [tpl_leaf (trim_b sp (g 5)) (g 1)];
           NBlock BFalse no_case [tpl_leaf (trim_b sp (g 6)) (g 1)]]
      | None =>
      match find (t_reTplTernaryHelper T) ct with
      | Some g =>
        NCond (mkCond [] [] false false OpUnk (g 2) (extract_args (g 3)) (lc_of (g 2)))
          [NBlock BTrue no_case [tpl_leaf (trim_b sp (g 4)) (g 1)];
           NBlock BFalse no_case [tpl_leaf (trim_b sp (g 5)) (g 1)]]
      | None =>
      match find (t_reTplPS T) ct with
      | Some g => let '(raw, ms, ne) := extract_mods (g 2) (g 1) in NTpl raw (g 3) (g 4) ne ms
      | None =>
      match find (t_reTplP T) ct with
      | Some g => let '(raw, ms, ne) := extract_mods (g 2) (g 1) in NTpl raw (g 3) [] ne ms
      | None =>
      match find (t_reTplS T) ct with
      | Some g => let '(raw, ms, ne) := extract_mods (g 2) (g 1) in NTpl raw [] (g 3) ne ms
      | None =>
      match find (t_reTpl T) ct with
      | Some g => tpl_leaf (trim_b ctl_trim_all (g 2)) (g 1)
      | None =>
      match find (t_reTplCB T) ct with
      | Some g => tpl_leaf (trim_b ctl_trim_all (g 0)) (g 1)
      | None => tpl_leaf (trim_b ctl_trim_all ct) []
      end end end end end end end)
    else None.

  Definition ctx_tag (ct : bytes) : option ctl :=
    if re_match (t_reCtx T) ct then
      let pick :=
        match find (t_reCtxAs T) ct with
        | Some g => Some (g, false, true)
        | None =>
        match find (t_reCtxDot T) ct with
        | Some g => Some (g, false, true)
        | None =>
        match find (t_reCtxS0 T) ct with
        | Some g => Some (g, true, false)
        | None =>
        match find (t_reCtxS1 T) ct with
        | Some g => Some (g, true, false)
        | None =>
        match find (t_reCtx T) ct with
        | Some g => Some (g, false, false)
        | None => None
        end end end end end in
      match pick with
      | Some (g, force, has4) =>
        let '(src, ms, _) := extract_mods (g 3) [] in
        let ins :=
          match (if has4 then g 4 else []) with
          | (_ :: _) as i => i
          | [] => if mem_b (g 1) (pe_insvars E) then [] else k_static
          end in
        Some (CLeaf (NCtx (g 1) src (g 2) ins (is_static src || force) ms))
      | None => Some CBad
      end
    else None.

  Definition counter_tag (ct : bytes) : option ctl :=
    if re_match (t_reCntr T) ct then
      Some
      match find (t_reCntrInit T) ct with
      | Some g =>
        match atoi (g 2) with
        | Some i => CLeaf (NCounter (g 1) true i OpUnk 0)
        | None => CBad
        end
      | None =>
      match find (t_reCntrOp0 T) ct with
      | Some g => CLeaf (NCounter (g 1) false 0 (if bytes_eqb (g 2) ["-";"-"] then OpDec else OpInc) 1)
      | None =>
      match find (t_reCntrOp1 T) ct with
      | Some g =>
        match atoi (skipn 1 (g 2)) with
        | Some a => CLeaf (NCounter (g 1) false 0 (match g 2 with "-" :: _ => OpDec | _ => OpInc end) a)
        | None => CBad
        end
      | None => CLeaf (NCounter [] false 0 OpUnk 0)
      end end end
    else None.

  Definition condok_tag (ct : bytes) : option ctl :=
    if re_match (t_reCondOK T) ct then
      let pick :=
        match find (t_reCondAsOK T) ct with
        | Some g => Some g
        | None =>
        match find (t_reCondDotOK T) ct with
        | Some g => Some g
        | None => find (t_reCondOK T) ct
        end end in
      match pick with
      | Some g =>
        let '(l, r, sl, sr, o) := parse_cond_expr (t_reCondExprOK T) ct in
        Some (COpen KIf (fun sub =>
          NCondOK (mkOk (g 1) (g 2) (g 5)) (mkCond l r sl sr o (g 3) (extract_args (g 4)) LcNone) (cond_children sub)))
      | None => Some CBad
      end
    else None.

  Definition loop_tag (ct : bytes) : option ctl :=
    if re_match (t_reLoop T) ct then
      Some
      match find (t_reLoopRange T) ct with
      | Some g =>
        let '(key, val) :=
          if contains_b "," (g 1) then
            let kv := split_on "," (g 1) in
            let k := trim_b sp (nth 0 kv []) in
            ((if bytes_eqb k ["_"] then [] else k), trim_b sp (nth 1 kv []))
          else (trim_b sp (g 1), []) in
        COpen KFor (fun sub => NLoopRange key val (g 2) (g 3) (loop_children_p sub))
      | None =>
      match find (t_reLoopCount T) ct with
      | Some g =>
        COpen KFor (fun sub =>
          NLoopCount (g 1) (g 2) (g 4) (g 6) (is_static (g 2)) (is_static (g 4)) (parse_op (g 3)) (parse_op (g 5))
                     (loop_children_p sub))
      | None => CBad
      end end
    else None.

  (* {% break N if c %} and its relatives: (expression, node type, group of the condition, has a depth) *)
  Definition xif_one (r : re) (lazy cont : bool) (gi : nat) (has_n : bool) (ct : bytes) : option ctl :=
    match find r ct with
    | Some g =>
      Some
      match cond_info (g gi) with
      | Some ci =>
        let d := if has_n then (let i := parse_int_clamped (g 1) in if (0 <? i)%Z then i else 0%Z) else 0%Z in
        CLeaf (NCond ci [if cont then NContinue else if lazy then NLBreak d else NBreak d])
      | None => CBad
      end
    | None => None
    end.

  Definition first_some {A} (l : list (option A)) : option A :=
    fold_right (fun x acc => match x with Some _ => x | None => acc end) None l.

  Definition brk_depth (s : bytes) : Z :=
    let i := parse_int_clamped s in if (0 <? i)%Z then i else 0%Z.

  Definition eq_any (ct : bytes) (l : list bytes) : bool := existsb (bytes_eqb ct) l.

  (* processCtl on the slice between (and including) the delimiters *)
  Definition process_tag (ctlb : bytes) : ctl :=
    let ct := trim_b ctl_trim ctlb in
    match print_tag ct with Some c => c | None =>
    match ctx_tag ct with Some c => c | None =>
    match counter_tag ct with Some c => c | None =>
    match condok_tag ct with Some c => c | None =>
    if bytes_eqb ct k_else then CLeaf (NOther 16)
    else if bytes_eqb ct k_endif then CEnd KIf
    else
    match loop_tag ct with Some c => c | None =>
    if bytes_eqb ct k_endfor then CEnd KFor
    else
    match first_some
            [xif_one (t_reLoopLBrkNIf T) true false 2 true ct;
             xif_one (t_reLoopLBrkIf T) true false 1 false ct;
             xif_one (t_reLoopBrkNIf T) false false 2 true ct;
             xif_one (t_reLoopBrkIf T) false false 1 false ct;
             xif_one (t_reLoopContIf T) false true 1 false ct] with
    | Some c => c
    | None =>
    match find (t_reLoopLBrkN T) ct with
    | Some g => CLeaf (NLBreak (brk_depth (g 1)))
    | None =>
    if bytes_eqb ct k_lazybreak then CLeaf (NLBreak 0)
    else
    match find (t_reLoopBrkN T) ct with
    | Some g => CLeaf (NBreak (brk_depth (g 1)))
    | None =>
    if bytes_eqb ct k_break then CLeaf (NBreak 0)
    else if bytes_eqb ct k_continue then CLeaf NContinue
    else if re_match (t_reCond T) ct then
      match cond_info ct with
      | Some ci => COpen KIf (fun sub => NCond ci (cond_children sub))
      | None => CBad
      end
    else
    match find (t_reSwitch T) ct with
    | Some g => COpen KSwitch (fun sub => NSwitch (g 1) (rollup sub))
    | None =>
    match find (t_reSwitchCaseHelper T) ct with
    | Some g => CLeaf (NBlock BCase (mkCase [] [] false false OpUnk (g 1) (extract_args (g 2))) [])
    | None =>
    if re_match (t_reSwitchCase T) ct then CLeaf (NBlock BCase (parse_case_expr ct) [])
    else if bytes_eqb ct k_default then CLeaf (NBlock BDefault no_case [])
    else if bytes_eqb ct k_endswitch then CEnd KSwitch
    else if bytes_eqb ct k_exit then CLeaf NExit
    else if eq_any ct [k_endl; k_nl; k_bsn; k_lf] then CLeaf (NRaw [x0a])
    else if eq_any ct [k_cr; k_bsr] then CLeaf (NRaw [x0d])
    else if eq_any ct [k_crlf; k_bsrn] then CLeaf (NRaw [x0d; x0a])
    else if eq_any ct [k_tab; k_bst] then CLeaf (NRaw [x09])
    else if bytes_eqb ct k_jq then CLeaf (NFlag FJson true)
    else if bytes_eqb ct (k_end ++ k_jq) then CLeaf (NFlag FJson false)
    else if bytes_eqb ct k_he then CLeaf (NFlag FHtml true)
    else if bytes_eqb ct (k_end ++ k_he) then CLeaf (NFlag FHtml false)
    else if bytes_eqb ct k_ue then CLeaf (NFlag FUrl true)
    else if bytes_eqb ct (k_end ++ k_ue) then CLeaf (NFlag FUrl false)
    else
    match find (t_reInc T) ct with
    | Some g => CLeaf (NInclude (split_on " " (g 1)))
    | None => CBad
    end end end end end end end end end end end.

  (* ---------------------------------------------------------------- parseTpl *)

  Definition inc_k (k : okind) (p : target) : target :=
    match k with KIf => inc_cc p | KFor => inc_cl p | KSwitch => inc_cs p end.
  Definition dec_k (k : okind) (p : target) : target :=
    match k with KIf => dec_cc p | KFor => dec_cl p | KSwitch => dec_cs p end.

  (* (err, live counters, tokens left, nodes of this level) ; None = out of fuel *)
  Definition nres := (bool * target * list tok * list node)%type.

  Fixpoint parse_nodes (fuel : nat) (t p : target) (inp : list tok) (acc : list node) : option nres :=
    match fuel with
    | O => None
    | S f =>
      if negb (reached t p) || eq_zero t then
        match inp with
        | [] => Some (negb (reached t p), p, [], acc)
        | TRawT s :: rest => parse_nodes f t p rest (acc ++ [NRaw s])
        | tk :: rest =>
          match process_tag (tok_text tk) with
          | CLeaf n => parse_nodes f t p rest (acc ++ [n])
          | CBad => Some (true, p, rest, acc)
          | CEnd k => let p' := dec_k k p in Some (negb (reached t p'), p', rest, acc)
          | COpen k mk =>
            match parse_nodes f p (inc_k k p) rest [] with
            | None => None
            | Some (err, p2, rest', sub) =>
              if err then Some (true, p2, rest', acc)
              else parse_nodes f t p2 rest' (acc ++ [mk sub])
            end
          end
        end
      else Some (false, p, inp, acc)
    end.

  Inductive presult := POk (t : tree) | PErr | PFuel.

  (* Parse after the clean-up *)
  Definition parse_clean (s : bytes) : presult :=
    match tokens s with
    | None => PErr
    | Some toks =>
      match parse_nodes (S (length toks)) zero_target zero_target toks [] with
      | Some (false, _, _, nodes) => POk nodes
      | Some (true, _, _, _) => PErr
      | None => PFuel
      end
    end.

  (* cutComments, cutFmt: with the expressions of the table (Model/Preproc.v is the same clean-up
     written out by hand for the pinned expressions; PreprocProofs.v is about that one) *)
  Definition preprocess_re (keep_fmt : bool) (src : bytes) : bytes :=
    let s1 := delete_all (t_reCutComments T) src in
    if keep_fmt then s1 else trim_b [" "; x09; x0a] (delete_all (t_reCutFmt T) s1).

  Definition parse (keep_fmt : bool) (src : bytes) : presult :=
    parse_clean (preprocess_re keep_fmt src).

  (* the classification the nesting model (ParserSkel) is stated over, read off this parser *)
  Definition classify (ctlb : bytes) : tag :=
    match process_tag ctlb with
    | CBad => Bad
    | CEnd KIf => EndIf | CEnd KFor => EndFor | CEnd KSwitch => EndSwitch
    | COpen KIf _ => OpenIf | COpen KFor _ => OpenFor | COpen KSwitch _ => OpenSwitch
    | CLeaf (NOther 16) => ElseT
    | CLeaf (NBlock BCase _ _) => CaseT
    | CLeaf (NBlock BDefault _ _) => DefaultT
    | CLeaf _ => Leaf
    end.
End WithTable.
