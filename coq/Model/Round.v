(* mod_builtin.go: roundHelper and the six rounding modifiers
   (round, roundPrec, ceil, ceilPrec, floor, floorPrec), together with the parts of the Go
   runtime they use: math.Round / Floor / Ceil, math.Pow10, float64 multiply / divide and the
   conversions float64 -> int -> float64.

   Floats are Flocq's executable IEEE-754 binary64 with a single NaN
   (IEEE754.BinarySingleNaN.binary_float 53 1024): everything below computes by vm_compute
   from IEEE bit patterns.  NaN payloads are NOT modelled: every NaN result is the one
   quiet NaN 0x7FF8000000000000 (compare NaN-ness only). *)
From Coq Require Import ZArith Bool SpecFloat.
From Flocq Require Import Core.Core IEEE754.BinarySingleNaN IEEE754.Binary IEEE754.Bits.
Local Open Scope Z_scope.

Definition f64 : Type := BinarySingleNaN.binary_float 53 1024.

Definition Hprec53 : FLX.Prec_gt_0 53 := eq_refl.
Definition Hemax1024 : Prec_lt_emax 53 1024 := eq_refl.

(* ---- IEEE bit patterns (Z in [0, 2^64)) ---- *)
Definition of_bits (z : Z) : f64 := B2BSN 53 1024 (b64_of_bits z).
Definition to_bits (f : f64) : Z := bits_of_b64 (BSN2B 53 1024 default_nan_pl64 f).

(* ---- float64 arithmetic of the Go code: round to nearest even ---- *)
Definition fmul : f64 -> f64 -> f64 := @BinarySingleNaN.Bmult 53 1024 Hprec53 Hemax1024 mode_NE.
Definition fdiv : f64 -> f64 -> f64 := @BinarySingleNaN.Bdiv 53 1024 Hprec53 Hemax1024 mode_NE.

(* float64(z) for an integer z: correctly rounded, +0 for 0 *)
Definition of_Z (z : Z) : f64 := BinarySingleNaN.binary_normalize 53 1024 Hprec53 Hemax1024 mode_NE z 0 false.

(* ---- math.Floor / Ceil / Round, and truncation ----
   NaN, +-Inf and +-0 are returned unchanged and the sign is kept (Ceil(-0.5) = -0,
   Round(-0.3) = -0), which is what the Go functions do. *)
Definition go_floor : f64 -> f64 := @BinarySingleNaN.Bnearbyint 53 1024 Hemax1024 mode_DN.
Definition go_ceil  : f64 -> f64 := @BinarySingleNaN.Bnearbyint 53 1024 Hemax1024 mode_UP.
Definition go_trunc : f64 -> f64 := @BinarySingleNaN.Bnearbyint 53 1024 Hemax1024 mode_ZR.
(* math.Round: half away from zero *)
Definition go_round : f64 -> f64 := @BinarySingleNaN.Bnearbyint 53 1024 Hemax1024 mode_NA.

(* ---- int(f) and float64(int(f)) ----
   Go leaves the conversion of NaN, +-Inf and values outside int64 implementation-defined;
   on amd64 (CVTTSD2SQ) the result is the "integer indefinite" -2^63, which is what is
   modelled.  [in_int64_range] is the guard under which the conversion is the mathematical
   truncation on every platform. *)
Definition min_int64 : Z := - 2 ^ 63.
Definition in_int64_range (v : f64) : bool :=
  BinarySingleNaN.is_finite v && (min_int64 <=? BinarySingleNaN.Btrunc v) && (BinarySingleNaN.Btrunc v <? 2 ^ 63).
Definition go_int (v : f64) : Z := if in_int64_range v then BinarySingleNaN.Btrunc v else min_int64.
(* float64(int(v)): note that the sign of zero is lost (int(-0.3) = 0 -> +0) *)
Definition go_float_of_int (v : f64) : f64 := of_Z (go_int v).

(* ---- math.Pow10 ----
   pow10tab[k] = 1e<k> (k < 32), pow10postab32[j] = 1e<32 j>, pow10negtab32[j] = 1e-<32 j>:
   Go float constants, i.e. the correctly rounded binary64 of the decimal value. *)
Definition pow10tab (k : Z) : f64 := of_Z (10 ^ k).
Definition pow10postab32 (j : Z) : f64 := of_Z (10 ^ (32 * j)).
Definition pow10negtab32_bits (j : Z) : Z :=
  match j with
  | 0 => 0x3ff0000000000000
  | 1 => 0x3949f623d5a8a733
  | 2 => 0x32a50ffd44f4a73d
  | 3 => 0x2c0116805effaeaa
  | 4 => 0x255bba08cf8c979d
  | 5 => 0x1eb67e9c127b6e74
  | 6 => 0x18123ff06eea847a
  | 7 => 0x116d9ca79d89462a
  | 8 => 0x0ac8062864ac6f43
  | 9 => 0x04237d99cc506d59
  | _ => 0x00000000000007e8
  end.
Definition pow10negtab32 (j : Z) : f64 := of_bits (pow10negtab32_bits j).

Definition pow10 (n : Z) : f64 :=
  if (0 <=? n) && (n <=? 308) then fmul (pow10postab32 (n / 32)) (pow10tab (n mod 32))
  else if (-323 <=? n) && (n <=? 0) then fdiv (pow10negtab32 ((- n) / 32)) (pow10tab ((- n) mod 32))
  else if 0 <? n then BinarySingleNaN.B754_infinity false
  else BinarySingleNaN.B754_zero false.

(* ---- roundHelper ---- *)
Inductive rmode := Round | RoundPrec | Ceil | CeilPrec | Floor | FloorPrec.

Definition is_prec_mode (m : rmode) : bool :=
  match m with RoundPrec | CeilPrec | FloorPrec => true | _ => false end.

(* [prec] is the int64 argument (0 when the modifier has no argument) *)
Definition round_helper (m : rmode) (prec : Z) (x : f64) : f64 :=
  match m with
  | Round => go_round x
  | Ceil  => go_ceil x
  | Floor => go_floor x
  | RoundPrec =>
      if prec =? 0 then x else
      let p := pow10 prec in fdiv (go_float_of_int (fmul x p)) p
  | CeilPrec =>
      if prec =? 0 then x else
      let p := pow10 prec in fdiv (go_ceil (fmul p x)) p
  | FloorPrec =>
      if prec =? 0 then x else
      let p := pow10 prec in fdiv (go_floor (fmul p x)) p
  end.

(* ---- bits interface for the harness ---- *)
Definition round_bits (m : rmode) (prec : Z) (bits : Z) : Z :=
  to_bits (round_helper m prec (of_bits bits)).

(* the int64 guard of roundPrec on bit patterns (false: platform-dependent result) *)
Definition round_prec_guard_bits (prec : Z) (bits : Z) : bool :=
  (prec =? 0) || in_int64_range (fmul (of_bits bits) (pow10 prec)).

(* ---- exactness test for the product  a * b  (used to classify cases) ----
   true iff no rounding happened in [fmul a b] (both finite): the integers
   ma * mb * 2^(ea+eb)  and  mc * 2^ec  are compared after aligning the exponents. *)
Definition fmul_exact_b (a b : f64) : bool :=
  match BinarySingleNaN.B2SF a, BinarySingleNaN.B2SF b with
  | S754_zero _, S754_zero _ | S754_zero _, S754_finite _ _ _ | S754_finite _ _ _, S754_zero _ => true
  | S754_finite sa ma ea, S754_finite sb mb eb =>
      match BinarySingleNaN.B2SF (fmul a b) with
      | S754_finite sc mc ec =>
          let k := Z.min (ea + eb) ec in
          (cond_Zopp sa (Z.pos ma) * cond_Zopp sb (Z.pos mb) * 2 ^ (ea + eb - k)
           =? cond_Zopp sc (Z.pos mc) * 2 ^ (ec - k))
      | _ => false
      end
  | _, _ => false
  end.

(* on bit patterns: is the scaling product of the precision mode m exact? *)
Definition prec_product_exact_bits (m : rmode) (prec : Z) (bits : Z) : bool :=
  match m with
  | RoundPrec => fmul_exact_b (of_bits bits) (pow10 prec)
  | CeilPrec | FloorPrec => fmul_exact_b (pow10 prec) (of_bits bits)
  | _ => true
  end.
