(* mod_uri.go: modURLEncode, modLinkEscape.  The code is a per-byte loop that
   appends one token per input byte; the model is the same loop as flat_map. *)
From DT Require Import Model.Bytes.
Local Open Scope byte_scope.

Definition url_unreserved (b : byte) : bool :=
  is_alnum b || beqb b "-" || beqb b "." || beqb b "_".

Definition url_tok (b : byte) : bytes :=
  if url_unreserved b then [b]
  else if beqb b " " then ["+"]
  else ["%"; hex_up_digit (N.shiftr (b2n b) 4); hex_up_digit (N.land (b2n b) 15)].

Definition url_encode (s : bytes) : bytes := flat_map url_tok s.

Definition link_tok (b : byte) : bytes :=
  if beqb b """" then ["\"; """"]
  else if beqb b " " then ["+"]
  else [b].

Definition link_escape (s : bytes) : bytes := flat_map link_tok s.

(* The modifier wrapper shared by all byte-level escapers:
   empty input -> nothing is produced (the value stays what it was, i.e. empty);
   otherwise [itr] passes, each over the previous result. itr <= 0 means no pass. *)
Definition esc_iter (f : bytes -> bytes) (itr : Z) (s : bytes) : bytes :=
  match s with
  | [] => []
  | _ => repeat_app f (Z.to_nat itr) s
  end.

Definition mod_url_encode := esc_iter url_encode.
Definition mod_link_escape := esc_iter link_escape.
