(* Byte strings and closed 256-element sweeps. *)
From Coq Require Export List NArith ZArith Lia Bool.
From Coq Require Export Strings.Byte.
Export ListNotations.

Definition bytes := list byte.

Definition all_bytes : list byte := map (fun n => match Byte.of_N (N.of_nat n) with Some b => b | None => x00 end) (seq 0 256).

Definition b2n (b : byte) : N := Byte.to_N b.
Definition n2b (n : N) : byte := match Byte.of_N n with Some b => b | None => x00 end.

Definition beqb (a b : byte) : bool := Byte.eqb a b.

Fixpoint bytes_eqb (a b : bytes) : bool :=
  match a, b with
  | [], [] => true
  | x :: a', y :: b' => Byte.eqb x y && bytes_eqb a' b'
  | _, _ => false
  end.

(* ASCII classes on the numeric value *)
Definition in_range (lo hi : N) (b : byte) : bool := (lo <=? b2n b)%N && (b2n b <=? hi)%N.
Definition is_lower b := in_range 97 122 b.
Definition is_upper b := in_range 65 90 b.
Definition is_digit b := in_range 48 57 b.
Definition is_alnum b := is_lower b || is_upper b || is_digit b.

Definition hex_up_digit (n : N) : byte :=
  n2b (if (n <? 10)%N then 48 + n else 55 + n)%N.
Definition hex_lo_digit (n : N) : byte :=
  n2b (if (n <? 10)%N then 48 + n else 87 + n)%N.
Definition hex_val (b : byte) : option N :=
  let n := b2n b in
  if in_range 48 57 b then Some (n - 48)%N
  else if in_range 65 70 b then Some (n - 55)%N
  else if in_range 97 102 b then Some (n - 87)%N
  else None.

Fixpoint repeat_app {A} (f : A -> A) (n : nat) (x : A) : A :=
  match n with O => x | S k => repeat_app f k (f x) end.
