#!/usr/bin/env python3
"""fixcommit.py <message-file> <edits.json>: applies exact replacements in /repo, builds, runs the
unedited test suite, commits as one 'fix:' commit.  edits.json = [[file, old, new], ...]"""
import json, subprocess, sys, os
msg = open(sys.argv[1]).read()
edits = json.load(open(sys.argv[2]))
env = dict(os.environ, GOFLAGS="-mod=mod", GOPROXY="off", GOSUMDB="off", GOTOOLCHAIN="local")
for f, old, new in edits:
    p = os.path.join("/repo", f)
    s = open(p).read()
    if s.count(old) != 1:
        print("EDIT DOES NOT APPLY EXACTLY ONCE:", f, repr(old[:80]), s.count(old)); subprocess.run(["git","-C","/repo","checkout","--","."]); sys.exit(1)
    open(p, "w").write(s.replace(old, new))
r = subprocess.run("gofmt -l . ; go build ./... && go build -tags verif ./... && go test -vet=off -count=1 ./...", shell=True, cwd="/repo", env=env, capture_output=True, text=True)
print(r.stdout[-600:], r.stderr[-600:])
if r.returncode != 0 or "FAIL" in r.stdout:
    print("BUILD/TEST FAILED; reverting"); subprocess.run(["git","-C","/repo","checkout","--","."]); sys.exit(1)
subprocess.run(["git","-C","/repo","commit","-qam",msg], check=True)
print(subprocess.run(["git","-C","/repo","log","--oneline","-1"],capture_output=True,text=True).stdout)
