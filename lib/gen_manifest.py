#!/usr/bin/env python3
"""Regenerates MANIFEST.json from lib/props.py (claimed checks) and properties.jsonl."""
import json, os, sys
sys.path.insert(0, os.path.dirname(os.path.abspath(__file__)))
from props import PROPS
V = os.path.dirname(os.path.dirname(os.path.abspath(__file__)))
all_ids = [json.loads(l)["id"] for l in open(os.path.join(V, "properties.jsonl"))]
NA_REASONS = json.load(open(os.path.join(V, "lib", "not_applicable.json"))) if os.path.exists(os.path.join(V, "lib", "not_applicable.json")) else {}
checks = []
for pid in all_ids:
    if pid not in PROPS:
        continue
    s = PROPS[pid]
    checks.append({
        "property_id": pid,
        "quick_cmd": "./check %s quick" % pid,
        "thorough_cmd": "./check %s thorough" % pid,
        "evidence_file": "/verif/evidence/%s.json" % pid,
        "replay_cmd_template": "./check %s --replay {path}" % pid,
        "engine": "rocq-model+correspondence",
        "level_claimed": {"category": "proof", "text": s["level_text"], "design_ref": "DESIGN.md section " + s["design_ref"]},
        "level_note": s["level_note"],
        "technique": s["technique"],
    })
na = [{"property_id": pid, "reason": NA_REASONS.get(pid, "check not built yet in this build phase (planned, see DESIGN.md section 9); nothing is claimed for it until its theorem and correspondence run exist")}
      for pid in all_ids if pid not in PROPS]
m = {
    "version": 1,
    "setup_cmd": "./setup.sh",
    "hooks": {
        "guard": "verif",
        "enable": "go build -tags verif (one add-only file /repo/verif_hooks.go)",
        "baseline_off_cmd": "cd /repo && GOFLAGS=-mod=mod GOPROXY=off GOSUMDB=off go test -json -vet=off -count=1 -timeout 25m ./...",
        "source_commits": json.load(open(os.path.join(V, "lib", "hook_commits.json"))) if os.path.exists(os.path.join(V, "lib", "hook_commits.json")) else [],
        "add_only": True,
    },
    "engines": [{"name": "rocq-model+correspondence", "path": "/verif/check",
                 "serves_properties": [c["property_id"] for c in checks],
                 "kind_free_text": "Coq 8.16.1 development under /verif/coq (model, specification, proofs, property theorems) + Go harness under /verif/harness that runs the real engine and the model (extracted OCaml driver or cases.v/vm_compute) on the same inputs"}],
    "checks": checks,
    "not_applicable": na,
    "notes": "All checks: exit 0 = held, exit 1 + VIOLATION line, exit 2 = infrastructure error. Known findings: /verif/known_findings.txt.",
}
json.dump(m, open(os.path.join(V, "MANIFEST.json"), "w"), indent=1)
print("MANIFEST.json: %d checks, %d not_applicable" % (len(checks), len(na)))
