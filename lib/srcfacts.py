"""Source facts regenerated from /repo on every run, and the theorems re-checked over them."""
import os, re, shutil, subprocess

THEOREMS = {
    "C06": ["db_methods_locked", "db_methods_present", "render_path_readonly"],
    "C05": ["ctx_fields_classified", "ctx_fields_present", "reset_touches_cleared", "reset_truncates_stores",
            "setters_leave_one_representation", "slot_blocks_present", "ctxvar_fields_known"],
    "C15": ["setters_leave_one_representation", "slot_blocks_present", "ctxvar_fields_known"],
    "C13": ["node_types_all_modelled", "error_values_all_classified"],
    "C17": ["error_values_all_classified"],
    "C11": ["registered_mods_all_accounted", "registered_mods_present"],
    "C20": ["registered_mods_all_accounted", "registered_mods_present"],
    "C19": ["ctx_fields_classified", "ctx_fields_present"],
}


def check(prop, verif, coq, repo, build, goenv, work, vh):
    d = os.path.join(work, "srcfacts")
    os.makedirs(d, exist_ok=True)
    p = subprocess.run([vh, "-prop", "SRCFACTS", "-work", d, "-verif", verif], cwd=verif, env=goenv, capture_output=True, text=True, timeout=300)
    if p.returncode != 0 or not os.path.exists(os.path.join(d, "SrcFacts.v")):
        return False, "source-fact extraction failed: " + (p.stdout + p.stderr)[-1500:], THEOREMS.get(prop, [])
    # only this property's theorems are re-checked (the definitions stay): a fact that no longer
    # holds alarms the properties that rely on it, not every property that has source facts
    text = open(os.path.join(coq, "Gen", "SrcFactsCheck.v")).read()
    keep = set(THEOREMS.get(prop, []))
    def strip(m):
        return m.group(0) if m.group(1) in keep else "(* theorem %s: not among the source facts of %s *)\n" % (m.group(1), prop)
    text = re.sub(r"(?ms)^Theorem (\w+)\b.*?^Proof\..*?Qed\.\n", strip, text)
    missing = [t for t in keep if ("Theorem %s " % t) not in text and ("Theorem %s:" % t) not in text]
    if missing:
        return False, "source-fact theorems not found in Gen/SrcFactsCheck.v: %s" % missing, THEOREMS.get(prop, [])
    open(os.path.join(d, "SrcFactsCheck.v"), "w").write(text)
    for f in ("SrcFacts.v", "SrcFactsCheck.v"):
        p = subprocess.run(["timeout", "300", "coqc", "-Q", ".", "Gen", f], cwd=d, capture_output=True, text=True)
        if p.returncode != 0:
            facts = open(os.path.join(d, "SrcFacts.v")).read()
            return False, ("a theorem over the facts regenerated from /repo's source no longer checks (%s):\n%s\n--- generated facts ---\n%s"
                           % (f, (p.stdout + p.stderr)[-1500:], facts[-2500:])), THEOREMS.get(prop, [])
    return True, "", THEOREMS.get(prop, [])
