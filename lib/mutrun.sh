#!/bin/bash
# mutrun.sh <dir with patch.diff> <prop> [tier] [seed]: build the harness against /repo with the
# seeded change applied (reverted straight afterwards) and run one property's runner directly
# (no proof stage).  Development aid for strengthening generators; lib/confirm_seed.sh is what
# records a seeded change.
set -u
IN=$1; PROP=$2; TIER=${3:-quick}; SEED=${4:-1}
export GOFLAGS=-mod=mod GOPROXY=off GOSUMDB=off GOTOOLCHAIN=local
TAG=$(echo "$IN-$PROP" | tr '/' '_')
BIN=/tmp/vh-mut-$TAG
git -C /repo apply $IN/patch.diff || { echo "patch does not apply"; exit 3; }
(cd /verif/harness && cp /repo/go.sum . && go build -tags verif -o $BIN .); B=$?
git -C /repo checkout -- .
[ $B -ne 0 ] && { echo "build failed"; exit 2; }
W=/verif/work/mut-$TAG; mkdir -p $W
(ulimit -v 12000000; timeout 3000 $BIN -prop $PROP -tier $TIER -seed $SEED -work $W -coq /verif/coq -verif /verif -driver /verif/build/ocaml/driver >/dev/null 2>&1)
python3 - "$W" "$IN" "$PROP" "$TIER" <<'PY'
import json,sys
W,IN,P,T=sys.argv[1:]
try:
    r=json.load(open(W+'/result.json'))
    print(IN,P,T,'evals',r['evaluations'],'mismatch',r.get('correspondence_mismatches'),'oracle',r.get('oracle_failures'),'violations',len(r['violations']),(r.get('infra_error') or '')[:200])
    for v in r['violations'][:2]: print('   ',v['class'],v['what'][:300])
except Exception as e:
    print(IN,P,T,'NO RESULT',e)
PY
rm -rf $W $BIN
