#!/bin/bash
# seed_regress.sh [tier] [budget-minutes]: re-run the registered check of the confirmed seeded
# changes under /verif/seeded/<id>/ against /repo's HEAD with that change applied (applied, checked,
# reverted straight afterwards), newest rounds first, until the time budget is used up, and write
# /verif/seeded/RESULTS.md.  Seeds whose patch no longer applies to HEAD (a later "fix:" commit
# rewrote the lines) and seeds not reached within the budget are listed with the outcome recorded
# when they were confirmed (meta.json).
set -u
export VERIF_NO_EVIDENCE=1
TIER=${1:-quick}
BUDGET=$(( ${2:-120} * 60 ))
START=$(date +%s)
cd /verif
if [ -n "$(git -C /repo status --short)" ]; then echo "/repo is not clean"; exit 2; fi
OUT=/verif/seeded/RESULTS.md
HEAD=$(git -C /repo rev-parse --short HEAD)
TMP=$(mktemp)
# newest rounds first: ids look like C07-r9m1, C07-r2m2, C07-m1 (round 1)
ls -d /verif/seeded/C*/ | xargs -n1 basename | python3 -c "
import sys,re
ids=[l.strip() for l in sys.stdin if l.strip()]
def key(i):
    m=re.search(r'-r(\d+)m',i); return (-(int(m.group(1)) if m else 1), i)
import os
skip=os.environ.get('SEED_SKIP','')
if skip: ids=[i for i in ids if not re.search(skip,i)]
print('\n'.join(sorted(ids,key=key)))" > $TMP
{
echo "# Seeded changes against the checks (lib/seed_regress.sh $TIER; /repo HEAD $HEAD)"
echo
echo "Re-run = the change was applied to /repo at this HEAD, the registered check run, the change reverted."
echo "Recorded = outcome stored in the seed's meta.json when it was confirmed (on the HEAD of that time)."
echo
echo "| seed | property | what was changed | how judged | result | first violation reported |"
echo "|---|---|---|---|---|---|"
} > $OUT
while read ID; do
  d=/verif/seeded/$ID
  [ -f $d/patch.diff ] || continue
  PROP=$(python3 -c "import json;print(json.load(open('$d/meta.json')).get('property','${ID%%-*}'))")
  SUMMARY=$(python3 -c "import json;print(json.load(open('$d/meta.json')).get('summary','').replace('|','/').replace('\n',' ')[:200])")
  REC=$(python3 -c "
import json
m=json.load(open('$d/meta.json')); c=m.get('check',{}); f=m.get('confirmed',{})
print(('caught' if c.get('detected') else 'MISSED')+' (exit %s, on %s)'%(c.get('exit','?'), f.get('base','?')))")
  NOW=$(date +%s)
  if [ $((NOW-START)) -gt $BUDGET ]; then
    echo "| $ID | $PROP | $SUMMARY | recorded (not reached within the time budget) | $REC | |" >> $OUT; continue
  fi
  if ! git -C /repo apply --check $d/patch.diff 2>/dev/null; then
    echo "| $ID | $PROP | $SUMMARY | recorded (patch no longer applies to HEAD) | $REC | |" >> $OUT; continue
  fi
  git -C /repo apply $d/patch.diff
  ./check $PROP $TIER > /tmp/seedreg-$ID.log 2>&1; RC=$?
  git -C /repo checkout -- .
  FIRST=$(grep -m1 "violation:" /tmp/seedreg-$ID.log | sed 's/^\[check\] violation: //' | tr '|' '/' | cut -c1-220)
  case $RC in
    1) RES="**caught** (exit 1, $(grep -c '^VIOLATION' /tmp/seedreg-$ID.log) VIOLATION line(s))";;
    0) RES="MISSED (exit 0)";;
    *) RES="infrastructure error (exit $RC)";;
  esac
  echo "| $ID | $PROP | $SUMMARY | re-run: ./check $PROP $TIER | $RES | $FIRST |" >> $OUT
  echo "$ID $PROP rc=$RC"
  rm -f /tmp/seedreg-$ID.log
done < $TMP
rm -f $TMP
git -C /repo status --short
