#!/bin/bash
# Development helper: build the harness against another checkout of the library (default /tmp/fixwt).
export GOFLAGS=-mod=mod GOPROXY=off GOSUMDB=off GOTOOLCHAIN=local
R=${1:-/tmp/fixwt}
cd /verif/harness && sed "s#=> /repo#=> $R#" go.mod > /verif/build/go.dev.mod && cp go.sum /verif/build/go.dev.sum && go build -tags verif -modfile=/verif/build/go.dev.mod -o /verif/build/vh-dev .
