#!/bin/bash
# confirm_seed.sh <incoming-dir-with patch.diff demo_test.go meta.json> <seed-id> <property> [check tier]
# Confirms a seeded change in a scratch worktree (outside /repo and /verif), then runs the
# registered check against it in /repo (applied, checked, reverted), and files it under /verif/seeded/<seed-id>.
set -u
IN=$1; ID=$2; PROP=$3; TIER=${4:-quick}
export VERIF_NO_EVIDENCE=1 GOFLAGS=-mod=mod GOPROXY=off GOSUMDB=off GOTOOLCHAIN=local
WT=/tmp/confirm-wt-$ID
git -C /repo worktree remove --force $WT 2>/dev/null
BASE=HEAD
git -C /repo worktree add -q --detach $WT HEAD || exit 2
if ! git -C $WT apply --check $IN/patch.diff 2>/dev/null; then
  echo "patch does not apply to current HEAD"; git -C /repo worktree remove --force $WT; exit 3
fi
cd $WT
cp $IN/demo_test.go zz_demo_test.go
go test -vet=off -count=1 -run 'TestSeedDemo$' . >/tmp/confirm-$ID.clean.log 2>&1; CLEAN_DEMO=$?
git apply $IN/patch.diff
go test -vet=off -count=1 -run 'TestSeedDemo$' . >/tmp/confirm-$ID.mut.log 2>&1; MUT_DEMO=$?
rm zz_demo_test.go
go build ./... >/dev/null 2>&1; BUILD=$?
go test -vet=off -count=1 ./... >/tmp/confirm-$ID.suite.log 2>&1; SUITE=$?
cd /
git -C /repo worktree remove --force $WT
echo "clean_demo=$CLEAN_DEMO (want 0) mutated_demo=$MUT_DEMO (want !=0) build=$BUILD suite_with_mutation=$SUITE (want 0)"
if [ $CLEAN_DEMO -ne 0 ] || [ $MUT_DEMO -eq 0 ] || [ $BUILD -ne 0 ] || [ $SUITE -ne 0 ]; then echo "NOT CONFIRMED"; exit 4; fi
# run the check against the change in /repo itself
cd /verif
git -C /repo apply $IN/patch.diff
./check $PROP $TIER > /tmp/confirm-$ID.check.log 2>&1; CHECK=$?
git -C /repo checkout -- .
NV=$(grep -c '^VIOLATION' /tmp/confirm-$ID.check.log)
echo "check $PROP $TIER exit=$CHECK violations=$NV"
mkdir -p /verif/seeded/$ID
cp $IN/patch.diff /verif/seeded/$ID/patch.diff
cp $IN/demo_test.go /verif/seeded/$ID/demo_test.go
python3 - "$IN/meta.json" "$ID" "$PROP" "$TIER" "$CHECK" "$NV" <<'PY'
import json,sys,subprocess
m=json.load(open(sys.argv[1]))
m.update({"seed_id":sys.argv[2],"property":sys.argv[3],
 "confirmed":{"base":subprocess.run(["git","-C","/repo","rev-parse","--short","HEAD"],capture_output=True,text=True).stdout.strip(),
   "ran":["scratch worktree of /repo HEAD under /tmp (removed afterwards)","demo on clean tree: pass","patch applied: demo fails","patch applied: go build ./... and full existing suite pass"]},
 "check":{"cmd":"./check %s %s"%(sys.argv[3],sys.argv[4]),"exit":int(sys.argv[5]),"violation_lines":int(sys.argv[6]),
          "detected":int(sys.argv[5])==1}})
log=open("/tmp/confirm-%s.check.log"%sys.argv[2]).read().splitlines()
m["check"]["first_violation"]=next((l for l in log if "violation:" in l),"")[:600]
json.dump(m,open("/verif/seeded/%s/meta.json"%sys.argv[2],"w"),indent=1)
PY
