"""Static description of each property's check (used by ./check and gen_manifest.py)."""

KERNEL = "Coq 8.16.1 kernel + vm_compute (bytecode VM) for closed sweeps; no native_compute; no axioms declared by the development"
EXTRACT = ("extraction with ExtrOcamlBasic only (Extract Inductive bool/option/unit/list/prod/sumbool/sumor -> OCaml natives; "
           "N, Z, positive, byte stay extracted datatypes) and ocaml/driver.ml (hex parsing/printing, int<->N/Z conversion)")
HARNESS = "the Go harness (generators, printers, stdlib decoders used as implementation-side oracle, comparison code)"
VMODE = "V-mode: cases.v written by the harness (Go data -> Gallina term serialiser), evaluated by coqc with vm_compute"

PROPS = {}


def P(pid, **kw):
    kw.setdefault("harness", True)
    kw.setdefault("emode", False)
    kw.setdefault("srcfacts", False)
    kw.setdefault("assumptions", [])
    kw.setdefault("trusted_base", [KERNEL, HARNESS])
    PROPS[pid] = kw


P("C09",
  title="URL encoding emits only safe characters and decodes to the original bytes",
  emode=True,
  technique="Rocq proof (induction over byte strings + closed 256-byte sweeps) of alphabet and round-trip theorems over a Gallina model of mod_uri.go; model tied to the code by an exhaustive/random correspondence run through the extracted model",
  level_text=("Machine-checked theorems (Props/C09.v): for every byte string, url_encode output is within the alphabet and query_unescape returns the input; n-fold letters = n-fold application; link escape leaves no space / unescaped quote. "
              "The Gallina model is run (extracted to OCaml) against the real engine on all 256 bytes x all forms, all 65 536 byte pairs, random strings and urlencode regions; stdlib net/url decides the property on the real output."),
  level_note="Trusted: Coq kernel, extraction (ExtrOcamlBasic) + OCaml driver, Go harness; modelled not verified: bytebuf/x2bytes conversions of the carriers to bytes (validated by the correspondence over six carrier kinds).",
  design_ref="5 C09",
  trusted_base=[KERNEL, EXTRACT, HARNESS,
                "modelled, not verified: value-to-bytes conversion of the carrier (x2bytes/bytebuf), template parsing of the directive letters (both covered by the correspondence run)"],
  assumptions=["net/url.QueryUnescape and url.QueryEscape are the reference decoders/encoders (implementation-side oracle)",
               "the Gallina decoder Spec/DecURL.v is differential-tested against net/url on the escaper's image and on random strings"])

P("C07",
  title="JSON escaping always yields a valid JSON string that decodes to the input",
  emode=True,
  technique="Rocq proof (induction over byte strings, token-shape lemmas, closed 256-byte sweeps) of round-trip and alphabet theorems over a Gallina model of mod_json.go against an RFC 8259 string decoder; model tied to the code by exhaustive/random correspondence through the extracted model; region sentence via the interpreter model",
  level_text=("Machine-checked theorems (Props/C07.v): for every byte string json_unquote(json_quote s) = Some s, the escaped body contains no raw quote/control and every backslash starts a valid escape, n letters = n-fold application, tokens are ASCII. "
              "The model runs (extracted) against the real engine on every byte < 0x80 x all forms, all byte pairs, a stride (quick) or all (thorough) Unicode scalar values, random valid-UTF-8 strings and jsonquote regions around raw text; encoding/json decides the property on the real output; the Gallina decoder is differential-tested against encoding/json."),
  level_note="Trusted: Coq kernel, extraction + OCaml driver, Go harness, encoding/json as reference decoder. Invalid UTF-8 input is outside the property's quantifier (the byte-level theorem holds anyway).",
  design_ref="5 C07",
  trusted_base=[KERNEL, EXTRACT, HARNESS,
                "modelled, not verified: value-to-bytes conversion of the carrier (x2bytes/bytebuf), parsing of the directive letters; both exercised by the correspondence run"],
  assumptions=["encoding/json is the reference JSON string decoder (implementation-side oracle and validation target of Spec/DecJSON.v)",
               "lone surrogates decode to U+FFFD as in encoding/json"])

P("C10",
  title="JS and CSS escaping leave no active character and decode to the input",
  emode=True,
  technique="Rocq proof (induction over rune lists, token-shape lemmas, hex/surrogate arithmetic by lia) of alphabet and round-trip theorems over a Gallina model of mod_js1.go/mod_css.go against ECMAScript-string and CSS-escape decoders; model tied to the code by correspondence through the extracted model over scalar values, representative pairs and random strings",
  level_text=("Machine-checked theorems (Props/C10.v): for every list of scalar values (and, via C10_range_scalar, every byte string as Go ranges over it) the JS/CSS escaper output stays in the safe alphabet and decodes back to the input (CSS: NUL excepted); escapes are self-delimiting whatever follows; n letters decode with n passes. "
              "The extracted model is run against the real engine on every byte < 0x80, a stride (quick) / all (thorough) scalar values, 64x64 ordered pairs of class representatives, random valid UTF-8; two independent Go mini-decoders decide the property on the real output and validate the Gallina decoders."),
  level_note="Trusted: Coq kernel, extraction + OCaml driver, Go harness incl. the two ~60-line reference decoders; Go's UTF-8 range decoding is modelled by Model/Utf8.v (validated by the correspondence).",
  design_ref="5 C10",
  trusted_base=[KERNEL, EXTRACT, HARNESS,
                "modelled, not verified: Go's `range` UTF-8 decoding (Model/Utf8.v utf8_decode), strconv.AppendInt base 16 (Model/Hex.v hex_lo), bytebuf Reduce-based padding (closed form pad0)"],
  assumptions=["the harness's independent JS string-literal reader and CSS escape reader are the reference decoders",
               "invalid UTF-8 input is outside the property's quantifier"])

P("C08",
  title="HTML and attribute escaping neutralise markup and decode back to the input",
  emode=True,
  technique="Rocq proof (induction, token-shape lemmas, closed byte sweeps, hex/padding arithmetic) of alphabet and round-trip theorems over a Gallina model of mod_html.go/mod_attr.go against a model of Go's html.UnescapeString; tied to the code by correspondence through the extracted model over scalar values, representative pairs, entity-looking and random strings",
  level_text=("Machine-checked theorems (Props/C08.v): html_escape output has none of < > \" ' and every & starts one of five references; html_unescape(html_escape s) = s for every byte string; attr_escape output is within [A-Za-z0-9,.-_] + references and decodes to the input with controls normalised to U+FFFD, for every rune list and (C08_attr_bytes) every byte string; n letters = n-fold. "
              "The extracted model runs against the real engine on every byte < 0x80, a stride (quick) / all (thorough) scalar values, 64x64 ordered representative pairs, entity-looking strings, random UTF-8, and htmlescape regions around raw text; html.UnescapeString decides the property on the real output and validates the Gallina decoder."),
  level_note="Trusted: Coq kernel, extraction + OCaml driver, Go harness, html.UnescapeString as reference decoder (the Gallina decoder models its numeric-reference rules exactly and the four named references amp lt gt quot only).",
  design_ref="5 C08",
  trusted_base=[KERNEL, EXTRACT, HARNESS,
                "modelled, not verified: Go's `range` UTF-8 decoding (utf8_decode), strconv hex formatting (hex_lo), bytebuf Reduce-based padding (closed form pad0)"],
  assumptions=["html.UnescapeString is the reference entity decoder",
               "the Gallina decoder covers numeric references and the names amp/lt/gt/quot; other named references are outside the escapers' image"])

INTERP_TB = [KERNEL, VMODE, HARNESS,
             "modelled, not verified: the inspector contract (GetTo/Compare/Length/Loop of koykov/inspector, Model/Value.v), x2bytes text conversion incl. strconv float text (carried with the data, checked by the harness), Go's regexp engine (Model/Regex.v, with the expressions regenerated from the source on every run by harness/regexgen.go; tied by the parser correspondence parse(now) src = dump(Parse src) = compile(ast) on every generated case)",
             "reference semantics Spec/RefEval.v evaluated on the generator's AST is the property oracle; Spec/Compile.v is tied to the real parser by tree equality on every generated case"]
INTERP_ASSUME = ["generated templates stay inside the grammar of Spec/Ast.v; constructs outside the reference semantics' domain evaluate to SNA and are judged by the model/implementation correspondence only",
                 "map iteration order: range loops over maps are generated with at most one entry"]


def PI(pid, title, text, design, technique_extra=""):
    P(pid, title=title, emode=False,
      technique="Rocq proof over a Gallina model of the tree-walking interpreter (Model/Interp.v) and a reference semantics (Spec/RefEval.v); model, reference semantics and compile function tied to the code on every run by V-mode correspondence (cases.v + vm_compute) on the tree dumped from the real parser; the parser itself is modelled (Model/Parser.v over regular expressions regenerated from /repo's source on every run) and must build the same tree from the same bytes" + technique_extra,
      level_text=text,
      level_note="Trusted: Coq kernel + vm_compute, the Go harness (generator, Go->Gallina serialiser, verdict parsing), the verif-tagged tree dump hook. The theorems are about the model; the model is validated against the real engine on every generated case (output bytes, error class, write count), the reference semantics against the real output, the compile function against the real parser's tree.",
      design_ref=design, trusted_base=INTERP_TB, assumptions=INTERP_ASSUME)


PI("C01", "Static text and printed values reach the output unchanged and in order",
   "Theorems (Props/C01.v) about the interpreter model: static text reaches a healthy writer byte for byte as one write, escaped by exactly the bound tag in effect. Each run generates item lists (text, comments, prints with prefix/suffix over every scalar kind, boundary numbers, empty/nil/missing values, both keep-format settings), evaluates them in the model on the real parser's tree, in the reference semantics on the AST, and compares both with the real output; the parser's tree is compared with the compiled AST.", "5 C01")
PI("C02", "Conditions render exactly the branch their operands select",
   "Theorems (Props/C02.v): the result of a comparison is the same for every value of the scratch result buffer and error register (it cannot depend on conditions evaluated earlier). Each run generates if/else, ternary and both switch forms over all six operators, three operand placements, every scalar kind, values at/around the constant, len()/cap() and helpers, nested and preceded by other conditions (also on missing fields); model, reference semantics (typed comparison under the left operand's kind) and real engine are compared per case.", "5 C02")
PI("C03", "Loops run once per element, with separators between and else iff empty",
   "Theorems (Props/C03.v): a counter loop whose bound comparison fails at the initial value, and a range loop over no elements, perform no iteration and evaluate exactly the else branch. Each run generates counter loops over every bound operator and direction with literal/variable bounds and 0..3 trips, range loops over slices/maps/missing collections with key, value or both, separators, else branches, nests and sequences; model, reference semantics and real engine are compared per case.", "5 C03")
PI("C11", "Escape letters and chained modifiers compose left to right",
   "Theorems (Props/C11.v): a run of n+1 identical letters is one more application on top of the run of n (n letters = n-fold application), for every escaper. Each run generates prints with directive strings over {h,a,j,q,J,u,l,c} with repeats and '|' chains (default, ifThen, ifThenElse, escapers, harness modifiers with literal, variable and key-value arguments) over all scalar kinds; the reference semantics applies the chain left to right, modifiers before letters.", "5 C11")
PI("C14", "break, continue and lazybreak end exactly the loops they name",
   "Theorems (Props/C14.v): the three instructions are pure signals recording the requested depth. Each run generates nests up to depth 4 mixing counter and range loops with break/lazybreak/continue (plain, with depth N from 1 to beyond the nesting depth, and the five conditional forms) at every body position, with sibling loops before and after; model, reference semantics (break-depth register threaded through the store) and real engine are compared per case.", "5 C14")
PI("C15", "A variable always reads back its most recent assignment",
   "Theorems (Props/C15.v): after any setter the name is found and its slot is exactly the setter's image of the previous slot, whatever representation it held. Each run generates histories of ctx tags (literal, variable and modifier sources, ok flags), counter tags (init, ++, --, +n, -n) and loop bindings over three names, interleaved with reads as print, condition operand and modifier argument.", "5 C15")
PI("C16", "include behaves like inlining; exit stops its template immediately",
   "Theorems (Props/C16.v): for every prefix and suffix of a template, exit leaves the suffix unevaluated and the template reports success with exactly the output of the prefix. Each run generates include graphs to depth 3 (inside loops, conditions, regions; name lists with missing entries; both spellings) and exit at every position of generated nests; the reference semantics evaluates the included AST in place, sharing store and bound tags.", "5 C16")
PI("C17", "A failing output writer is always reported to the caller",
   "Theorems (Props/C17.v): a failing Write is reported and marks the writer; once failed, every later Write fails. Each run renders a generated corpus covering every construct once fault-free and once for EVERY fault position k = 1..writes (plus short writes), in the real engine with a fault-injecting io.Writer and in the model; the oracle on the real observations requires a non-nil error and the accepted bytes to be a prefix of the fault-free output.", "5 C17",
   technique_extra="; fault positions enumerated exhaustively per template")

PI("C05", "A reset or pooled context behaves exactly like a new one",
   "Theorems (Props/C05.v): for EVERY context state (reachable or not: failed render, exit, open bound tag, aborted loop, pending break depth ...) the model's Reset yields the state of a new context, up to the event log. Each run executes histories of renders of templates exercising every construct and early-termination path on one context with Reset / Release+Acquire in between; every reset-delimited segment is replayed on a new context and compared step by step (output, error); the history is evaluated in the Gallina model; a reflective digest of every Ctx field (also fields added later) of a reset context is compared with a new one.",
   "5 C05")
PROPS["C05"]["level_note"] += " Partial: the property's second sentence (bytes returned by earlier renders are never altered later) is heap aliasing in Go, which a pure model cannot exhibit; it is covered by the harness only (Render copies into a caller-owned buffer)."
PI("C18", "Deferred functions and pooled objects are settled exactly once",
   "Theorems (Props/C18.v): running the deferred list runs every registered function exactly once, in registration order, stamped with the number of writes made, and empties the list; Reset releases every held pooled object exactly once in acquisition order and nothing stays held. Each run executes histories of renders and resets on one context with harness modifiers that defer functions (unique tags) and acquire pooled objects at top level, in loops, in includes to depth 3, before and after exit; the event log of the real engine (writes of the outermost writer, registrations, runs, acquisitions, releases) is checked against the property and against the model's log.",
   "5 C18")

P("C04",
  title="Lookups always see the latest registration; Parse returns its own source's tree",
  technique="Rocq proof of a refinement between a Gallina model of db.go (index maps + slot array + checksum shortcut of Parse) and a list-of-registrations specification, for every operation history; model tied to the code by V-mode correspondence on generated histories (fresh registry per history through a verif-tagged reset hook)",
  level_text=("Theorems (Props/C04.v): for every history, every observation of the model (Parse, render by key / by ID / with fallback / through an include list) equals the specification's (C04_lookup_refines), given only that the checksum is injective on the history's own sources; Parse always yields a tree of its own source (C04_parse_own_source) — and the unchecked checksum shortcut is shown to return a foreign tree (the repaired defect); unknown names are not-found and leave the registry untouched; representation invariant for every reachable registry. Both injectivity-free statements are refuted by a concrete colliding checksum. "
              "Each run executes histories over 3 keys x 3 IDs x 4 sources (biased to replace-and-restore) on the real registry and compares every step with the paired two-map reference (shrinking failures) and with the Gallina model."),
  level_note="Trusted: Coq kernel + vm_compute, Go harness, the verif-tagged registry reset hook. Assumed: crc64 is injective on the sources of a history (checked for the generated universe by the real checksums handed to the model); crc64 collisions can be constructed and would make Parse return a foreign tree — outside the property's small universe, stated as the theorem's hypothesis.",
  design_ref="5 C04", trusted_base=[KERNEL, VMODE, HARNESS, "modelled, not verified: Go maps as association lists, crc64 as an injective function on the universe of sources, sync.RWMutex (C06)"],
  assumptions=["checksum injective on the sources of the history", "templates of the histories are static text, so the rendered output identifies the registered source"])

P("C12",
  title="Parse is total and accepts exactly the properly nested templates",
  technique="Rocq proof over a Gallina model of the whole parser (Model/Parser.v: Parse, parseTpl, processCtl, processCond, extractMods, extractArgs, splitNodes, rollupSwitchNodes as a function from bytes to trees) whose regular expressions are REGENERATED from /repo's regexp.MustCompile literals on every run (harness/regexgen.go: go/ast + Go's regexp/syntax -> terms of Model/Regex.v, a leftmost-first backtracking matcher proved sound and complete for a declarative match relation): totality for every table of expressions, acceptance iff the block tags -- as this parser classifies them -- are properly nested (refinement to the counter-and-snapshot nesting model, itself proved equal to the Dyck grammar), scanner partition and fuel theorems; model tied to the code by V-mode correspondence: parse(now) src = tree dumped from the real parser (or both refuse) on skeletons and all their single-tag deletions, spellings, exhaustive argument lists, fuzzed sources and every generated template of the interpreter-level checks; matcher vs Go's regexp.FindSubmatchIndex on every expression",
  level_text=("Theorems (Props/C12.v): for every table of expressions and registry content the parser model never runs out of fuel (C12_parser_total), agrees with the nesting model on error flag, counters and position from any snapshot (C12_parser_refines_nesting) and accepts a cleaned source iff all its tags are closed and its block tags are balanced (C12_parser_accepts_iff_nested); parse_skel sk = true <-> balanced sk = true <-> the grammar, for every tag word; the scanner's tokens concatenate back to the source, an unterminated tag yields the EOF error, the fuel |src|+1 always suffices; the matcher answers 'match' iff a substring belongs to the expression and reports the leftmost start (C12_matcher_spec, C12_matcher_leftmost). "
              "Each run regenerates the 45 expressions from the source, re-proves their side condition (now_table_ok), and puts every Parse call of the run to the parser model: about 3 700 sources in the quick tier (skeletons to depth 5 with every single block-tag deletion, insertions and swaps, deep nests to 24, spellings, unterminated tags, all argument lists over an 11-symbol alphabet up to length 4, 600 mutated sources), tree for tree or refusal for refusal; 1 500 (expression, subject) pairs against Go's regexp; the real acceptance against the Dyck predicate; panic/hang oracle on the fuzz stream."),
  level_note="What stays outside the proof: that Model/Regex.v agrees with Go's regexp on priorities and captures (covered by the matcher correspondence and, through the trees, by the parser correspondence), the translator harness/regexgen.go (trusted; a wrong translation shows as a correspondence failure on the unchanged tree), and the real parser's behaviour on bytes no run has tried (the correspondence is differential testing; 24 000 fuzzed sources agreed during development). Panics and hangs of the Go code are observed, not modelled.",
  design_ref="5 C12 and 11.11", trusted_base=[KERNEL, VMODE, HARNESS,
      "translator harness/regexgen.go (go/ast + regexp/syntax -> Model/Regex.v terms), re-run on /repo's source on every run",
      "modelled, not verified: Go's regexp engine (Model/Regex.v, byte-level leftmost-first backtracking; tied by the matcher and parser correspondences), bytealg.Trim / bytes.Split / strconv.Atoi as transcribed in Model/Parser.v, the registries' answers at parse time (names read through the hook VerifRegistryNames)"],
  assumptions=["every literal and positive class of the parser's expressions is ASCII and '.'/negated classes occur only under * and + (checked by the translator and by now_table_ok on every run), so matching bytes instead of runes gives the same boundaries"])

P("C13",
  title="Rendering never panics or hangs inside dyntpl, whatever the template and data",
  technique="Rocq theorems over the total interpreter model (error conditions surface as error values; the fault theorem C17 covers all trees) + correspondence of the model with the real engine on generated templates; exhaustive-style sweep of every built-in modifier/helper over argument tuples of every kind and mutation fuzzing of accepted templates with a recover/watchdog oracle",
  level_text=("Theorems (Props/C13.v): in the (total, by construction) interpreter model an unknown node type, an unknown condition helper, a missing template and a missing helper argument evaluate to the corresponding error value for every context and writer; every pure built-in answers with a value or one of four errors. "
              "Each run compares model and real engine on generated templates of all constructs, calls every registered built-in modifier (and alias) with 33 carrier values of every kind x 37 argument tuples in pipe and call form, every condition helper on every value, and renders mutated templates that still parse; oracle: recovered panic whose innermost non-runtime frame lies in the repository, or a 1.5 s watchdog."),
  level_note="Partial by nature: panics and non-termination are behaviours of the Go runtime that the pure model cannot exhibit (its functions are total by construction); the theorems cover the error plumbing, the sweep and the fuzzing cover sampled inputs. Include cycles (unbounded recursion, a process-fatal stack overflow) are excluded: acyclic registries only. Repeat counts of escape modifiers are author-controlled and exponential in memory: not swept beyond 3.",
  design_ref="5 C13", trusted_base=INTERP_TB, assumptions=INTERP_ASSUME + ["panics raised inside libraries dyntpl calls (koykov/clock) are counted, not judged"])

P("C20",
  title="Numeric and date modifiers compute the mathematically right value",
  technique="Rocq proof over an executable Flocq binary64 model of roundHelper (exact integer modes; precision modes exact whenever the scaling product is exact; the property's full statement refuted with a kernel-checked witness); model tied to the code on IEEE bit patterns by V-mode correspondence; exact rational rounding (math/big), Go's float64 operations and the clock formatter as oracles for rounding, arithmetic operand selection and dates",
  level_text=("Theorems (Props/C20.v): round/ceil/floor (and truncation) return exactly the integer rounding of the input's real value for every finite float; precision 0 is the identity; for precisions 1..22 floorPrec/ceilPrec/roundPrec return the correctly rounded quotient whenever the product x*10^p is exact (computable test); the full statement 'exact at the requested number of decimals' is REFUTED (witness 1000000000000000.25, p=2: the code returns a value above x). "
              "Each run compares the engine with the Flocq model bit for bit on floats at decimal boundaries x six modes x precisions 1..15 x pipe/alias/letter forms, with exact rational rounding, checks every math modifier over nine carrier kinds in pipe and call form against Go's float64 operation, and time::format / time::add over 16 layout globals, literal layouts, instants and carrier types against the clock library."),
  level_note="Trusted: Coq kernel + vm_compute, Flocq, Go harness. Axioms: the standard library's classical reals and functional extensionality that Flocq's real-number layer uses (listed per theorem in the evidence). libm (sqrt cbrt exp log pow mod), strconv and koykov/clock are external: the engine is compared against the same libraries. Known findings: precision rounding with an inexact scaling product; roundPrec beyond the int64 range.",
  design_ref="5 C20", trusted_base=[KERNEL, VMODE, HARNESS, "Flocq 4 (IEEE754.BinarySingleNaN, Bits) as the definition of binary64 arithmetic", "modelled, not verified: Go's math.Pow10 tables (transcribed), strconv float formatting (bits recovered by ParseFloat), libm and koykov/clock (oracle = same library)"],
  assumptions=["Go's float64 arithmetic is IEEE-754 binary64 round-to-nearest-even", "time.Unix uses the process's local zone on both sides"])

P("C06",
  title="Concurrent renders and re-registrations are safe and atomic",
  srcfacts=True, race=True,
  technique="Rocq proof over all interleavings of an atomic-step model of renderers and writers (render = the version current at its own lookup); the atomicity and immutability assumptions re-checked as theorems over facts regenerated from /repo's source on every run (go/ast + go/types); schedule exploration of the real engine under the race detector",
  level_text=("Theorems (Props/C06.v): for every schedule of lookups, node evaluations, finishes and re-registrations, a render returns exactly the version published by the last Set of its name before its own lookup (never a mixture, never older than a re-registration that had returned), and only versions actually published for that name. Theorems re-checked over source facts on every run: every *db method that reads/writes the indexes or slots holds the read/write lock (itself or through all its callers); no function outside the parser assigns through node/Tree/Tpl/mod/arg. "
              "Each run builds the engine with -race and runs 12 renderers (pooled contexts, templates with loops, conditions, escaping, includes) against 4 writers re-registering versions, GOMAXPROCS 1/2/4/16 with injected yields: every output must be exactly one version's output and not older than what was published before its lookup."),
  level_note="Partial by nature: data-race freedom and memory visibility are properties of the Go runtime and memory model; the theorem covers the locking protocol over all interleavings of atomic steps, the source-fact theorems tie the atomicity assumptions to the code, the race detector covers sampled schedules only. sync.RWMutex and sync.Pool semantics are assumed.",
  design_ref="5 C06", trusted_base=[KERNEL, HARNESS, "harness/srcfacts.go (go/ast + go/types extractor of lock usage, tree writes)", "Go race detector (sampled schedules)", "modelled, not verified: sync.RWMutex, sync.Pool, the Go memory model"],
  assumptions=["lookups and sets are atomic (re-checked from the source: db_methods_locked)", "parsed trees are immutable after Parse (re-checked from the source: render_path_readonly)"])

P("C19",
  title="Steady-state rendering performs no heap allocation",
  srcfacts=True,
  technique="Rocq proof of the no-growth property of the context's grow-only stores (second identical run after Reset takes no growth branch); field inventory of Ctx re-checked from the source on every run; testing.AllocsPerRun and store capacities measured on the real engine",
  level_text=("Theorems (Props/C19.v): for every demand sequence and every store, after one run and a Reset the same run (and any run with smaller demands) takes no growth branch and leaves the capacity unchanged. Re-checked from the source on every run: every field of Ctx is classified (cleared by Reset / grow-only storage truncated by Reset / scratch overwritten before use). "
              "Each run measures the repository's benchmark templates and generated compositions of all built-in constructs with a held, warmed context and buffer: capacities of the grow-only stores before and after the measurement must be equal and testing.AllocsPerRun must be 0; allocating templates are shrunk to a minimal one."),
  level_note="Partial by nature: escape analysis, interface boxing and append's growth policy belong to the compiler and runtime; the theorem covers the slot/buffer-reuse logic only, the measurement covers sampled templates (data kinds whose generated inspectors do not allocate by themselves: no map-typed fields).",
  design_ref="5 C19", trusted_base=[KERNEL, HARNESS, "testing.AllocsPerRun", "verif-tagged VerifCtxSlots hook"],
  assumptions=["inspectors of the data do not allocate (slices and structs of koykov/inspector's testobj; maps excluded)"])
# ---- additions of the build phase (kept separate so that the texts above stay as reviewed) ----
PROPS["C01"]["level_text"] += (" Also proved (Proofs/PreprocProofs.v) about Model/Preproc.v, the parser's source clean-up: comments of the form {#...#} are removed and nothing else (no-opener identity, removal equation, unterminated case), line breaks with the white space after them are removed and nothing else (no line feed in the result, identity without line feeds, the line-break-and-indentation equation, idempotence), trimming is an infix, and the whole clean-up only ever deletes bytes (sub-sequence); every run compares Model/Preproc.v with the real cutComments/cutFmt byte for byte on generated sources (hook VerifPreprocess), and parses every source under both keep-format settings.")
PROPS["C01"]["level_text"] += (" From source bytes (Model/Parser.v, Proofs/ParserModelProofs.v, Proofs/EndToEnd.v; for every table of expressions): a source without tags parses to one raw node with exactly its bytes and renders as itself (C01_static_source_renders_itself), a template without block tags becomes its pieces node for node in source order (C01_flat_template_keeps_order), static text is appended unchanged at every nesting level; whatever the comment and format expressions of the code are, the clean-up only ever deletes bytes and is the identity on a comment-free source when the format is kept (Proofs/ParserCleanup.v); every run checks parse(now) src = the real parser's tree on every case, and the clean-up through the regenerated comment/format expressions byte for byte.")
PROPS["C02"]["level_text"] += " Central theorem (Proofs/Refine*.v): for every supported template the interpreter model refines the reference semantics (output, final store, signal); corollaries C02_if_refines, C02_ternary_refines, C02_switch_refines, C02_ifok_refines; C02_branch_by_operands holds for every value of the scratch buffer and error register."
PROPS["C03"]["level_text"] += " C03_cloop_refines / C03_rloop_refines / C03_interp_refines_ref: loops of the model refine the reference semantics (iterations, separators escaped like text inside bound tags, else iff no iteration, break-depth bookkeeping, the loop variable as a live cell), by induction on fuel and on the element list."
PROPS["C05"]["level_text"] += (" History level (Proofs/HistoryProofs.v): clear_log (ctx_reset (clear_log c)) = ctx_new for every c; for every history, whatever the steps before a reset, the steps after it are judged exactly as on a new context (C05_history_after_reset, with the set-aside case stated and the unconditional form refuted); rendering never reads the event log (C05_log_does_not_influence_rendering). Re-proved from the source on every run: Reset's body touches every field classified as cleared or truncated, and every setter block leaves exactly one live representation in a slot. "
                               "Each run also walks all 13 x 13 slot transitions across a reset, and keeps the bytes Render returned until the end of the history.")
PROPS["C05"]["level_note"] = PROPS["C05"]["level_note"].replace("it is covered by the harness only (Render copies into a caller-owned buffer).", "it is checked on the real engine only: the slices Render returned are retained without copying and compared at the end of every history.")
PROPS["C11"]["level_text"] += " C11_run_mods_refines, C11_letters_after_mods, C11_print_refines: chains run left to right before any letter, each letter run is the n-fold escape, for every pure modifier chain (refinement of the reference semantics). Re-proved from the source on every run: every modifier the library registers is accounted for (in the interpreter model, in a model of its own, measured only, or outside the properties)."
PROPS["C13"]["level_text"] += " Re-proved from the source on every run: every node type constant and every error value of the code is the one the model knows. Each run also renders edge templates for every error branch of the interpreter that generated templates do not reach (found by a statement-coverage measurement), every way of writing brackets in a path inside and outside counter loops, and every generated case a second time on a context that was used and reset."
PROPS["C14"]["level_text"] += " C14_break_refines, C14_continue_refines (with their conditional forms), C14_break_keeps_pending_depth, C14_break_inside_ifok: the signals and the depth register of the model refine the reference semantics, including two interacting instructions in one iteration."
PROPS["C15"]["level_text"] += " C15_ctx_refines, C15_counter_refines, C15_ctx_copies_loop_cell, C15_ctx_node_no_new_cell: assignments of the model are the reference's env_set, and a ctx assignment never creates an alias of a loop counter. Re-proved from the source on every run: every setter block leaves exactly one live representation."
PROPS["C16"]["level_text"] += " C16_include_is_inlining, C16_render_refines, C16_exit_refines, C16_exit_inside_ifok: an include of the model is the inlined evaluation of the reference semantics at every include depth; exit propagates out of every construct including if-ok blocks."
PROPS["C17"]["level_text"] += " The fault theorems quantify over every node, if-ok blocks included (C17_fault_inside_ifok_is_writer_error). Each run also ends templates in loops whose last event is a print after a lazybreak, and runs modifiers that defer functions under the fault sweep."
PROPS["C18"]["level_text"] += " History level (Proofs/HistoryProofs.v): an included template never runs deferred functions (C18_deferred_run_at_depth_zero_only); a successful outermost render runs exactly the pending and newly registered ones once, in order, and a failed one runs none and keeps them (C18_deferred_each_once); over a reset-free segment the held pooled objects are exactly the acquired ones and the reset releases each once (C18_pools_held_between_resets, C18_reset_releases_each_once)."
PROPS["C20"]["level_text"] += (" Arithmetic (Model/Arith.v on Flocq binary64, Proofs/ArithProofs.v): add, sub, mul, div and sqrt are the correctly rounded real operation (overflow to the signed infinity otherwise), inc/dec never overflow, abs/max/min follow the Go functions on zeros, infinities and NaN, integers convert exactly up to 2^53 and correctly rounded up to 2^64, add and mul commute; every run compares the engine's printed results with the model bit for bit on boundary operands over every carrier type, zero-padded numeric strings included.")
PROPS["C06"]["level_text"] += " The exploration also flips one name between two fixed sources (re-parsed each time): its writer must see its own registration at once, other renderers one of the two versions."
for _p in ("C07", "C08", "C09", "C10"):
    PROPS[_p]["level_text"] += " Every run re-evaluates a sample of the extracted driver's answers inside Coq by vm_compute over the same definitions (extraction cross-check)."
PROPS["C05"]["srcfacts"] = True
PROPS["C15"]["srcfacts"] = True
for _p in ("C13", "C17", "C11", "C20"):
    PROPS[_p]["srcfacts"] = True

# ---- later additions (rounds 7-9 of the seeded changes, Proofs/SpecFacts.v, history steps with writer faults)
PROPS["C02"]["level_text"] += " Also (Proofs/SpecFacts.v): C02_missing_right_operand_partial / _model — a right-hand variable that does not exist leaves the specified domain in the reference semantics, and sends the interpreter model into the else branch for all six operators (the repaired code: the lookup buffer no longer carries an earlier value or the loop index)."
PROPS["C03"]["level_text"] += " Also (Proofs/SpecFacts.v): C03_index_path / _int / _model — inside a counting loop a[i].b reads exactly like a.<text of i>.b, outside of one the brackets are part of the name (C03_no_index_outside_loops); only the first bracket pair is substituted (the two-bracket form is refuted by a witness). Each run also ranges over slices of numbers, structs, pointers and strings of 0-5 elements and over collections of 256-300 elements."
PROPS["C11"]["level_text"] += " C11_failing_modifier_prints_nothing: a print whose chain fails emits nothing, prefix and suffix included, and the render goes on."
PROPS["C14"]["level_text"] += " A control instruction written in a for-else branch names the loops around the loop (C14_run_else_hands_on, C14_counter_loop_else_signal, C14_range_loop_else_signal, C14_break_in_for_else_agrees, C14_break2_in_for_else_agrees); the refinement theorem covers it."
PROPS["C15"]["level_text"] += " C15_counter_init / C15_counter_step / C15_env_set_reads_back: a counter step changes whatever integer the name holds by exactly the step, whoever produced it."
PROPS["C05"]["level_text"] += " Histories may contain renders cut by a failing writer (HRenderF): all history theorems cover them; C05_reset_after_failed_render: the Reset after any such render leaves a new context."
PROPS["C18"]["level_text"] += " C18_faulted_render_keeps_deferred, C18_failed_render_runs_no_deferred, C18_reset_drops_pending_deferred: a render that fails (writer or otherwise) runs no deferred function, keeps what it registered and acquired, and the next Reset drops the former and releases each of the latter once."
PROPS["C16"]["level_text"] += " Each run also executes the include/exit templates as histories on one context (failing nested includes, exits, then further renders with and without Reset) against the model."
PROPS["C06"]["level_text"] += " Workers that never return from the engine (a lock taken twice, a lock order) are reported with all goroutine stacks."
