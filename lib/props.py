"""Static description of each property's check (used by ./check and gen_manifest.py)."""

KERNEL = "Coq 8.16.1 kernel + vm_compute (bytecode VM) for closed sweeps; no native_compute; no axioms declared by the development"
EXTRACT = ("extraction with ExtrOcamlBasic only (Extract Inductive bool/option/unit/list/prod/sumbool/sumor -> OCaml natives; "
           "N, Z, positive, byte stay extracted datatypes) and ocaml/driver.ml (hex parsing/printing, int<->N/Z conversion)")
HARNESS = "the Go harness (generators, printers, stdlib decoders used as implementation-side oracle, comparison code)"
VMODE = "V-mode: cases.v written by the harness (Go data -> Gallina term serialiser), evaluated by coqc with vm_compute"

PROPS = {}


def P(pid, **kw):
    kw.setdefault("harness", True)
    kw.setdefault("emode", False)
    kw.setdefault("srcfacts", False)
    kw.setdefault("assumptions", [])
    kw.setdefault("trusted_base", [KERNEL, HARNESS])
    PROPS[pid] = kw


P("C09",
  title="URL encoding emits only safe characters and decodes to the original bytes",
  emode=True,
  technique="Rocq proof (induction over byte strings + closed 256-byte sweeps) of alphabet and round-trip theorems over a Gallina model of mod_uri.go; model tied to the code by an exhaustive/random correspondence run through the extracted model",
  level_text=("Machine-checked theorems (Props/C09.v): for every byte string, url_encode output is within the alphabet and query_unescape returns the input; n-fold letters = n-fold application; link escape leaves no space / unescaped quote. "
              "The Gallina model is run (extracted to OCaml) against the real engine on all 256 bytes x all forms, all 65 536 byte pairs, random strings and urlencode regions; stdlib net/url decides the property on the real output."),
  level_note="Trusted: Coq kernel, extraction (ExtrOcamlBasic) + OCaml driver, Go harness; modelled not verified: bytebuf/x2bytes conversions of the carriers to bytes (validated by the correspondence over six carrier kinds).",
  design_ref="5 C09",
  trusted_base=[KERNEL, EXTRACT, HARNESS,
                "modelled, not verified: value-to-bytes conversion of the carrier (x2bytes/bytebuf), template parsing of the directive letters (both covered by the correspondence run)"],
  assumptions=["net/url.QueryUnescape and url.QueryEscape are the reference decoders/encoders (implementation-side oracle)",
               "the Gallina decoder Spec/DecURL.v is differential-tested against net/url on the escaper's image and on random strings"])

P("C07",
  title="JSON escaping always yields a valid JSON string that decodes to the input",
  emode=True,
  technique="Rocq proof (induction over byte strings, token-shape lemmas, closed 256-byte sweeps) of round-trip and alphabet theorems over a Gallina model of mod_json.go against an RFC 8259 string decoder; model tied to the code by exhaustive/random correspondence through the extracted model; region sentence via the interpreter model",
  level_text=("Machine-checked theorems (Props/C07.v): for every byte string json_unquote(json_quote s) = Some s, the escaped body contains no raw quote/control and every backslash starts a valid escape, n letters = n-fold application, tokens are ASCII. "
              "The model runs (extracted) against the real engine on every byte < 0x80 x all forms, all byte pairs, a stride (quick) or all (thorough) Unicode scalar values, random valid-UTF-8 strings and jsonquote regions around raw text; encoding/json decides the property on the real output; the Gallina decoder is differential-tested against encoding/json."),
  level_note="Trusted: Coq kernel, extraction + OCaml driver, Go harness, encoding/json as reference decoder. Invalid UTF-8 input is outside the property's quantifier (the byte-level theorem holds anyway).",
  design_ref="5 C07",
  trusted_base=[KERNEL, EXTRACT, HARNESS,
                "modelled, not verified: value-to-bytes conversion of the carrier (x2bytes/bytebuf), parsing of the directive letters; both exercised by the correspondence run"],
  assumptions=["encoding/json is the reference JSON string decoder (implementation-side oracle and validation target of Spec/DecJSON.v)",
               "lone surrogates decode to U+FFFD as in encoding/json"])

P("C10",
  title="JS and CSS escaping leave no active character and decode to the input",
  emode=True,
  technique="Rocq proof (induction over rune lists, token-shape lemmas, hex/surrogate arithmetic by lia) of alphabet and round-trip theorems over a Gallina model of mod_js1.go/mod_css.go against ECMAScript-string and CSS-escape decoders; model tied to the code by correspondence through the extracted model over scalar values, representative pairs and random strings",
  level_text=("Machine-checked theorems (Props/C10.v): for every list of scalar values (and, via C10_range_scalar, every byte string as Go ranges over it) the JS/CSS escaper output stays in the safe alphabet and decodes back to the input (CSS: NUL excepted); escapes are self-delimiting whatever follows; n letters decode with n passes. "
              "The extracted model is run against the real engine on every byte < 0x80, a stride (quick) / all (thorough) scalar values, 64x64 ordered pairs of class representatives, random valid UTF-8; two independent Go mini-decoders decide the property on the real output and validate the Gallina decoders."),
  level_note="Trusted: Coq kernel, extraction + OCaml driver, Go harness incl. the two ~60-line reference decoders; Go's UTF-8 range decoding is modelled by Model/Utf8.v (validated by the correspondence).",
  design_ref="5 C10",
  trusted_base=[KERNEL, EXTRACT, HARNESS,
                "modelled, not verified: Go's `range` UTF-8 decoding (Model/Utf8.v utf8_decode), strconv.AppendInt base 16 (Model/Hex.v hex_lo), bytebuf Reduce-based padding (closed form pad0)"],
  assumptions=["the harness's independent JS string-literal reader and CSS escape reader are the reference decoders",
               "invalid UTF-8 input is outside the property's quantifier"])

P("C08",
  title="HTML and attribute escaping neutralise markup and decode back to the input",
  emode=True,
  technique="Rocq proof (induction, token-shape lemmas, closed byte sweeps, hex/padding arithmetic) of alphabet and round-trip theorems over a Gallina model of mod_html.go/mod_attr.go against a model of Go's html.UnescapeString; tied to the code by correspondence through the extracted model over scalar values, representative pairs, entity-looking and random strings",
  level_text=("Machine-checked theorems (Props/C08.v): html_escape output has none of < > \" ' and every & starts one of five references; html_unescape(html_escape s) = s for every byte string; attr_escape output is within [A-Za-z0-9,.-_] + references and decodes to the input with controls normalised to U+FFFD, for every rune list and (C08_attr_bytes) every byte string; n letters = n-fold. "
              "The extracted model runs against the real engine on every byte < 0x80, a stride (quick) / all (thorough) scalar values, 64x64 ordered representative pairs, entity-looking strings, random UTF-8, and htmlescape regions around raw text; html.UnescapeString decides the property on the real output and validates the Gallina decoder."),
  level_note="Trusted: Coq kernel, extraction + OCaml driver, Go harness, html.UnescapeString as reference decoder (the Gallina decoder models its numeric-reference rules exactly and the four named references amp lt gt quot only).",
  design_ref="5 C08",
  trusted_base=[KERNEL, EXTRACT, HARNESS,
                "modelled, not verified: Go's `range` UTF-8 decoding (utf8_decode), strconv hex formatting (hex_lo), bytebuf Reduce-based padding (closed form pad0)"],
  assumptions=["html.UnescapeString is the reference entity decoder",
               "the Gallina decoder covers numeric references and the names amp/lt/gt/quot; other named references are outside the escapers' image"])

INTERP_TB = [KERNEL, VMODE, HARNESS,
             "modelled, not verified: the inspector contract (GetTo/Compare/Length/Loop of koykov/inspector, Model/Value.v), x2bytes text conversion incl. strconv float text (carried with the data, checked by the harness), Go regexp (tag classification: tied by the parser correspondence compile(ast) = dump(Parse(print ast)))",
             "reference semantics Spec/RefEval.v evaluated on the generator's AST is the property oracle; Spec/Compile.v is tied to the real parser by tree equality on every generated case"]
INTERP_ASSUME = ["generated templates stay inside the grammar of Spec/Ast.v; constructs outside the reference semantics' domain evaluate to SNA and are judged by the model/implementation correspondence only",
                 "map iteration order: range loops over maps are generated with at most one entry"]


def PI(pid, title, text, design, technique_extra=""):
    P(pid, title=title, emode=False,
      technique="Rocq proof over a Gallina model of the tree-walking interpreter (Model/Interp.v) and a reference semantics (Spec/RefEval.v); model, reference semantics and compile function tied to the code on every run by V-mode correspondence (cases.v + vm_compute) on the tree dumped from the real parser" + technique_extra,
      level_text=text,
      level_note="Trusted: Coq kernel + vm_compute, the Go harness (generator, Go->Gallina serialiser, verdict parsing), the verif-tagged tree dump hook. The theorems are about the model; the model is validated against the real engine on every generated case (output bytes, error class, write count), the reference semantics against the real output, the compile function against the real parser's tree.",
      design_ref=design, trusted_base=INTERP_TB, assumptions=INTERP_ASSUME)


PI("C01", "Static text and printed values reach the output unchanged and in order",
   "Theorems (Props/C01.v) about the interpreter model: static text reaches a healthy writer byte for byte as one write, escaped by exactly the bound tag in effect. Each run generates item lists (text, comments, prints with prefix/suffix over every scalar kind, boundary numbers, empty/nil/missing values, both keep-format settings), evaluates them in the model on the real parser's tree, in the reference semantics on the AST, and compares both with the real output; the parser's tree is compared with the compiled AST.", "5 C01")
PI("C02", "Conditions render exactly the branch their operands select",
   "Theorems (Props/C02.v): the result of a comparison is the same for every value of the scratch result buffer and error register (it cannot depend on conditions evaluated earlier). Each run generates if/else, ternary and both switch forms over all six operators, three operand placements, every scalar kind, values at/around the constant, len()/cap() and helpers, nested and preceded by other conditions (also on missing fields); model, reference semantics (typed comparison under the left operand's kind) and real engine are compared per case.", "5 C02")
PI("C03", "Loops run once per element, with separators between and else iff empty",
   "Theorems (Props/C03.v): a counter loop whose bound comparison fails at the initial value, and a range loop over no elements, perform no iteration and evaluate exactly the else branch. Each run generates counter loops over every bound operator and direction with literal/variable bounds and 0..3 trips, range loops over slices/maps/missing collections with key, value or both, separators, else branches, nests and sequences; model, reference semantics and real engine are compared per case.", "5 C03")
PI("C11", "Escape letters and chained modifiers compose left to right",
   "Theorems (Props/C11.v): a run of n+1 identical letters is one more application on top of the run of n (n letters = n-fold application), for every escaper. Each run generates prints with directive strings over {h,a,j,q,J,u,l,c} with repeats and '|' chains (default, ifThen, ifThenElse, escapers, harness modifiers with literal, variable and key-value arguments) over all scalar kinds; the reference semantics applies the chain left to right, modifiers before letters.", "5 C11")
PI("C14", "break, continue and lazybreak end exactly the loops they name",
   "Theorems (Props/C14.v): the three instructions are pure signals recording the requested depth. Each run generates nests up to depth 4 mixing counter and range loops with break/lazybreak/continue (plain, with depth N from 1 to beyond the nesting depth, and the five conditional forms) at every body position, with sibling loops before and after; model, reference semantics (break-depth register threaded through the store) and real engine are compared per case.", "5 C14")
PI("C15", "A variable always reads back its most recent assignment",
   "Theorems (Props/C15.v): after any setter the name is found and its slot is exactly the setter's image of the previous slot, whatever representation it held. Each run generates histories of ctx tags (literal, variable and modifier sources, ok flags), counter tags (init, ++, --, +n, -n) and loop bindings over three names, interleaved with reads as print, condition operand and modifier argument.", "5 C15")
PI("C16", "include behaves like inlining; exit stops its template immediately",
   "Theorems (Props/C16.v): for every prefix and suffix of a template, exit leaves the suffix unevaluated and the template reports success with exactly the output of the prefix. Each run generates include graphs to depth 3 (inside loops, conditions, regions; name lists with missing entries; both spellings) and exit at every position of generated nests; the reference semantics evaluates the included AST in place, sharing store and bound tags.", "5 C16")
PI("C17", "A failing output writer is always reported to the caller",
   "Theorems (Props/C17.v): a failing Write is reported and marks the writer; once failed, every later Write fails. Each run renders a generated corpus covering every construct once fault-free and once for EVERY fault position k = 1..writes (plus short writes), in the real engine with a fault-injecting io.Writer and in the model; the oracle on the real observations requires a non-nil error and the accepted bytes to be a prefix of the fault-free output.", "5 C17",
   technique_extra="; fault positions enumerated exhaustively per template")

PI("C05", "A reset or pooled context behaves exactly like a new one",
   "Theorems (Props/C05.v): for EVERY context state (reachable or not: failed render, exit, open bound tag, aborted loop, pending break depth ...) the model's Reset yields the state of a new context, up to the event log. Each run executes histories of renders of templates exercising every construct and early-termination path on one context with Reset / Release+Acquire in between; every reset-delimited segment is replayed on a new context and compared step by step (output, error); the history is evaluated in the Gallina model; a reflective digest of every Ctx field (also fields added later) of a reset context is compared with a new one.",
   "5 C05")
PROPS["C05"]["level_note"] += " Partial: the property's second sentence (bytes returned by earlier renders are never altered later) is heap aliasing in Go, which a pure model cannot exhibit; it is covered by the harness only (Render copies into a caller-owned buffer)."
PI("C18", "Deferred functions and pooled objects are settled exactly once",
   "Theorems (Props/C18.v): running the deferred list runs every registered function exactly once, in registration order, stamped with the number of writes made, and empties the list; Reset releases every held pooled object exactly once in acquisition order and nothing stays held. Each run executes histories of renders and resets on one context with harness modifiers that defer functions (unique tags) and acquire pooled objects at top level, in loops, in includes to depth 3, before and after exit; the event log of the real engine (writes of the outermost writer, registrations, runs, acquisitions, releases) is checked against the property and against the model's log.",
   "5 C18")
