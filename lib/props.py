"""Static description of each property's check (used by ./check and gen_manifest.py)."""

KERNEL = "Coq 8.16.1 kernel + vm_compute (bytecode VM) for closed sweeps; no native_compute; no axioms declared by the development"
EXTRACT = ("extraction with ExtrOcamlBasic only (Extract Inductive bool/option/unit/list/prod/sumbool/sumor -> OCaml natives; "
           "N, Z, positive, byte stay extracted datatypes) and ocaml/driver.ml (hex parsing/printing, int<->N/Z conversion)")
HARNESS = "the Go harness (generators, printers, stdlib decoders used as implementation-side oracle, comparison code)"
VMODE = "V-mode: cases.v written by the harness (Go data -> Gallina term serialiser), evaluated by coqc with vm_compute"

PROPS = {}


def P(pid, **kw):
    kw.setdefault("harness", True)
    kw.setdefault("emode", False)
    kw.setdefault("srcfacts", False)
    kw.setdefault("assumptions", [])
    kw.setdefault("trusted_base", [KERNEL, HARNESS])
    PROPS[pid] = kw


P("C09",
  title="URL encoding emits only safe characters and decodes to the original bytes",
  emode=True,
  technique="Rocq proof (induction over byte strings + closed 256-byte sweeps) of alphabet and round-trip theorems over a Gallina model of mod_uri.go; model tied to the code by an exhaustive/random correspondence run through the extracted model",
  level_text=("Machine-checked theorems (Props/C09.v): for every byte string, url_encode output is within the alphabet and query_unescape returns the input; n-fold letters = n-fold application; link escape leaves no space / unescaped quote. "
              "The Gallina model is run (extracted to OCaml) against the real engine on all 256 bytes x all forms, all 65 536 byte pairs, random strings and urlencode regions; stdlib net/url decides the property on the real output."),
  level_note="Trusted: Coq kernel, extraction (ExtrOcamlBasic) + OCaml driver, Go harness; modelled not verified: bytebuf/x2bytes conversions of the carriers to bytes (validated by the correspondence over six carrier kinds).",
  design_ref="5 C09",
  trusted_base=[KERNEL, EXTRACT, HARNESS,
                "modelled, not verified: value-to-bytes conversion of the carrier (x2bytes/bytebuf), template parsing of the directive letters (both covered by the correspondence run)"],
  assumptions=["net/url.QueryUnescape and url.QueryEscape are the reference decoders/encoders (implementation-side oracle)",
               "the Gallina decoder Spec/DecURL.v is differential-tested against net/url on the escaper's image and on random strings"])

P("C07",
  title="JSON escaping always yields a valid JSON string that decodes to the input",
  emode=True,
  technique="Rocq proof (induction over byte strings, token-shape lemmas, closed 256-byte sweeps) of round-trip and alphabet theorems over a Gallina model of mod_json.go against an RFC 8259 string decoder; model tied to the code by exhaustive/random correspondence through the extracted model; region sentence via the interpreter model",
  level_text=("Machine-checked theorems (Props/C07.v): for every byte string json_unquote(json_quote s) = Some s, the escaped body contains no raw quote/control and every backslash starts a valid escape, n letters = n-fold application, tokens are ASCII. "
              "The model runs (extracted) against the real engine on every byte < 0x80 x all forms, all byte pairs, a stride (quick) or all (thorough) Unicode scalar values, random valid-UTF-8 strings and jsonquote regions around raw text; encoding/json decides the property on the real output; the Gallina decoder is differential-tested against encoding/json."),
  level_note="Trusted: Coq kernel, extraction + OCaml driver, Go harness, encoding/json as reference decoder. Invalid UTF-8 input is outside the property's quantifier (the byte-level theorem holds anyway).",
  design_ref="5 C07",
  trusted_base=[KERNEL, EXTRACT, HARNESS,
                "modelled, not verified: value-to-bytes conversion of the carrier (x2bytes/bytebuf), parsing of the directive letters; both exercised by the correspondence run"],
  assumptions=["encoding/json is the reference JSON string decoder (implementation-side oracle and validation target of Spec/DecJSON.v)",
               "lone surrogates decode to U+FFFD as in encoding/json"])
