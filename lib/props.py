"""Static description of each property's check (used by ./check and gen_manifest.py)."""

KERNEL = "Coq 8.16.1 kernel + vm_compute (bytecode VM) for closed sweeps; no native_compute; no axioms declared by the development"
EXTRACT = ("extraction with ExtrOcamlBasic only (Extract Inductive bool/option/unit/list/prod/sumbool/sumor -> OCaml natives; "
           "N, Z, positive, byte stay extracted datatypes) and ocaml/driver.ml (hex parsing/printing, int<->N/Z conversion)")
HARNESS = "the Go harness (generators, printers, stdlib decoders used as implementation-side oracle, comparison code)"
VMODE = "V-mode: cases.v written by the harness (Go data -> Gallina term serialiser), evaluated by coqc with vm_compute"

PROPS = {}


def P(pid, **kw):
    kw.setdefault("harness", True)
    kw.setdefault("emode", False)
    kw.setdefault("srcfacts", False)
    kw.setdefault("assumptions", [])
    kw.setdefault("trusted_base", [KERNEL, HARNESS])
    PROPS[pid] = kw


P("C09",
  title="URL encoding emits only safe characters and decodes to the original bytes",
  emode=True,
  technique="Rocq proof (induction over byte strings + closed 256-byte sweeps) of alphabet and round-trip theorems over a Gallina model of mod_uri.go; model tied to the code by an exhaustive/random correspondence run through the extracted model",
  level_text=("Machine-checked theorems (Props/C09.v): for every byte string, url_encode output is within the alphabet and query_unescape returns the input; n-fold letters = n-fold application; link escape leaves no space / unescaped quote. "
              "The Gallina model is run (extracted to OCaml) against the real engine on all 256 bytes x all forms, all 65 536 byte pairs, random strings and urlencode regions; stdlib net/url decides the property on the real output."),
  level_note="Trusted: Coq kernel, extraction (ExtrOcamlBasic) + OCaml driver, Go harness; modelled not verified: bytebuf/x2bytes conversions of the carriers to bytes (validated by the correspondence over six carrier kinds).",
  design_ref="5 C09",
  trusted_base=[KERNEL, EXTRACT, HARNESS,
                "modelled, not verified: value-to-bytes conversion of the carrier (x2bytes/bytebuf), template parsing of the directive letters (both covered by the correspondence run)"],
  assumptions=["net/url.QueryUnescape and url.QueryEscape are the reference decoders/encoders (implementation-side oracle)",
               "the Gallina decoder Spec/DecURL.v is differential-tested against net/url on the escaper's image and on random strings"])

P("C07",
  title="JSON escaping always yields a valid JSON string that decodes to the input",
  emode=True,
  technique="Rocq proof (induction over byte strings, token-shape lemmas, closed 256-byte sweeps) of round-trip and alphabet theorems over a Gallina model of mod_json.go against an RFC 8259 string decoder; model tied to the code by exhaustive/random correspondence through the extracted model; region sentence via the interpreter model",
  level_text=("Machine-checked theorems (Props/C07.v): for every byte string json_unquote(json_quote s) = Some s, the escaped body contains no raw quote/control and every backslash starts a valid escape, n letters = n-fold application, tokens are ASCII. "
              "The model runs (extracted) against the real engine on every byte < 0x80 x all forms, all byte pairs, a stride (quick) or all (thorough) Unicode scalar values, random valid-UTF-8 strings and jsonquote regions around raw text; encoding/json decides the property on the real output; the Gallina decoder is differential-tested against encoding/json."),
  level_note="Trusted: Coq kernel, extraction + OCaml driver, Go harness, encoding/json as reference decoder. Invalid UTF-8 input is outside the property's quantifier (the byte-level theorem holds anyway).",
  design_ref="5 C07",
  trusted_base=[KERNEL, EXTRACT, HARNESS,
                "modelled, not verified: value-to-bytes conversion of the carrier (x2bytes/bytebuf), parsing of the directive letters; both exercised by the correspondence run"],
  assumptions=["encoding/json is the reference JSON string decoder (implementation-side oracle and validation target of Spec/DecJSON.v)",
               "lone surrogates decode to U+FFFD as in encoding/json"])

P("C10",
  title="JS and CSS escaping leave no active character and decode to the input",
  emode=True,
  technique="Rocq proof (induction over rune lists, token-shape lemmas, hex/surrogate arithmetic by lia) of alphabet and round-trip theorems over a Gallina model of mod_js1.go/mod_css.go against ECMAScript-string and CSS-escape decoders; model tied to the code by correspondence through the extracted model over scalar values, representative pairs and random strings",
  level_text=("Machine-checked theorems (Props/C10.v): for every list of scalar values (and, via C10_range_scalar, every byte string as Go ranges over it) the JS/CSS escaper output stays in the safe alphabet and decodes back to the input (CSS: NUL excepted); escapes are self-delimiting whatever follows; n letters decode with n passes. "
              "The extracted model is run against the real engine on every byte < 0x80, a stride (quick) / all (thorough) scalar values, 64x64 ordered pairs of class representatives, random valid UTF-8; two independent Go mini-decoders decide the property on the real output and validate the Gallina decoders."),
  level_note="Trusted: Coq kernel, extraction + OCaml driver, Go harness incl. the two ~60-line reference decoders; Go's UTF-8 range decoding is modelled by Model/Utf8.v (validated by the correspondence).",
  design_ref="5 C10",
  trusted_base=[KERNEL, EXTRACT, HARNESS,
                "modelled, not verified: Go's `range` UTF-8 decoding (Model/Utf8.v utf8_decode), strconv.AppendInt base 16 (Model/Hex.v hex_lo), bytebuf Reduce-based padding (closed form pad0)"],
  assumptions=["the harness's independent JS string-literal reader and CSS escape reader are the reference decoders",
               "invalid UTF-8 input is outside the property's quantifier"])

P("C08",
  title="HTML and attribute escaping neutralise markup and decode back to the input",
  emode=True,
  technique="Rocq proof (induction, token-shape lemmas, closed byte sweeps, hex/padding arithmetic) of alphabet and round-trip theorems over a Gallina model of mod_html.go/mod_attr.go against a model of Go's html.UnescapeString; tied to the code by correspondence through the extracted model over scalar values, representative pairs, entity-looking and random strings",
  level_text=("Machine-checked theorems (Props/C08.v): html_escape output has none of < > \" ' and every & starts one of five references; html_unescape(html_escape s) = s for every byte string; attr_escape output is within [A-Za-z0-9,.-_] + references and decodes to the input with controls normalised to U+FFFD, for every rune list and (C08_attr_bytes) every byte string; n letters = n-fold. "
              "The extracted model runs against the real engine on every byte < 0x80, a stride (quick) / all (thorough) scalar values, 64x64 ordered representative pairs, entity-looking strings, random UTF-8, and htmlescape regions around raw text; html.UnescapeString decides the property on the real output and validates the Gallina decoder."),
  level_note="Trusted: Coq kernel, extraction + OCaml driver, Go harness, html.UnescapeString as reference decoder (the Gallina decoder models its numeric-reference rules exactly and the four named references amp lt gt quot only).",
  design_ref="5 C08",
  trusted_base=[KERNEL, EXTRACT, HARNESS,
                "modelled, not verified: Go's `range` UTF-8 decoding (utf8_decode), strconv hex formatting (hex_lo), bytebuf Reduce-based padding (closed form pad0)"],
  assumptions=["html.UnescapeString is the reference entity decoder",
               "the Gallina decoder covers numeric references and the names amp/lt/gt/quot; other named references are outside the escapers' image"])
