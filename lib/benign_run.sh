#!/bin/bash
# benign_run.sh <dir-with patch.diff meta.json> <id> [tier]: applies a behaviour-preserving change to
# /repo, runs every registered check against it (4 at a time), reverts the change straight
# afterwards and files the outcome under /verif/seeded/benign/<id>/ (patch, meta, result.json).
# A check that reports a violation on such a change is a false alarm of the machinery.
set -u
IN=$1; ID=$2; TIER=${3:-quick}
export VERIF_NO_EVIDENCE=1 GOFLAGS=-mod=mod GOPROXY=off GOSUMDB=off GOTOOLCHAIN=local
cd /verif
if [ -n "$(git -C /repo status --short)" ]; then echo "/repo is not clean"; exit 2; fi
if ! git -C /repo apply --check $IN/patch.diff 2>/dev/null; then echo "patch does not apply"; exit 3; fi
git -C /repo apply $IN/patch.diff
(cd /repo && go build ./... && go build -tags verif ./... && go test -vet=off -count=1 ./... >/tmp/benign-$ID.suite.log 2>&1); SUITE=$?
OUTD=/verif/seeded/benign/$ID; mkdir -p $OUTD
if [ $SUITE -ne 0 ]; then
  git -C /repo checkout -- .
  echo "$ID: build or suite fails with the change (not a valid benign change)"; rm -rf $OUTD; exit 4
fi
printf '%s\n' C01 C02 C03 C04 C05 C06 C07 C08 C09 C10 C11 C12 C13 C14 C15 C16 C17 C18 C19 C20 | \
  xargs -P 4 -I{} sh -c "./check {} $TIER > /tmp/benign-$ID-{}.log 2>&1; echo {} \$? >> /tmp/benign-$ID.rc"
git -C /repo checkout -- .
cp $IN/patch.diff $OUTD/patch.diff; cp $IN/meta.json $OUTD/meta.json
python3 - "$ID" "$TIER" "$OUTD" <<'PY'
import json,sys,re,os
id_,tier,outd=sys.argv[1:4]
rcs={}
for l in open(f'/tmp/benign-{id_}.rc'):
    p,rc=l.split(); rcs[p]=int(rc)
alarms={}
for p,rc in sorted(rcs.items()):
    if rc!=0:
        log=open(f'/tmp/benign-{id_}-{p}.log').read()
        alarms[p]={"exit":rc,"lines":[x for x in log.splitlines() if x.startswith('VIOLATION') or 'violation:' in x or 'infra' in x.lower()][:6]}
json.dump({"id":id_,"tier":tier,"exit_codes":rcs,"alarms":alarms},open(outd+'/result.json','w'),indent=1)
print(id_,"alarms:",sorted(alarms) or "none")
for p,a in alarms.items():
    for x in a["lines"][:3]: print("   ",p,x[:300])
os.remove(f'/tmp/benign-{id_}.rc')
PY
git -C /repo status --short
